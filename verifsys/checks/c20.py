"""C20 - Locality: adding/removing an independent declaration affects only its own entry.

Obligations: props/C20.v (an unused macro is inert; a fresh declaration appended to an accepted forest adds exactly its
entry on the catalog model).  Exploration: generated API models x one fresh declaration of a random kind (type, enum,
server, tag, method on an unrelated path) at a random insertion point, one removal of an unreferenced declaration, one
unused macro; the implementation must accept and every other catalog entry must be byte-identical."""
import re

from .. import common as C
from .. import genprop as GP

KNOWN_REGEX = "C20/regex-example-depends-on-neighbours"
KNOWN_USED = "C20/allof-chain-usedUserTypes"


def take(prop, cls):
    return prop in ("C20", "C07/C20")


def known_rule(cls, what, doc):
    m = re.search(r"\(([^()]*)\)\s*$", cls)
    if m and "verdict" not in cls:
        parts = [p.strip() for p in m.group(1).split(";")]
        if parts and all(p.endswith(": usedUserTypes") for p in parts) and doc.count("allOf") >= 2:
            return KNOWN_USED
        if parts and all(p.endswith(": example-regex") or p.endswith(": usedUserTypes") for p in parts) and "regex" in doc:
            return KNOWN_REGEX if any(p.endswith(": example-regex") for p in parts) else None
    return None


def run(res, tier, seed, replay):
    pr = C.prepare("C20", res, need_gens=("tables", "scanner", "typing", "tagname"))
    res.coverage["rule"] = ("generated API models x {a fresh type / enum / server / tag / method on an unrelated path inserted at a random "
                            "point between the top-level blocks, removal of one declaration nothing refers to, an unused macro}; compared: "
                            "verdict, every other catalog entry byte for byte, relative order of the old entries, presence of the new entry "
                            "and its automatic tag; non-trivial = every generated model; distinct by model")
    if not pr.harness_ok:
        res.violation("build failed: " + pr.harness_err[-800:], {"obligation": "build"}, found_input=False)
        return
    last, bad = GP.run(res, "C20", tier, seed, replay, pr, take, known_rule)
    for msg, rp, found in bad:
        res.violation("a declaration is not local: " + msg, rp, found_input=found)
    if bad:
        return
    if not pr.proof_ok:
        res.violation("proof obligation no longer checks: %s" % pr.proof_err, {"obligation": pr.proof_err, "theorems": pr.theorems}, found_input=False)
