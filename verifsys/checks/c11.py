"""C11 — static checks: duplicate names, repeated methods / URLs / similar paths, second singleton
children, missing required parameters, references to undefined tags / macros / types / enums.

Dynamic part.  A base set of small ACCEPTED documents (written here as directive trees) x every
fault kind x every position where the fault can be injected x {direct, via PASTE of a macro that
contains the faulty directive, via INCLUDE of a file that contains it}.  For every faulted project

  * the implementation must reject it, and
  * the diagnostic's (file, index) must lie inside the source span of the offending directive:
    keyword begin .. end of its last own line (head line or body).  "Offending" is the injected
    directive, or for duplicates the LATER of the two in reading order.

Spans are computed here from the text that is generated (never from the implementation).  The
model (coq/model/Catalog.v, Core.v) is run on every project as well (corecheck.compare_full).
Classes of deviations that are understood and reported are listed in KNOWN (a second response Body, Tags
naming an automatic or never-inherited tag, the ENUM diagnostics of pasted macros were such classes; they
are fixed in /repo and are now REQUIRED to be rejected inside the span)."""
import json
import random

from .. import common as C
from .. import corecheck as K
from .. import proj as P
from . import c13 as C13

HTTP = ("GET", "POST", "PUT", "PATCH", "DELETE")
MACRO_ADMITS = {"INFO", "Title", "Version", "Description", "SERVER", "BaseUrl", "URL", "Body", "Request", "RESP", "Path",
                "Headers", "Query", "TYPE", "ENUM", "PASTE"} | set(HTTP)
PASTE_PARENTS = {"URL", "Request", "RESP", "INFO", "SERVER"} | set(HTTP)

KNOWN = [
    {"id": "C11/nameless-type-diagnosed-elsewhere", "class": "nameless-type-diagnosed-elsewhere",
     "what": "TYPE without a name that stands AFTER a directive with a schema body: the type is registered under the name \"\" "
             "(collectUserTypes) and the schema library refuses it when the earlier directive's schema is compiled: the diagnostic "
             "is 'Invalid schema name ()' located at that earlier, innocent directive instead of 'required parameter' at the TYPE"},
    {"id": "C11/body-under-inline-schema-located-at-parent", "class": "located-at-parent",
     "what": "a Body child under a Request / response that carries its schema in its own parameters is rejected, but the "
             "diagnostic (\"parameters are unacceptable, according to the Body directive\") is located at the parent, not at "
             "the Body directive; theorem body_under_inline_schema_rejected"},
    {"id": "C11/paste-time-diagnostic-located-at-paste", "class": "located-at-paste",
     "what": "a PASTE of an undeclared macro that stands inside a macro body is reported (\"macro not found\") at the OUTER "
             "PASTE directive that expands that body, not at the faulty inner PASTE (processDirective re-locates every error "
             "of processPasteDirective)"},
]

_uid = [0]


class Node:
    __slots__ = ("head", "body", "kids", "uid", "paren", "inc")

    def __init__(self, head, kids=(), body=None, paren=False, uid=None, inc=None):
        self.head, self.body, self.kids, self.paren, self.inc = head, body, list(kids), paren, inc
        if uid is None:
            _uid[0] += 1
            uid = _uid[0]
        self.uid = uid

    @property
    def kw(self):
        return self.head.split(" ")[0]

    @property
    def kind(self):
        return "RESP" if self.kw.isdigit() else self.kw

    def with_kids(self, kids):
        return Node(self.head, kids, self.body, self.paren, self.uid, self.inc)

    def fresh(self):
        """deep copy with new identities"""
        return Node(self.head, [k.fresh() for k in self.kids], self.body, self.paren)


def n(head, *kids, body=None, paren=False):
    return Node(head, kids, body.split("\n") if isinstance(body, str) else body, paren)


def render(nodes, fname, files, spans, indent=0, buf=None):
    """append the text of nodes to files[fname]; spans[uid] = (file, begin of keyword, end of last own line)"""
    top = buf is None
    if top:
        buf = []
    for nd in nodes:
        if nd.inc is not None:
            iname, inodes = nd.inc
            off = sum(len(x) for x in buf)
            buf.append(" " * indent + "INCLUDE " + iname + "\n")
            spans[nd.uid] = (fname, off + indent, off + indent + len("INCLUDE " + iname) - 1)
            render(inodes, iname, files, spans, 0)
            continue
        off = sum(len(x) for x in buf)
        buf.append(" " * indent + nd.head + "\n")
        end = off + indent + len(nd.head) - 1
        for line in nd.body or []:
            buf.append(" " * (indent + 2) + line + "\n")
            end = sum(len(x) for x in buf) - 2
        spans[nd.uid] = (fname, off + indent, end)
        if nd.paren:
            buf.append(" " * indent + "(\n")
        render(nd.kids, fname, files, spans, indent + 2, buf)
        if nd.paren:
            buf.append(" " * indent + ")\n")
    if top:
        files[fname] = "".join(buf)


def project(tree):
    files, spans = {}, {}
    render(tree, "main.jst", files, spans)
    order = ["main.jst"] + sorted(f for f in files if f != "main.jst")
    return [(f, files[f].encode()) for f in order], spans


# ---- tree surgery (paths are tuples of child indices from the top-level list) -----------------


def get(tree, path):
    nd = tree[path[0]]
    for i in path[1:]:
        nd = nd.kids[i]
    return nd


def _edit(nodes, path, f):
    if len(path) == 1:
        return f(nodes, path[0])
    out = list(nodes)
    out[path[0]] = nodes[path[0]].with_kids(_edit(nodes[path[0]].kids, path[1:], f))
    return out


def insert(tree, path, node):
    """insert node so that it gets position path[-1] among the children of path[:-1] ((),i = top level)"""
    return _edit(tree, path, lambda ns, i: ns[:i] + [node] + ns[i:])


def replace(tree, path, node):
    return _edit(tree, path, lambda ns, i: ns[:i] + [node] + ns[i + 1:])


def walk(tree):
    """(path, node, parent) in reading order"""
    def go(nodes, pre, parent):
        for i, nd in enumerate(nodes):
            yield pre + (i,), nd, parent
            yield from go(nd.kids, pre + (i,), nd)
    yield from go(tree, (), None)


def walk_nm(tree):
    """walk outside MACRO definitions: faults inside macros are what the PASTE variants are for"""
    def go(nodes, pre, parent):
        for i, nd in enumerate(nodes):
            if nd.kind == "MACRO":
                if parent is None:
                    yield pre + (i,), nd, parent
                continue
            yield pre + (i,), nd, parent
            yield from go(nd.kids, pre + (i,), nd)
    yield from go(tree, (), None)


def find_path(tree, uid):
    for p, nd, _ in walk(tree):
        if nd.uid == uid:
            return p
    return None


def resolved_path(tree, path):
    """the URL path a directive belongs to (directive.Path())"""
    for k in range(len(path), 0, -1):
        nd = get(tree, path[:k])
        parts = nd.head.split(" ")
        if nd.kind == "URL" or (nd.kind in HTTP and len(parts) > 1 and parts[1].startswith("/")):
            return parts[1] if len(parts) > 1 else None
    return None


# ---- the base documents ------------------------------------------------------------------------

J = "JSIGHT 0.3"


def bases():
    B = {}
    B["info"] = [n(J), n("INFO", n('Title "T"'), n("Version 1"), n("Description", body="some text")),
                 n("GET /a", n("200 any"))]
    B["servers"] = [n(J), n("SERVER @s", n('BaseUrl "http://x"')), n("SERVER @s2 // second", n('BaseUrl "http://y"'))]
    B["tags"] = [n(J), n("TAG @g", n("Description", body="about g")), n("TAG @h // title"),
                 n("GET /a", n("Tags @g @h"), n("200 any")), n("URL /u", n("Tags @h"), n("DELETE", n("200 any")))]
    B["types"] = [n(J), n("TYPE @t", body='{\n  "id": 1\n}'), n("TYPE @u regex", body="/ab+/"), n("TYPE @w any"),
                  n("GET /t", n("200 @t")), n("POST /t", n("Request @u"), n("201 [@t]"))]
    B["enums"] = [n(J), n("ENUM @e", body="[1, 2]"), n("ENUM @f // other", body='["a"]'),
                  n("TYPE @x", body='{\n  "a": 1 // {enum: @e}\n}')]
    B["url"] = [n(J), n("URL /a/{id}", n("Path", body='{\n  "id": 1\n}'), n("GET", n("200 any")),
                        n("POST", n("Request any"), n("200 any")))]
    B["query"] = [n(J), n("GET /q", n("Description", body="what it does"), n("Query \"a=1\"", body='{\n  "a": 1\n}'), n("200 any"))]
    B["reqresp"] = [n(J), n("POST /r", n("Request", n("Headers", body='{\n  "X-A": "a"\n}'), n("Body any")),
                            n("200", n("Headers", body='{\n  "X-B": "b"\n}'), n("Body", body='{\n  "ok": true\n}')),
                            n("404 any"))]
    B["rpc"] = [n(J), n("URL /rpc", n("Protocol json-rpc-2.0"),
                        n("Method foo", n("Description", body="does foo"), n("Params", body="{}"), n("Result", body="{}")),
                        n("Method bar", n("Params", body="[]")))]
    B["macro"] = [n(J), n("MACRO @m", n("404 any"), paren=True), n("MACRO @hdr", n("Headers", body='{\n  "H": "h"\n}'), paren=True),
                  n("GET /m", n("200 any", n("PASTE @hdr")), n("PASTE @m"))]
    B["params2"] = [n(J), n("GET /a/{x}/b/{y}", n("Path", body='{\n  "x": 1,\n  "y": 2\n}'), n("200 any")),
                    n("PUT /a/{x}", n("Request", n("Body", body="{}")), n("200 any")),
                    n("URL /c/{z}", n("PATCH", n("Path", body='{\n  "z": "s"\n}'), n("200 any")))]
    # a parenthesised method with its own Path between the URL's Path and the slots after it; a path whose FIRST segment is a
    # parameter (its parent path is empty)
    B["pathmix"] = [n(J), n("URL /a/{id}/{x}/{y}", n("Path", body='{\n  "id": 1\n}'),
                            n("GET", n("Path", body='{\n  "x": 1\n}'), n("200 any"), paren=True), n("POST", n("200 any")))]
    B["leadparam"] = [n(J), n("GET /{t}/users", n("200 any")), n("URL /{t}/groups", n("GET", n("200 any"))), n("PUT /{t}", n("200 any"))]
    B["rpcparam"] = [n(J), n("URL /api/{tenant}/rpc", n("Protocol json-rpc-2.0"), n("Method m", n("Params", body="{}"))),
                     n("URL /shops/{shop}"), n("GET /z", n("200 any"))]
    B["owntags"] = [n(J), n("TAG @g"), n("TAG @h"), n("URL /u", n("Tags @g"), n("GET", n("Tags @h"), n("200 any")), n("DELETE", n("Tags @h"), n("204 any")))]
    B["nestedpaste"] = [n(J), n("MACRO @m", n("404 any"), paren=True), n("MACRO @outer", n("PASTE @m"), paren=True),
                        n("MACRO @never", n("200 any"), n("PASTE @m"), paren=True), n("MACRO @deep", n("PASTE @never"), paren=True),
                        n("GET /m", n("200 any"), n("PASTE @outer"))]
    B["urltags"] = [n(J), n("TAG @g"), n("URL /u", n("Tags @g"), n("GET", n("200 any")), n("DELETE", n("Tags @g"), n("204 empty")))]
    B["all"] = [n(J), n("INFO", n('Title "T"'), n("Version 1")), n("SERVER @s", n('BaseUrl "http://x"')), n("TAG @g"),
                n("TYPE @t", body="{}"), n("ENUM @e", body="[1]"), n("MACRO @m", n("404 any"), paren=True),
                n("URL /a/{id}", n("Path", body='{\n  "id": 1\n}'),
                  n("GET", n("Tags @g"), n("Description", body="text"), n("Query", body='{\n  "q": 1\n}'),
                    n("Request", n("Headers", body="{}"), n("Body @t")), n("200 @t"), n("PASTE @m"))),
                n("URL /rpc", n("Protocol json-rpc-2.0"), n("Method foo", n("Params", body="{}"), n("Result", body="{}")))]
    return B


# ---- fault generators: yield (kind, position label, tree', offending uid, injected uid, other uid) --
# `offending` = where the diagnostic is expected (the later of two occurrences); `injected` = the
# directive that the PASTE / INCLUDE variants move into a macro / a file; `other` = the earlier of
# two occurrences (None when the fault is not a duplicate).


def top_slots(tree):
    return range(1, len(tree) + 1)


def later(tree, a, b):
    pa, pb = find_path(tree, a), find_path(tree, b)
    return a if pa > pb else b


def earlier(tree, a, b):
    return b if later(tree, a, b) == a else a


def f_dup_named(tree):
    for p, nd, par in walk_nm(tree):
        if par is None and nd.kind in ("TYPE", "ENUM", "SERVER", "TAG", "MACRO"):
            for s in top_slots(tree):
                cp = Node(nd.head.split(" //")[0], [k.fresh() for k in nd.kids] if nd.kind == "MACRO" else [], nd.body, nd.paren)
                t2 = insert(tree, (s,), cp)
                yield "dup-" + nd.kind.lower(), "top:%d" % s, t2, later(t2, nd.uid, cp.uid), cp.uid, earlier(t2, nd.uid, cp.uid)


def f_dup_method(tree):
    for p, nd, par in walk_nm(tree):
        if nd.kind in HTTP:
            path = resolved_path(tree, p)
            if par is not None and par.kind == "URL":
                for s in range(len(par.kids) + 1):
                    cp = n(nd.kw, n("200 any"))
                    t2 = insert(tree, p[:-1] + (s,), cp)
                    yield "dup-method", "sibling:%d" % s, t2, later(t2, nd.uid, cp.uid), cp.uid, earlier(t2, nd.uid, cp.uid)
            for s in top_slots(tree):
                cp = n(nd.kw + " " + path, n("200 any"))
                t2 = insert(tree, (s,), cp)
                yield "dup-method", "top:%d" % s, t2, later(t2, nd.uid, cp.uid), cp.uid, earlier(t2, nd.uid, cp.uid)
        if nd.kind == "Method":
            for s in range(len(par.kids) + 1):
                cp = n(nd.head)
                t2 = insert(tree, p[:-1] + (s,), cp)
                yield "dup-rpc-method", "sibling:%d" % s, t2, later(t2, nd.uid, cp.uid), cp.uid, earlier(t2, nd.uid, cp.uid)


def f_dup_url(tree):
    for p, nd, par in walk_nm(tree):
        if nd.kind == "URL":
            for s in top_slots(tree):
                cp = n(nd.head)
                t2 = insert(tree, (s,), cp)
                yield "dup-url", "top:%d" % s, t2, later(t2, nd.uid, cp.uid), cp.uid, earlier(t2, nd.uid, cp.uid)


def registering(tree):
    """(uid, path) of the directives that register a path (addURL, addHTTPMethod), in reading order"""
    out = []
    for p, nd, par in walk_nm(tree):
        if nd.kind == "URL" or nd.kind in HTTP:
            rp = resolved_path(tree, p)
            if rp:
                out.append((nd.uid, rp.encode()))
    return out


def f_similar(tree):
    seen = set()
    for uid, path in registering(tree):
        if b"{" not in path or path in seen:
            continue
        seen.add(path)
        segs = path.decode().split("/")
        k = next(i for i, s in enumerate(segs) if s.startswith("{"))
        segs[k] = "{" + segs[k][1:-1] + "zz}"
        newp = "/".join(segs)
        for s in top_slots(tree):
            cp = n("GET " + newp, n("200 any"))
            t2 = insert(tree, (s,), cp)
            reg = registering(t2)
            off = None
            for j in range(len(reg)):
                if any(C13.conflict(reg[i][1], reg[j][1]) for i in range(j)):
                    off = reg[j][0]
                    break
            yield "similar-paths", "top:%d" % s, t2, off, cp.uid, None


SINGLETONS = ("Title", "Version", "Description", "Query", "Protocol", "Headers", "Path", "Body")


def f_second_singleton(tree):
    for p, nd, par in walk_nm(tree):
        if nd.kind in SINGLETONS and par is not None and par.kind != "MACRO":
            label = "second-%s-under-%s" % (nd.kind.lower(), par.kind.lower())
            for s in range(len(par.kids) + 1):
                cp = Node(nd.head, [], nd.body)
                t2 = insert(tree, p[:-1] + (s,), cp)
                yield label, "sibling:%d" % s, t2, later(t2, nd.uid, cp.uid), cp.uid, earlier(t2, nd.uid, cp.uid)
        if nd.kind in ("Headers", "Body") and par is not None and par.kind == "Request" and len(p) >= 2:
            # a method's request is ONE object however many Request directives spell it: the second singleton may come in a
            # second Request directive of the same method
            for before in (False, True):
                cp = Node(nd.head, [], nd.body)
                req = n("Request", cp)
                t2 = insert(tree, p[:-2] + (p[-2] + (0 if before else 1),), req)
                yield ("second-%s-in-a-second-request" % nd.kind.lower(), "before" if before else "after", t2,
                       later(t2, nd.uid, cp.uid), cp.uid, earlier(t2, nd.uid, cp.uid))
        if nd.kind in ("Request", "RESP") and len(nd.head.split(" ")) > 1 and not any(k.kind == "Body" for k in nd.kids):
            for s in range(len(nd.kids) + 1):
                cp = n("Body any")
                t2 = insert(tree, p + (s,), cp)
                yield "body-under-inline-%s" % nd.kind.lower(), "child:%d" % s, t2, cp.uid, cp.uid, None


REQUIRED = ("JSIGHT", "Title", "Version", "SERVER", "BaseUrl", "TYPE", "ENUM", "MACRO", "PASTE", "TAG", "Protocol", "Method", "Tags")


def f_missing_param(tree):
    for p, nd, par in walk_nm(tree):
        if nd.kind in REQUIRED and len(nd.head.split(" ")) > 1:
            if nd.kind in ("TYPE", "ENUM") and not nd.body:
                continue     # "TYPE" alone would make the scanner read the next directive as its schema
            cp = Node(nd.kw, nd.kids, nd.body, nd.paren)
            yield "missing-" + nd.kind.lower(), "at", replace(tree, p, cp), cp.uid, cp.uid, None
            if nd.kind in ("JSIGHT", "Title", "Version", "BaseUrl", "Protocol", "Method"):
                # the parameter is there, but says nothing: written as an empty quoted string
                cq = Node(nd.kw + ' ""', nd.kids, nd.body, nd.paren)
                yield "missing-" + nd.kind.lower(), "at-empty-quoted", replace(tree, p, cq), cq.uid, cq.uid, None


def eof_missing_name_documents():
    """(files, label): the directive whose required parameter is missing is the LAST thing of a file, with no line end after
    the keyword - in the main file and in an included one"""
    out = []
    for kw in ("ENUM", "TYPE", "MACRO", "PASTE", "TAG", "SERVER", "Tags", "Method", "Protocol", "Title", "Version", "BaseUrl"):
        ctx = {"Tags": "GET /a\n  200 any\n  ", "Method": "URL /r\n  Protocol json-rpc-2.0\n  ", "Protocol": "URL /r\n  ", "Title": "INFO\n  ", "Version": "INFO\n  Title \"t\"\n  ",
               "BaseUrl": "SERVER @s\n  ", "PASTE": "GET /a\n  200 any\n  "}.get(kw, "GET /a\n  200 any\n")
        out.append(([("main.jst", J + "\n" + ctx + kw)], "missing-%s-at-end-of-file" % kw.lower()))
        if kw in ("ENUM", "TYPE", "MACRO", "TAG", "SERVER"):
            out.append(([("main.jst", J + "\nGET /a\n  200 any\nINCLUDE last.jst\n"), ("last.jst", kw)], "missing-%s-at-end-of-included-file" % kw.lower()))
    return out


def first_segment(path):
    seg = path.strip("/").split("/")[0] if path else ""
    return seg if seg and not seg.startswith("{") else None


def f_undefined(tree):
    inter = [(p, nd) for p, nd, _ in walk_nm(tree) if nd.kind in HTTP or nd.kind == "Method"]
    for p, nd, par in walk_nm(tree):
        if nd.kind in HTTP or nd.kind == "Method" or nd.kind == "URL":
            tags = [k for k in nd.kids if k.kind == "Tags"]
            if tags and nd.kind != "URL":
                # a SECOND Tags directive of the method (only the first gives the method its tags; every one is checked)
                j = nd.kids.index(tags[0])
                c2 = n("Tags @undeclaredzz")
                yield "undefined-tag-in-second-tags", "second-tags", insert(tree, p + (j + 1,), c2), c2.uid, c2.uid, None
                c3 = n("Tags")
                yield "missing-tags", "second-tags", insert(tree, p + (len(nd.kids),), c3), c3.uid, c3.uid, None
            if tags:
                i = nd.kids.index(tags[0])
                cp = Node(tags[0].head + " @undeclaredzz")
                unused = nd.kind == "URL" and all(any(x.kind == "Tags" for x in k.kids) for k in nd.kids if k.kind in HTTP or k.kind == "Method")
                yield "undefined-tag" + ("-in-unused-url-tags" if unused else ""), "extra-name", replace(tree, p + (i,), cp), cp.uid, cp.uid, None
            elif nd.kind != "URL" or any(k.kind in HTTP or k.kind == "Method" for k in nd.kids):
                cp = n("Tags @undeclaredzz")
                unused = nd.kind == "URL" and all(any(x.kind == "Tags" for x in k.kids) for k in nd.kids if k.kind in HTTP or k.kind == "Method")
                pos0 = 1 if nd.kids and nd.kids[0].kind == "Protocol" else 0
                yield "undefined-tag" + ("-in-unused-url-tags" if unused else ""), "new-tags", insert(tree, p + (pos0,), cp), cp.uid, cp.uid, None
            # a name that no TAG declares but that is the AUTOMATIC tag of another interaction
            if nd.kind != "URL" and not tags and not (par is not None and any(k.kind == "Tags" for k in par.kids)):
                for q, other in inter:
                    seg = first_segment(resolved_path(tree, q))
                    if other is nd or seg is None or any(k.kind == "Tags" for k in other.kids):
                        continue
                    opar = get(tree, q[:-1]) if len(q) > 1 else None
                    if opar is not None and any(k.kind == "Tags" for k in opar.kids):
                        continue     # the other interaction takes the URL's tags: no automatic tag
                    if any(t.kind == "TAG" and t.head.split(" ")[1] == "@" + seg for t in tree):
                        continue
                    cp = n("Tags @" + seg)
                    when = "earlier" if q < p else "later"
                    yield "undefined-tag-automatic-of-%s-interaction" % when, "new-tags", insert(tree, p + (0,), cp), cp.uid, cp.uid, None
        if nd.kind in PASTE_PARENTS:
            for s in range(len(nd.kids) + 1):
                cp = n("PASTE @undeclaredzz")
                yield "undefined-macro", "child:%d" % s, insert(tree, p + (s,), cp), cp.uid, cp.uid, None
    for s in top_slots(tree):
        cp = n("PASTE @undeclaredzz")
        yield "undefined-macro", "top:%d" % s, insert(tree, (s,), cp), cp.uid, cp.uid, None
        r = n("200 @undeclaredzz")
        yield "undefined-type", "top:%d" % s, insert(tree, (s,), n("GET /zzundef", r)), r.uid, r.uid, None
        ty = n("TYPE @zzq", body='{\n  "a": @undeclaredzz\n}')
        yield "undefined-type", "in-type:%d" % s, insert(tree, (s,), ty), ty.uid, ty.uid, None
        en = n("TYPE @zzr", body='{\n  "a": 1 // {enum: @undeclaredzz}\n}')
        yield "undefined-enum", "in-type:%d" % s, insert(tree, (s,), en), en.uid, en.uid, None


FAULTS = [f_dup_named, f_dup_method, f_dup_url, f_similar, f_second_singleton, f_missing_param, f_undefined]


def variants(tree, injected):
    """the project as written, with the injected directive moved into a macro, moved into a file"""
    yield "direct", tree, None
    p = find_path(tree, injected)
    nd = get(tree, p)
    par = get(tree, p[:-1]) if len(p) > 1 else None
    if nd.kind in MACRO_ADMITS and (par is None or par.kind in PASTE_PARENTS):
        paste = n("PASTE @zzinj")
        t2 = replace(tree, p, paste)
        t2 = t2 + [n("MACRO @zzinj", nd, paren=True)]
        yield "paste", t2, paste.uid
    # (an INCLUDE written inside explicit parentheses is refused at the end of the included file - outside C08's statement,
    # which speaks of implicitly nested directives - so the file variant is not built below a parenthesised directive)
    in_paren = any(get(tree, p[:i]).paren for i in range(1, len(p)))
    if nd.kind != "JSIGHT" and not in_paren:
        inc = Node("INCLUDE", inc=("zzinc.jst", [nd]))
        yield "include", replace(tree, p, inc), None


def classify(kind, mode, st, where_ok, other, spans, loc, paste_uid, parent_span, msg):
    """None = conforms; else (class, text) - class in KNOWN or 'violation-...'"""
    if st != "err":
        return ("violation-accepted", "accepted")
    if where_ok:
        return None
    if kind == "missing-type" and "Invalid schema name ()" in msg:
        return ("nameless-type-diagnosed-elsewhere", "diagnostic at a schema-bearing directive")
    if kind.startswith("body-under-inline") and parent_span and inside(loc, parent_span):
        return ("located-at-parent", "diagnostic at the parent")
    if kind == "undefined-macro" and mode == "paste" and paste_uid is not None and inside(loc, spans[paste_uid]) and "macro not found" in msg:
        return ("located-at-paste", "diagnostic at the PASTE directive")
    return ("violation-location", "diagnostic elsewhere")


def _count(hits):
    out = {}
    for h in hits:
        out[h[1] + "/" + h[3]] = out.get(h[1] + "/" + h[3], 0) + 1
    return out


def inside(loc, span):
    return loc[0] == span[0] and span[1] <= loc[1] <= span[2]


def run(res, tier, seed, replay):
    pr = C.prepare("C11", res, need_gens=("tables", "scanner", "typing"))
    rng = random.Random(seed)
    quick = tier == "quick"
    res.coverage["rule"] = ("base documents (accepted, covering every directive kind) x fault kinds (duplicate TYPE/ENUM/SERVER/TAG/MACRO "
                            "name, same HTTP / JSON-RPC method, same URL, similar paths, second Title/Version/Description/Query/Protocol/"
                            "Headers/Path/Body, Body under a directive with inline schema, missing required parameter of 13 kinds, "
                            "undefined tag/macro/type/enum) x every top-level or sibling slot x {direct, PASTE, INCLUDE}; checked: "
                            "rejected, and (file, index) of the diagnostic inside the text span of the offending directive; "
                            "non-trivial = every faulted project; distinct by (base, fault, slot, mode)")
    if not (pr.harness_ok and pr.model_ok):
        res.violation("build failed: " + (pr.harness_err or pr.model_err)[-800:], {"obligation": "build"}, found_input=False)
        return
    B = bases()
    cases = []   # (base, kind, pos, mode, files, spans, offending uid, paste uid, parent span, other uid)
    if replay:
        rp = json.load(open(replay))
        cases.append((rp.get("base", "?"), rp.get("kind", "?"), rp.get("pos", "?"), rp.get("mode", "?"),
                      [(C.unhx(a), C.unhx(b)) for a, b in rp["project"]],
                      {1: tuple(rp["span"])} if rp.get("span") else {}, 1 if rp.get("span") else None, None, None, None))
    else:
        for name, tree in B.items():
            for f in FAULTS:
                for kind, pos, t2, off, inj, other in f(tree):
                    for mode, t3, paste_uid in variants(t2, inj):
                        files, spans = project(t3)
                        pp = find_path(t2, off) if off is not None else None
                        parent_span = None
                        if pp is not None and len(pp) > 1:
                            parent_span = spans.get(get(t2, pp[:-1]).uid)
                        cases.append((name, kind, pos, mode, files, spans, off, paste_uid, parent_span, other))
        if quick and len(cases) > 6000:
            keep = [c for c in cases if c[3] == "direct"]
            rest = [c for c in cases if c[3] != "direct"]
            cases = keep + rng.sample(rest, min(len(rest), max(0, 6000 - len(keep))))
    base_projects = [project(t)[0] for t in B.values()]
    base_out = C.run_lines("harness", "fn", [P.run_line("out=sha", pj) for pj in base_projects])
    res.count(len(base_out))
    spec_bad, corr_bad = [], []
    for (name, _), out, pj in zip(B.items(), base_out, base_projects):
        if not out.startswith("ok"):
            st, d = P.parse(out)
            spec_bad.append(("base document %r is not accepted: %s" % (name, C.unhx(d.get("msg", "-")).decode("latin1")[:120]),
                             {"base": name, "project": [(C.hx(a), C.hx(b)) for a, b in pj]}))
    lines = [P.run_line("out=sha", c[4]) for c in cases]
    outs = C.run_sharded("harness", "fn", lines)
    res.count(len(lines))
    dist, known_hits = {}, {k["class"]: [] for k in KNOWN}
    for c, out in zip(cases, outs):
        name, kind, pos, mode, files, spans, off, paste_uid, parent_span, other = c
        st, d = P.parse(out)
        res.nontrivial((name, kind, pos, mode))
        loc = (C.unhx(d["file"]).decode(), int(d["idx"])) if st == "err" else None
        where_ok = st == "err" and off in spans and inside(loc, spans[off])
        msg = C.unhx(d.get("msg", "-")).decode("latin1")[:100] if st == "err" else ""
        cl = classify(kind, mode, st, where_ok, other, spans, loc, paste_uid, parent_span, msg)
        key = kind + "/" + mode
        dist.setdefault(key, {"cases": 0, "rejected_in_span": 0})
        dist[key]["cases"] += 1
        if cl is None:
            dist[key]["rejected_in_span"] += 1
            continue
        rp = {"base": name, "kind": kind, "pos": pos, "mode": mode, "project": [(C.hx(a), C.hx(b)) for a, b in files],
              "span": list(spans[off]) if off in spans else None, "impl": out[:300]}
        if cl[0] in known_hits:
            known_hits[cl[0]].append((name, kind, pos, mode, loc, msg, files))
        else:
            where = "accepted" if st != "err" else "diagnostic %r at %s:%d, expected inside %s" % (msg, loc[0], loc[1], spans.get(off))
            spec_bad.append(("fault %s (%s, %s) injected into base %r: %s; document:\n%s" % (
                kind, pos, mode, name, where, "\n".join("--- %s\n%s" % (a, b.decode()) for a, b in files)[:900]), rp))
    if not replay:
        # a required name missing from the directive that ends its file without a line end
        eofd = eof_missing_name_documents()
        eo = C.run_sharded("harness", "fn", [P.run_line("-", [(a.encode(), b.encode()) for a, b in fl]) for fl, _ in eofd])
        res.count(len(eofd))
        for (fl, label), o in zip(eofd, eo):
            st_, d_ = P.parse(o)
            if st_ != "err":
                res.violation("fault %s: accepted; document:\n%s" % (label, "\n".join("--- %s\n%s" % (a, b) for a, b in fl)),
                              {"project": [(C.hx(a.encode()), C.hx(b.encode())) for a, b in fl], "kind": label})
                return
            res.nontrivial(("eof-missing", label))
        dist["missing-name-at-end-of-file"] = {"cases": len(eofd)}
    res.notes["input_distribution"] = {"bases": len(B), "cases": len(cases), "by_fault_and_mode": dist}
    for c in (cases[len(cases) // 7], cases[len(cases) // 2], cases[-5]) if len(cases) > 10 else cases[:1]:
        res.sample({"base": c[0], "fault": c[1], "pos": c[2], "mode": c[3], "document": c[4][0][1].decode()[:300]})
    # model correspondence on everything that was generated
    recs = K.compare_full([c[4] for c in cases] + base_projects)
    res.coverage["traces_validated_against_impl"] += len(recs)
    kinds = {}
    for r in recs:
        kinds[r["kind"]] = kinds.get(r["kind"], 0) + 1
        if r["kind"] not in ("same", "library"):
            k = r["k"]
            pj = cases[k][4] if k < len(cases) else base_projects[k - len(cases)]
            corr_bad.append((r, pj))
    res.notes["correspondence"] = kinds
    listed = {f["id"] for f in C.load_known()["findings"] if f["property"] == "C11"}
    for k in KNOWN:
        hits = known_hits[k["class"]]
        if hits and k["id"] not in listed:
            name, kind, pos, mode, loc, msg, files = hits[0]
            spec_bad.append(("%s (%d generated projects), e.g. fault %s %s %s -> %s" % (k["what"], len(hits), kind, pos, mode,
                             ("%r at %s:%d" % (msg, loc[0], loc[1])) if loc else "accepted"),
                             {"project": [(C.hx(n), C.hx(c)) for n, c in files], "class": k["class"]}))
        elif hits:
            name, kind, pos, mode, loc, msg, files = hits[0]
            res.known.append("id=%s %s: %d generated projects, e.g. base %r fault %s %s %s -> %s; document: %r" % (
                k["id"], k["what"], len(hits), name, kind, pos, mode,
                ("%r at %s:%d" % (msg, loc[0], loc[1])) if loc else "accepted", files[0][1].decode()[:400]))
    res.notes["known_classes"] = {k["class"]: {"hits": len(known_hits[k["class"]]),
                                               "by_fault_and_mode": _count(known_hits[k["class"]])} for k in KNOWN}

    for what, rp in spec_bad[:5]:
        res.violation(what, rp)
    if spec_bad:
        return
    if not pr.proof_ok:
        res.violation("proof obligation no longer checks: %s" % pr.proof_err,
                      {"obligation": pr.proof_err, "theorems": pr.theorems}, found_input=False)
    if corr_bad:
        r, pj = corr_bad[0]
        res.violation("catalog model and implementation disagree (%d disagreements, kinds %r): impl=%s model=%s; the implementation "
                      "rejected every faulted project inside the expected span" % (len(corr_bad), kinds, r["impl"][:200], r["model"][:200]),
                      {"correspondence": "full pipeline (skeleton / diagnostic)", "project": [(C.hx(a), C.hx(b)) for a, b in pj]},
                      found_input=False)
