"""C16 — Concurrency.  Partial by nature: the LOGIC of the ordered collections is decided by proof
(props/C16.v over model/OrderedMap.v and model/RulesBuilder.v, atomicity premise = locks_ok / rules_locks_ok on the
regenerated lock facts, models tied to the real code by the correspondences below); the RUNTIME (memory model, races inside
values and the schema library, independence of whole parses) is only EXPLORED with the race
detector and labelled as such in the evidence."""
import itertools
import json
import os
import random
import re
import subprocess
import time

from .. import common as C

KNOWN_EXAMPLE = "C16/concurrent-example-corruption"

# ---------------------------------------------------------------------------------------
# independent executable statement: a dict + a list


class RefMap:
    def __init__(self):
        self.data = {}
        self.order = []

    def run(self, ops):
        out = []
        for op in ops:
            t = op[0]
            if t == "S":
                if op[1] not in self.data:
                    self.order.append(op[1])
                self.data[op[1]] = op[2]
                out.append(".")
            elif t == "T":
                if op[1] not in self.data:
                    self.order.insert(0, op[1])
                self.data[op[1]] = op[2]
                out.append(".")
            elif t == "U":
                if op[1] in self.data:
                    self.data[op[1]] += op[2]
                out.append(".")
            elif t == "P":
                for k in self.order:
                    self.data[k] += op[1]
                out.append("true")
            elif t == "F":
                ok = True
                for k in self.order:
                    if k == op[1]:
                        ok = False
                        break
                    self.data[k] += op[2]
                out.append("true" if ok else "false")
            elif t == "G":
                out.append("some:" + C.hx(self.data[op[1]]) if op[1] in self.data else "none")
            elif t == "H":
                out.append("true" if op[1] in self.data else "false")
            elif t == "L":
                out.append(str(len(self.data)))
            elif t in ("E", "M"):
                out.append(pairs([(k, self.data[k]) for k in self.order]))
            elif t == "R":
                out.append(pairs([(k, self.data[k]) for k in reversed(self.order)]))
            elif t in ("X", "Y", "W"):
                vis, stopped = [], False
                for k in (reversed(self.order) if t == "Y" else self.order):
                    vis.append((k, self.data[k]))
                    if (self.data[k] if t == "W" else k) == op[1]:
                        stopped = True
                        break
                out.append(("stop:" if stopped else "full:") + pairs(vis))
            elif t in ("N", "V"):
                hit = None
                for k in self.order:
                    if (k if t == "N" else self.data[k]) == op[1]:
                        hit = k
                        break
                out.append("notfound" if hit is None else "found:" + C.hx(hit) + "=" + C.hx(self.data[hit]))
            else:
                raise ValueError(op)
        return ";".join(out)


def pairs(kvs):
    return "[" + "|".join(C.hx(k) + "=" + C.hx(v) for k, v in kvs) + "]"


def property_statement(ops, observed):
    """The property's own words, checked on the implementation's output alone (no reference):
    every key appears exactly once in every listing, no update is lost (a Get right after the
    history equals the fold of the writers of that key), Len counts the listed keys."""
    obs = observed.split(";") if observed else []
    if len(obs) != len(ops):
        return "number of results"
    last = {}
    for op, o in zip(ops, obs):
        t = op[0]
        if t in ("S", "T"):
            last[op[1]] = op[2]
        elif t == "U" and op[1] in last:
            last[op[1]] += op[2]
        elif t in ("P", "F") and o == "true":
            sfx = op[1] if t == "P" else op[2]
            for k in last:
                last[k] += sfx
        elif t == "F":
            return None  # partial Map: which keys it reached depends on the order; left to the reference
        elif t in ("E", "M", "R"):
            ks = [kv.split("=")[0] for kv in o[1:-1].split("|")] if o != "[]" else []
            if len(set(ks)) != len(ks):
                return "a key is listed twice"
            if set(ks) != {C.hx(k) for k in last}:
                return "listed keys are not the keys written"
            for kv in (o[1:-1].split("|") if o != "[]" else []):
                k, v = kv.split("=")
                if C.hx(last[C.unhx(k)]) != v:
                    return "lost update: listed value is not the last written"
        elif t in ("X", "Y", "W"):
            # the callback was called on each key at most once, on keys of the collection, with their last value;
            # an error is returned exactly when an entry that makes the callback fail exists, and that entry is
            # the last one visited; without an error every key was visited
            body = o.split(":", 1)[1]
            kvs = [kv.split("=") for kv in body[1:-1].split("|")] if body != "[]" else []
            ks = [k for k, _ in kvs]
            if len(set(ks)) != len(ks):
                return "Each called its callback twice on one key"
            for k, v in kvs:
                if C.unhx(k) not in last or C.hx(last[C.unhx(k)]) != v:
                    return "Each showed its callback an entry that is not the last written"
            fails = [k for k in last if (last[k] if t == "W" else k) == op[1]]
            if o.startswith("stop:") != bool(fails):
                return "Each returned an error although no callback failed, or none although one did"
            if fails:
                k, v = kvs[-1]
                if (v if t == "W" else k) != C.hx(op[1]):
                    return "Each went on after its callback returned an error"
                if any((vv if t == "W" else kk) == C.hx(op[1]) for kk, vv in kvs[:-1]):
                    return "Each went on after its callback returned an error"
            elif set(ks) != {C.hx(k) for k in last}:
                return "Each without an error did not visit every key"
        elif t in ("N", "V"):
            cands = [k for k in last if (k if t == "N" else last[k]) == op[1]]
            if (o == "notfound") != (not cands):
                return "Find misses an entry that satisfies the predicate, or invents one"
            if cands:
                k, v = o.split(":", 1)[1].split("=")
                if C.unhx(k) not in cands or C.hx(last[C.unhx(k)]) != v:
                    return "Find returned an entry that does not satisfy the predicate"
        elif t == "G":
            exp = "some:" + C.hx(last[op[1]]) if op[1] in last else "none"
            if o != exp:
                return "lost update: Get differs from the writers of the key"
        elif t == "L" and o != str(len(last)):
            return "Len differs from the number of keys"
    return None


def enc(ops):
    if not ops:
        return "-"
    return ",".join(":".join([op[0]] + [C.hx(a) for a in op[1:]]) for op in ops)


def alphabet(keys, idx):
    v = b"v%d" % idx
    out = []
    for k in keys:
        out += [("S", k, v), ("T", k, v), ("U", k, b"+"), ("G", k), ("H", k)]
    out += [("L",), ("M",)]
    return out


def exhaustive(keys, maxlen):
    tail = [("M",), ("L",)] + [("G", k) for k in keys]
    for n in range(0, maxlen + 1):
        alphs = [alphabet(keys, i) for i in range(n)]
        for seq in itertools.product(*alphs):
            yield list(seq) + tail


def random_seq(rng, maxlen):
    keys = [b"a", b"b", b"c", b"dd", b"e"]
    n = rng.randint(1, maxlen)
    ops = []
    for i in range(n):
        k = rng.choice(keys)
        r = rng.random()
        if r < 0.05:
            ops.append(("S", k, b"same"))
        elif r < 0.25:
            ops.append(("S", k, b"v%d" % i))
        elif r < 0.35:
            ops.append(("T", k, b"t%d" % i))
        elif r < 0.50:
            ops.append(("U", k, rng.choice([b"+", b"x", b"yz"])))
        elif r < 0.55:
            ops.append(("P", rng.choice([b"!", b"m"])))
        elif r < 0.60:
            ops.append(("F", k, b"?"))
        elif r < 0.70:
            ops.append(("G", k))
        elif r < 0.78:
            ops.append(("H", k))
        elif r < 0.84:
            ops.append(("L",))
        elif r < 0.87:
            ops.append(("E",))
        elif r < 0.89:
            ops.append(("R",))
        elif r < 0.915:
            ops.append(("X", rng.choice(keys + [b"zz"])))
        elif r < 0.935:
            ops.append(("Y", rng.choice(keys + [b"zz"])))
        elif r < 0.95:
            ops.append(("W", rng.choice([b"v%d" % rng.randint(0, max(i, 1)), b"t%d" % rng.randint(0, max(i, 1)), b"v0+"])))
        elif r < 0.965:
            ops.append(("N", rng.choice(keys + [b"zz"])))
        elif r < 0.975:
            ops.append(("V", rng.choice([b"v%d" % rng.randint(0, max(i, 1)), b"same"])))
        else:
            ops.append(("M",))
    return ops + [("M",), ("L",)]


def directed_each():
    """every insertion order of three keys, each written by Set or SetToTop, with values that coincide in every
    pattern; then Each / EachReverse failing at every key and at a missing one, at every value, Find by key and
    by value, and a write after a stopped Each (the read lock must have been released)"""
    keys = [b"a", b"b", b"c"]
    for perm in itertools.permutations(keys):
        for kinds in itertools.product("ST", repeat=3):
            for vals in ([b"same", b"same", b"x"], [b"x", b"same", b"same"], [b"same", b"x", b"same"], [b"p", b"q", b"r"]):
                ops = [(kd, k, v) for kd, k, v in zip(kinds, perm, vals)]
                tail = []
                for k in keys + [b"zz"]:
                    tail += [("X", k), ("Y", k), ("N", k)]
                for v in (b"same", b"x", b"q", b"none"):
                    tail += [("W", v), ("V", v)]
                tail += [("S", b"d", b"late"), ("X", b"d"), ("U", b"a", b"+"), ("W", b"same+"), ("M",), ("L",)]
                yield ops + tail


def set_scripts():
    inits = [[], [b"a"], [b"a", b"b"], [b"b", b"a", b"c"], [b"a", b"a"], [b"b", b"a", b"b"]]
    alph = [("A", b"a"), ("A", b"b"), ("A", b"c"), ("H", b"a"), ("H", b"c"), ("L",), ("D",)]
    for init in inits:
        for n in range(0, 4):
            for seq in itertools.product(alph, repeat=n):
                yield init, list(seq) + [("D",), ("L",)]


def ref_set(init, ops):
    data = set(init)
    order = list(init)          # as the constructor does: duplicates of init are kept
    out = []
    for op in ops:
        if op[0] == "A":
            if op[1] not in data:
                order.append(op[1])
            data.add(op[1])
            out.append(".")
        elif op[0] == "H":
            out.append("true" if op[1] in data else "false")
        elif op[0] == "L":
            out.append(str(len(data)))
        elif op[0] == "D":
            out.append(pairs([(k, b"") for k in order]))
    return ";".join(out)


# ---------------------------------------------------------------------------------------
# catalog.RulesBuilder / catalog.Rules (hand-written; model/RulesBuilder.v)

RULE_KEYS = [b"a", b"b", b"c", b"", b"dd"]


def renc(ops):
    if not ops:
        return "-"
    return ",".join(":".join([op[0]] + [C.hx(a) for a in op[1:]]) for op in ops)


def rinit(init):
    if init is None:
        return "-"
    return "n:" + "/".join(C.hx(k) + "=" + C.hx(v) for k, v in init)


def ref_rules(init, ops):
    """independent statement of the pair: a list of (Key, value) and a dict key -> position.
    Set appends and re-points the key (nothing is overwritten in place), Append appends and indexes nothing,
    NewRules indexes every rule under its Key, the last one winning."""
    data = list(init or [])
    index = {k: i for i, (k, _) in enumerate(data)}
    out = []
    for op in ops:
        t = op[0]
        if t == "S":
            index[op[1]] = len(data)
            data.append((op[1], op[3]))
            out.append(".")
        elif t == "A":
            data.append((op[1], op[2]))
            out.append(".")
        elif t == "G":
            if op[1] in index:
                k, v = data[index[op[1]]]
                out.append("some:" + C.hx(k) + "=" + C.hx(v))
            else:
                out.append("none")
        elif t == "H":
            out.append("true" if op[1] in index else "false")
        elif t == "L":
            out.append(str(len(data)))
        elif t in ("E", "M"):
            out.append(pairs(data))
        elif t in ("X", "W"):
            vis, stopped = [], False
            for k, v in data:
                vis.append((k, v))
                if (k if t == "X" else v) == op[1]:
                    stopped = True
                    break
            out.append(("stop:" if stopped else "full:") + pairs(vis))
        else:
            raise ValueError(op)
    return ";".join(out)


def rules_statement(init, ops, observed):
    """the property's own words on the implementation's output alone: no update is lost (Get = the last Set of
    the key), every call left exactly one rule (listings = the calls in order), and - when no key is Set twice
    and no appended rule borrows a Set key - every key once in the listing.  Returns (why, set_twice_seen)."""
    obs = observed.split(";") if observed else []
    if len(obs) != len(ops):
        return "number of results", False
    stored = list(init or [])
    last = {k: v for k, v in stored}
    set_count = {}
    twice = False
    for op, o in zip(ops, obs):
        t = op[0]
        if t == "S":
            stored.append((op[1], op[3]))
            last[op[1]] = op[3]
            set_count[op[1]] = set_count.get(op[1], 0) + 1
        elif t == "A":
            stored.append((op[1], op[2]))
        elif t == "G":
            exp = "some:" + C.hx(op[1]) + "=" + C.hx(last[op[1]]) if op[1] in last else "none"
            if o != exp:
                return "lost update: Get differs from the last Set of the key", twice
        elif t == "H":
            if o != ("true" if op[1] in last else "false"):
                return "Has differs from 'the key was Set'", twice
        elif t == "L":
            if o != str(len(stored)):
                return "Len differs from the number of rules stored", twice
        elif t in ("E", "M"):
            if o != pairs(stored):
                return "a stored rule is lost, doubled or out of call order", twice
            if init is None and any(c >= 2 for c in set_count.values()):
                twice = True   # the finding: the key is listed once per Set
        elif t in ("X", "W"):
            sel = (lambda kv: kv[0]) if t == "X" else (lambda kv: kv[1])
            hits = [n for n, kv in enumerate(stored) if sel(kv) == op[1]]
            want = stored[:hits[0] + 1] if hits else stored
            if o != ("stop:" if hits else "full:") + pairs(want):
                return ("Each with a failing callback did not visit exactly the rules up to the first one the "
                        "callback fails at"), twice
    return None, twice


def rules_exhaustive(maxlen):
    alph = [("S", b"a", b"j"), ("S", b"b", b""), ("A", b"a"), ("A", b""), ("S", b"", b"a")]
    tail = [("E",), ("M",), ("L",), ("G", b"a"), ("G", b"b"), ("G", b""), ("H", b"a"), ("H", b"")]
    for n in range(0, maxlen + 1):
        for seq in itertools.product(alph, repeat=n):
            ops = []
            for i, o in enumerate(seq):
                v = b"v%d" % i
                ops.append((o[0], o[1], o[2], v) if o[0] == "S" else (o[0], o[1], v))
            yield None, ops + tail


def rules_random(rng, maxlen):
    n = rng.randint(1, maxlen)
    ops = []
    for i in range(n):
        k = rng.choice(RULE_KEYS)
        r = rng.random()
        if r < 0.34:
            ops.append(("S", k, rng.choice(RULE_KEYS), b"s%d" % i))
        elif r < 0.50:
            ops.append(("A", k, b"a%d" % i))
        elif r < 0.66:
            ops.append(("G", k))
        elif r < 0.76:
            ops.append(("H", k))
        elif r < 0.84:
            ops.append(("L",))
        elif r < 0.88:
            ops.append(("E",))
        elif r < 0.93:
            ops.append(("X", k))
        elif r < 0.96:
            ops.append(("W", rng.choice([b"s%d" % rng.randint(0, max(i, 1)), b"a%d" % rng.randint(0, max(i, 1))])))
        else:
            ops.append(("M",))
    return None, ops + [("E",), ("L",)] + [("X", k) for k in RULE_KEYS] + [("G", k) for k in RULE_KEYS] + [("H", k) for k in RULE_KEYS]


def rules_new_random(rng):
    d = [(rng.choice(RULE_KEYS), b"n%d" % i) for i in range(rng.randint(0, 7))]
    ops = []
    for _ in range(rng.randint(0, 6)):
        k = rng.choice(RULE_KEYS)
        ops.append(rng.choice([("G", k), ("H", k), ("L",), ("E",), ("M",), ("X", k), ("W", b"n%d" % rng.randint(0, 7))]))
    return d, ops + [("E",), ("M",), ("L",)] + [("X", k) for k in RULE_KEYS] + [("G", k) for k in RULE_KEYS] + [("H", k) for k in RULE_KEYS]


def stage_rules_model(res, tier, seed, rp):
    """sequential correspondence model/RulesBuilder.v vs the real catalog.RulesBuilder / catalog.Rules, plus the
    executable statement on the implementation's output.  Returns (corr_bad, spec_bad)."""
    rng = random.Random(seed * 7919 + 16)
    scripts = []
    if rp and rp.get("rules_script"):
        init, ops = rp["rules_script"]
        scripts = [(None if init is None else [(C.unhx(k), C.unhx(v)) for k, v in init],
                    [tuple([o[0]] + [C.unhx(x) for x in o[1:]]) for o in ops])]
    elif not rp:
        scripts = list(rules_exhaustive(4 if tier == "quick" else 5))
        scripts += [rules_random(rng, 30) for _ in range(4000 if tier == "quick" else 40000)]
        scripts += [rules_new_random(rng) for _ in range(600 if tier == "quick" else 6000)]
    if not scripts:
        return [], []
    lines = ["rules %s %s" % (rinit(init), renc(ops)) for init, ops in scripts]
    t0 = time.time()
    impl = C.run_sharded("harness", "fn", lines)
    model = C.run_sharded("modelrun", None, lines)
    res.count(len(lines))
    res.coverage["traces_validated_against_impl"] += len(lines)
    dist = {}
    corr_bad, spec_bad = [], []
    twice_seen = 0
    unreachable_seen = 0
    for (init, ops), i, m in zip(scripts, impl, model):
        for o in ops:
            name = {"S": "Set", "A": "Append", "G": "Get", "H": "Has", "L": "Len", "E": "Each", "M": "MarshalJSON",
                    "X": "Each(fails at a key)", "W": "Each(fails at a value)"}[o[0]]
            dist[name] = dist.get(name, 0) + 1
        if i != m:
            corr_bad.append(((init, ops), i, m))
        expected = ref_rules(init, ops)
        if i != expected:
            why, twice = "result differs from the list+dict statement of the rules builder", False
        else:
            why, twice = rules_statement(init, ops, i)
        if "ALIAS-DIFFER" in i:
            why = "Rules() returned a copy: a *Rules obtained before a write does not see it"
        if why:
            spec_bad.append(((init, ops), i, expected, why))
        twice_seen += 1 if twice else 0
        sets = {o[1] for o in ops if o[0] == "S"}
        if any(o[0] == "A" and o[1] not in sets and o[1] != b"" for o in ops) and init is None:
            unreachable_seen += 1
        if sum(1 for o in ops if o[0] in "SA") >= 2 and re.search(r"\[[^\]]*\|", i):
            res.nontrivial(i)
    mid = len(scripts) // 2
    res.sample({"rules": lines[mid], "impl": impl[mid], "model": model[mid]})
    res.notes["rules_model"] = {
        "scripts": len(scripts),
        "exhaustive_len": 4 if tier == "quick" else 5,
        "constructor_scripts": sum(1 for init, _ in scripts if init is not None),
        "op_distribution": dist,
        "key_alphabet": [k.decode() for k in RULE_KEYS],
        "disagreements_model_vs_impl": len(corr_bad),
        "wall_s": round(time.time() - t0, 1),
    }
    res.notes["rules_set_twice_note"] = (
        "RulesBuilder.Set does not overwrite: a second Set of a key appends a second rule carrying that key and "
        "re-points the index (theorem rules_set_twice_keeps_both; confirmed on the implementation in %d scripts: the "
        "key is listed twice by Each/MarshalJSON, Get returns the later rule).  'Every key exactly once in the "
        "order' holds for the builder when no key is Set twice (theorem rules_first_insertion_order); the library's "
        "two call sites (catalog/schema.go:53, catalog/schema_jsight.go:125) Set the distinct keys of an ordered map "
        "of the schema library." % twice_seen)
    res.notes["rules_readers_note"] = (
        "Rules() and the methods of *Rules take no lock (regenerated fact, theorem rules_readers_take_no_lock); a "
        "Get that runs between the two statements of Set indexes out of range (theorem "
        "unlocked_get_during_set_panics).  Not exercised at run time on purpose (it is a data race by construction) "
        "and not reachable through the exported API: newRulesBuilder is unexported and the builder never leaves "
        "the function that created it; the concurrent stage reads only after the writers are joined.")
    return corr_bad, spec_bad


def compare_rules_finals(rules_stage, cmd):
    """final state of the REAL builder after a concurrent run with disjoint per-goroutine key sets against the
    model's interleaving-independent content (theorems rules_interleaving_content_independent,
    rules_any_interleaving, rules_disjoint_keys_once): the model is run on ONE interleaving (the goroutines one
    after the other) and on every goroutine alone."""
    bad = []
    summary = {}
    finals = rules_stage.pop("finals", {}) if isinstance(rules_stage, dict) else {}
    for kind, fin in sorted(finals.items()):
        progs = fin["programs"]
        keys = fin["keys"]
        canonical = ",".join(p for p in progs if p)
        ncalls = sum(len(p.split(",")) for p in progs if p)
        lines = ["rules - %s,E,L,%s" % (canonical, ",".join("G:" + k for k in keys))]
        lines += ["rules - %s,E" % p for p in progs]
        out = C.run_lines("modelrun", None, lines)
        obs = out[0].split(";")
        m_each, m_len, m_gets = obs[ncalls], obs[ncalls + 1], obs[ncalls + 2:]
        ent = lambda t: t[1:-1].split("|") if t != "[]" else []
        i_each = ent(fin["each"])
        why = None
        if sorted(i_each) != sorted(ent(m_each)):
            why = "the stored rules are not a permutation of the model's"
        elif str(fin["len"]) != m_len:
            why = "Len() = %s, the model says %s" % (fin["len"], m_len)
        elif list(fin["gets"]) != m_gets:
            d = [k for k, a, b in zip(keys, fin["gets"], m_gets) if a != b][:3]
            why = "Get differs from the model's interleaving-independent value for the keys %s" % d
        else:
            for g, p in enumerate(progs):
                mine = [e for e in i_each if C.unhx(e.split("=")[1]).startswith(b"g%d." % g)]
                alone = ent(out[1 + g].split(";")[-1])
                if mine != alone:
                    why = "the rules stored by goroutine %d are not its program in order" % g
                    break
        if why is None and kind == "distinct":
            ks = [e.split("=")[0] for e in i_each if C.unhx(e.split("=")[0]).startswith(b"k")]
            if len(ks) != len(set(ks)):
                why = "a key Set once appears twice in the order"
        summary[kind] = {"goroutines": len(progs), "calls": ncalls, "keys_compared": len(keys),
                         "agrees_with_model": why is None}
        if why:
            bad.append(("collections: RulesBuilder after a concurrent run (%s keys) differs from the model's "
                        "interleaving-independent content: %s" % (kind, why),
                        {"stress": cmd, "stage": "collections/rules", "kind": kind, "programs": progs,
                         "impl_each": fin["each"], "impl_gets": fin["gets"], "model": out[0][-2000:]}, True))
    return bad, summary


# ---------------------------------------------------------------------------------------


def run(res, tier, seed, replay):
    pr = C.prepare("C16", res, need_gens=("collections", "rules"))
    res.coverage["rule"] = ("operation sequences on the generated ordered collections: every sequence of "
                            "Set/SetToTop/Update/Get/Has over 3 keys and Len/MarshalJSON up to the length bound "
                            "(exhaustive) plus random sequences (5 keys, also Map, failing Map, Each, EachReverse, Each / "
                            "EachReverse whose callback fails at a key or at a value, Find by key and by value) up to "
                            "length 40, plus every insertion order of three keys with coinciding values followed by every "
                            "failing Each / Find; run on five instantiations (Servers, Tags, Directives, UserRules, Interactions); non-trivial = at least two writes and one listing with >= 2 keys")
    res.notes["decided_by"] = {
        "proof": ["ordered collections: invariant, no lost update, each key once in order/MarshalJSON, "
                  "first-insertion order, Set keeps position, Each / EachReverse stop at the first failing callback having visited a prefix, Find = first match (props/C16.v, all operation sequences)",
                  "atomicity premise locks_ok / ops_ok on the lock facts regenerated from *_gen.go",
                  "rules builder (catalog/rules_builder.go, rules.go): index sound in every reachable state, Get = last "
                  "Set, data = one rule per call in call order, every key once when no key is Set twice, content "
                  "independent of the interleaving for disjoint per-goroutine key sets (all schedules / interleavings); "
                  "atomicity premise rules_locks_ok / rules_ops_ok on gen/RulesFacts.v regenerated from the two files"],
        "correspondence": "model vs real catalog.Servers/Tags/UserRules/Interactions/directive.Directives, catalog.StringSet and "
                          "catalog.RulesBuilder/Rules, sequential; final state of a concurrently written RulesBuilder vs "
                          "the model's interleaving-independent content",
        "runtime_exploration_only": ["absence of data races", "independence of concurrent parses",
                                     "concurrent serialisation of one catalog",
                                     "the unsafe variant UserSchemas (excluded by name)"],
    }
    if not (pr.harness_ok and pr.model_ok):
        res.violation("build failed: " + (pr.harness_err or pr.model_err)[-800:],
                      {"obligation": "build of harness/model"}, found_input=False)
        return

    rp = json.load(open(replay)) if replay else None
    rng = random.Random(seed)
    seqs = []
    if rp and rp.get("ops"):
        seqs = [[tuple([o[0]] + [C.unhx(x) for x in o[1:]]) for o in rp["ops"]]]
    elif not (rp and (rp.get("stress") or rp.get("rules_script"))):
        seqs = list(exhaustive([b"a", b"b", b"c"], 4 if tier == "quick" else 5))
        nrand = 3000 if tier == "quick" else 30000
        seqs += [random_seq(rng, 40) for _ in range(nrand)]
        seqs += list(directed_each())
    lines = ["omap " + enc(s) for s in seqs]
    t0 = time.time()
    impl = C.run_sharded("harness", "fn", lines) if lines else []
    model = C.run_sharded("modelrun", None, lines) if lines else []
    res.count(len(lines))
    res.coverage["traces_validated_against_impl"] = len(lines)
    corr_bad, spec_bad = [], []
    for s, i, m in zip(seqs, impl, model):
        if i != m:
            corr_bad.append((s, i, m))
        expected = RefMap().run(s)
        why = None
        if i != expected:
            why = "result differs from the dict+list statement of the collection"
        else:
            why = property_statement(s, i)
        if why:
            spec_bad.append((s, i, expected, why))
        writes = sum(1 for o in s if o[0] in "STUPF")
        if writes >= 2 and re.search(r"\[[^\]]*\|", i):
            res.nontrivial(i)
    if seqs:
        mid = seqs[len(seqs) // 2]
        res.sample({"ops": enc(mid), "impl": impl[len(seqs) // 2], "model": model[len(seqs) // 2]})
        res.sample({"ops": enc(seqs[-1]), "impl": impl[-1]})

    # the Set variant
    sset = [] if rp else list(set_scripts())
    slines = ["oset %s %s" % ("/".join(C.hx(k) for k in init) if init else "-", enc(ops)) for init, ops in sset]
    if slines:
        simpl = C.run_sharded("harness", "fn", slines)
        smodel = C.run_sharded("modelrun", None, slines)
        res.count(len(slines))
        res.coverage["traces_validated_against_impl"] += len(slines)
        dup_seen = 0
        for (init, ops), i, m in zip(sset, simpl, smodel):
            if i != m:
                corr_bad.append(((init, ops), i, m))
            if i != ref_set(init, ops):
                spec_bad.append((ops, i, ref_set(init, ops), "StringSet differs from the set+list statement (init %r)" % (init,)))
            if len(set(init)) == len(init):
                for o in i.split(";"):
                    if o.startswith("["):
                        ks = [kv.split("=")[0] for kv in o[1:-1].split("|")] if o != "[]" else []
                        if len(ks) != len(set(ks)):
                            spec_bad.append((ops, i, "", "StringSet.Data() lists a key twice (init %r)" % (init,)))
            else:
                dup_seen += 1
        res.notes["stringset_constructor_note"] = (
            "NewStringSet(vv...) keeps duplicates of vv in the order (theorem new_set_keeps_duplicates; confirmed on the "
            "implementation in %d scripts); the constructor is used by tests only, Add never produces a duplicate "
            "(theorem set_add_each_once)" % dup_seen)
    # the hand-written rules builder
    rcorr, rspec = stage_rules_model(res, tier, seed, rp)
    rules_corr_bad = rcorr
    rules_spec_bad = rspec
    res.notes["input_distribution"] = {"map_sequences": len(seqs), "set_scripts": len(sset),
                                       "exhaustive_len": 4 if tier == "quick" else 5,
                                       "correspondence_s": round(time.time() - t0, 1)}
    res.coverage["exhaustive"] = True

    # runtime exploration
    explore_bad = []
    if not (rp and (rp.get("ops") or rp.get("rules_script"))):
        explore_bad = runtime_exploration(res, tier, seed)

    judge(res, pr, corr_bad, spec_bad, explore_bad, rules_corr_bad, rules_spec_bad)


# ---------------------------------------------------------------------------------------
# runtime exploration (NOT proof)

GOROOT_PREFIXES = tuple({"/usr/lib/go", "/usr/local/go", (subprocess.run(["go", "env", "GOROOT"], stdout=subprocess.PIPE, text=True).stdout.strip() or "/usr/lib/go")})


def parse_races(stderr):
    """Split race-detector output into reports; for each, the first non-stdlib frame of the two
    conflicting accesses."""
    reports = []
    for block in stderr.split("=================="):
        if "WARNING: DATA RACE" not in block:
            continue
        secs = re.split(r"\n(?=\S)", block.strip())
        accesses = []
        for sec in secs:
            head = sec.split("\n", 1)[0]
            if not re.match(r"(Previous )?(read|write|atomic read|atomic write)", head, re.I) and \
               not re.match(r"(Read|Write)", head):
                continue
            frames = re.findall(r"\n  (\S+)\(\)\n\s+(\S+?):(\d+)", sec)
            first = None
            for fn, path, ln in frames:
                if path.startswith(GOROOT_PREFIXES):
                    continue
                first = (fn, path, int(ln))
                break
            accesses.append({"kind": head.split(" at ")[0], "frame": first})
        reports.append({"accesses": accesses[:2], "text": block.strip()})
    return reports


def classify_race(rep):
    text = rep["text"]
    if "exampleBuilder" in text or "notations/jschema/example.go" in text or "internal/sync.(*BufferPool)" in text:
        return "known-example-pool"
    own = (C.REPO.rstrip("/") + "/", os.path.join(C.VERIF, "harness") + "/")
    fr = [a["frame"] for a in rep["accesses"]]
    if len(fr) == 2 and all(f and f[1].startswith(own) for f in fr):
        return "repo"
    return "library"


def runtime_exploration(res, tier, seed):
    note = {"label": "RUNTIME EXPLORATION - not a proof; a clean run is absence of evidence only",
            "race_detector": False, "runs": []}
    res.notes["runtime_exploration"] = note
    with C.Lock("build"):
        ok, err = C.build_harness(race=True)
    tool = "harness-race"
    if not ok:
        note["race_build_error"] = err[-600:]
        note["fallback"] = "race detector unavailable in this sandbox: plain binary used, only differing results can be seen"
        tool = "harness"
    else:
        note["race_detector"] = True
    rng = random.Random(seed * 31 + 7)
    if tier == "quick":
        plan = [(8, 8.0, 0, None)] + [(8, 1.0, 0, "cold")] * 4
    else:
        plan = [(8, 50.0, 0, None), (16, 50.0, 4, None), (4, 45.0, 2, None)] + [(8, 1.0, 0, "cold"), (16, 1.0, 0, "cold"), (4, 1.0, 2, "cold")] * 5
    bad = []
    known = C.load_known()
    known_ids = {f.get("id") for f in known.get("findings", []) if f.get("property") == "C16"}
    n_known_diffs = 0
    race_counts = {"known-example-pool": 0, "library": 0, "repo": 0}
    lib_samples = []
    # the valid fixtures and their solo results are established once, by the plain binary
    fixtures = os.path.join(C.WORK, "c16_fixtures.json")
    t0 = time.time()
    pick = subprocess.run([os.path.join(C.TOOLS, "harness"), "stress", "-stages", "pick", "-fixtures", fixtures,
                           "-testdata", os.path.join(C.REPO, "testdata"), "-files", "30"]
                          + (["-maxsolo", "100"] if tier == "quick" else []),
                          stdout=subprocess.PIPE, stderr=subprocess.PIPE, text=True, timeout=600)
    note["fixture_selection"] = {"exit": pick.returncode, "wall_s": round(time.time() - t0, 1),
                                 "rule": "the 15 largest .jst files plus an even spread over the sorted list of "
                                         "testdata/**/*.jst; kept if they validate, serialise, and two solo runs agree"
                                         + ("; quick tier: solo run <= 100 ms" if tier == "quick" else "")}
    for n, dur, procs, only in plan:
        s = rng.randint(1, 10 ** 6)
        cmd = [os.path.join(C.TOOLS, tool), "stress", "-n", str(n), "-dur", str(dur), "-seed", str(s),
               "-testdata", os.path.join(C.REPO, "testdata"), "-files", "30", "-fixtures", fixtures]
        if procs:
            cmd += ["-procs", str(procs)]
        if only:
            cmd += ["-stages", only]
        if tier == "quick":
            cmd += ["-shareddocs", "2"]
        t0 = time.time()
        try:
            p = subprocess.run(cmd, stdout=subprocess.PIPE, stderr=subprocess.PIPE, text=True, timeout=dur * 12 + 300,
                               env=dict(os.environ, GORACE="history_size=3"))
        except subprocess.TimeoutExpired:
            bad.append(("stress run did not finish (deadlock or livelock?)", {"stress": cmd}, True))
            continue
        run_note = {"cmd": " ".join(cmd), "wall_s": round(time.time() - t0, 1), "exit": p.returncode}
        note["runs"].append(run_note)
        try:
            rep = json.loads(p.stdout.strip().splitlines()[-1])
        except Exception:
            m = re.search(r"^(fatal error:.*|panic:.*)$", p.stderr, re.M)
            head = m.group(1) if m else ""
            frames = [ln.strip() for ln in p.stderr.splitlines() if ln.strip().startswith(C.REPO.rstrip("/") + "/")][:4]
            bad.append(("stress run crashed: %s %s ... %s" % (head, " ".join(frames), p.stderr[-500:]), {"stress": cmd}, True))
            continue
        stages = rep.get("stages", {})
        files = stages.get("projects", {}).pop("files", []) or stages.get("cold", {}).pop("files", [])
        if "rules" in stages.get("collections", {}):
            try:
                rbad, rsum = compare_rules_finals(stages["collections"]["rules"], cmd)
            except Exception as e:
                rbad, rsum = [("collections: comparison of the RulesBuilder final state with the model failed: %r" % (e,),
                               {"stress": cmd, "stage": "collections/rules"}, False)], {}
            bad.extend(rbad)
            stages["collections"]["rules"]["model_comparison"] = rsum
        run_note["stages"] = stages
        run_note["fixture_files"] = len(files)
        res.count(sum(int(v.get("calls", 0)) for v in stages.get("collections", {}).values()))
        res.count(int(stages.get("projects", {}).get("runs", 0)) + int(stages.get("cold", {}).get("runs", 0)) + int(stages.get("shared", {}).get("reads", 0)) + int(stages.get("samefile", {}).get("runs", 0)))
        for v in rep.get("violations", []):
            if v.get("class") == "example-only" and v.get("stage") == "projects":
                n_known_diffs += 1
                if KNOWN_EXAMPLE in known_ids:
                    continue
            bad.append(("%s: %s" % (v["stage"], v["what"][:700]),
                        {"stress": cmd, "stage": v["stage"], "replay_input": v["replay"], "class": v.get("class", "")}, True))
        for r in parse_races(p.stderr):
            c = classify_race(r)
            race_counts[c] += 1
            if c == "repo":
                fr = [a["frame"] for a in r["accesses"]]
                bad.append(("DATA RACE between %s and %s" % (fr[0][0] + " " + fr[0][1] + ":" + str(fr[0][2]),
                                                              fr[1][0] + " " + fr[1][1] + ":" + str(fr[1][2])),
                            {"stress": cmd, "race_report": r["text"][:2500]}, True))
            elif c == "library" and len(lib_samples) < 3:
                lib_samples.append(r["text"][:1200])
            elif c == "known-example-pool" and KNOWN_EXAMPLE not in known_ids and race_counts[c] == 1:
                bad.append(("DATA RACE in the schema library's example buffer pool reached from catalog.unmarshalJSightSchema",
                            {"stress": cmd, "race_report": r["text"][:2500]}, True))
    note["data_race_reports"] = race_counts
    note["data_race_policy"] = ("violation: both conflicting accesses in /repo (or the harness); "
                                "known-example-pool: the listed finding; library: races entirely inside the schema "
                                "library are a named residual of C16 and are only recorded here")
    if lib_samples:
        note["library_race_samples"] = lib_samples
    if n_known_diffs or race_counts["known-example-pool"]:
        msg = ("id=%s concurrent parses corrupt each other's schema \"example\" strings (pooled buffer returned by "
               "jschema Example()); %d differing results (equal once \"example\" members are removed), %d race reports "
               "in this run" % (KNOWN_EXAMPLE, n_known_diffs, race_counts["known-example-pool"]))
        if KNOWN_EXAMPLE in known_ids:
            res.known.append(msg)
        note["known_finding_seen"] = msg
    return bad


def diagnose_locks():
    """which (collection, method) breaks locks_ok / ops_ok, computed by Coq on the regenerated facts"""
    src = os.path.join(C.WORK, "c16_diag.v")
    with open(src, "w") as f:
        f.write("From Coq Require Import String List.\nFrom JV.gen Require Import Collections RulesFacts.\n"
                "From JV.model Require Import LockDiscipline RulesLocks.\nOpen Scope string_scope.\nOpen Scope list_scope.\n"
                "Eval vm_compute in (locks_failures collections).\nEval vm_compute in (ops_failures collections).\n"
                "Eval vm_compute in rules_failures.\n")
    ok, _ = C.coq_make(["model/LockDiscipline.vo", "model/RulesLocks.vo"])
    p = C.sh(["timeout", "300", "coqc"] + C.coq_args() + [src], cwd=C.COQ)
    outs = re.findall(r"=\s*(.*?)\n\s*:\s*list", p.stdout, re.S)
    names = ["locks_failures", "ops_failures", "rules_failures"]
    return {n: " ".join(o.split()) for n, o in zip(names, outs)} if p.returncode == 0 else {"error": p.stderr[-400:]}


def judge(res, pr, corr_bad, spec_bad, explore_bad, rules_corr_bad=(), rules_spec_bad=()):
    for (init, ops), i, expected, why in list(rules_spec_bad)[:5]:
        res.violation("rules builder: %s; init=%s ops=%s impl=%s expected=%s" % (why, rinit(init), renc(ops), i, expected),
                      {"rules_script": [None if init is None else [[C.hx(k), C.hx(v)] for k, v in init],
                                        [[o[0]] + [C.hx(a) for a in o[1:]] for o in ops]],
                       "script": "rules %s %s" % (rinit(init), renc(ops)), "impl": i, "expected": expected,
                       "theorem": "rules_no_lost_update / rules_data_is_history / rules_first_insertion_order"})
    for s, i, expected, why in spec_bad[:5]:
        res.violation("ordered collection: %s; ops=%s impl=%s expected=%s" % (why, enc(s), i, expected),
                      {"ops": [[o[0]] + [C.hx(a) for a in o[1:]] for o in s], "script": enc(s), "impl": i,
                       "expected": expected, "theorem": "no_lost_update / marshal_each_key_once / first_insertion_order"})
    explore_bad = sorted(explore_bad, key=lambda b: 0 if b[0].startswith("DATA RACE") else 1)
    seen_what = set()
    uniq = []
    for b in explore_bad:
        key = re.sub(r"\d+", "#", re.sub(r"\[[^\]]*\]", "[..]", b[0]))[:160]
        if key not in seen_what:
            seen_what.add(key)
            uniq.append(b)
    for what, rp, found in uniq[:8]:
        res.violation("runtime exploration: " + what, rp, found_input=found)
    if spec_bad or rules_spec_bad:
        return
    if not pr.proof_ok:
        diag = {}
        try:
            diag = diagnose_locks()
        except Exception as e:  # diagnosis is a convenience only
            diag = {"error": str(e)}
        res.violation("proof obligation no longer checks: %s; lock/operation facts that fail: %s" % (pr.proof_err, diag),
                      {"obligation": pr.proof_err, "theorems": pr.theorems, "diagnosis": diag}, found_input=False)
    if corr_bad:
        s, i, m = corr_bad[0]
        desc = enc(s) if isinstance(s, list) else repr(s)
        res.violation("model and implementation disagree on %s: impl=%s model=%s (%d disagreements); the implementation "
                      "satisfied the executable statement on every sequence tried" % (desc, i, m, len(corr_bad)),
                      {"correspondence": "omap/oset", "script": desc, "impl": i, "model": m}, found_input=False)
    if rules_corr_bad:
        (init, ops), i, m = rules_corr_bad[0]
        res.violation("correspondence: model/RulesBuilder.v and catalog.RulesBuilder/Rules disagree on `rules %s %s`: impl=%s "
                      "model=%s (%d disagreements); the implementation satisfied the executable statement on every "
                      "script tried" % (rinit(init), renc(ops), i, m, len(rules_corr_bad)),
                      {"correspondence": "rules",
                       "rules_script": [None if init is None else [[C.hx(k), C.hx(v)] for k, v in init],
                                        [[o[0]] + [C.hx(a) for a in o[1:]] for o in ops]],
                       "script": "rules %s %s" % (rinit(init), renc(ops)), "impl": i, "model": m}, found_input=False)
