"""C01 — Totality: any project is accepted or rejected, never a crash or a hang."""
import json
import os
import random
import subprocess
import time

from .. import common as C
from .. import proj as P
from .. import corecheck as K
from .. import scancheck as S

RUNTIME_FAULT_WORDS = ("runtime error", "nil pointer", "index out of range", "slice bounds", "invalid memory address",
                       "stack overflow", "Reading from empty stack", "Empty set of found lexemes", "Invalid error was given")


def hostile_projects(rng, files, quick):
    """multi-file and macro-graph projects built to hit the include / macro / context machinery"""
    out = []
    J = "JSIGHT 0.3\n"
    out += [
        [("a.jst", "")], [("a.jst", "\n")], [("a.jst", "\x00")], [("a.jst", "(")], [("a.jst", ")")],
        [("a.jst", J + "INCLUDE a.jst\n")],
        [("a.jst", J + "INCLUDE b.jst\n"), ("b.jst", "INCLUDE a.jst\n")],
        [("a.jst", J + "INCLUDE b.jst\n"), ("b.jst", "INCLUDE c.jst\n"), ("c.jst", "INCLUDE b.jst\n")],
        [("a.jst", J + "INCLUDE missing.jst\n")],
        [("a.jst", J + "INCLUDE d\n"), ("d/", "")],
        [("a.jst", J + "INCLUDE .\n")], [("a.jst", J + "INCLUDE ..\n")],
        [("a.jst", J + "INCLUDE e.jst\n"), ("e.jst", "")],
        [("a.jst", J + "INCLUDE e.jst x\n"), ("e.jst", "")],
        [("a.jst", J + "INCLUDE e.jst // n\n"), ("e.jst", "")],
        [("a.jst", J + "URL /a\n(\n INCLUDE e.jst\n)\n"), ("e.jst", "")],
        [("a.jst", J + "URL /a\n(\n INCLUDE e.jst\n)\n"), ("e.jst", "GET\n  200 any\n")],
        [("a.jst", J + "INCLUDE e.jst\n"), ("e.jst", "JSIGHT 0.3\n")],
        [("a.jst", J + "INCLUDE e.jst\nINCLUDE e.jst\n"), ("e.jst", "TYPE @a\n{}\n")],
        [("a.jst", J + "INCLUDE s/e.jst\n"), ("s/e.jst", "INCLUDE f.jst\n"), ("s/f.jst", "GET /x\n  200 any\n")],
        [("a.jst", J + "MACRO @a\n(\n PASTE @a\n)\nPASTE @a\n")],
        [("a.jst", J + "MACRO @a\n(\n PASTE @b\n)\nMACRO @b\n(\n PASTE @a\n)\nTAG @t\nPASTE @a\n")],
        [("a.jst", J + "MACRO @a\n(\n PASTE @b\n)\nMACRO @b\n(\n PASTE @c\n)\nMACRO @c\n(\n PASTE @a\n)\nTAG @t\nPASTE @c\n")],
        [("a.jst", J + "PASTE @nope\n")], [("a.jst", J + "PASTE\n")], [("a.jst", J + "MACRO\n")], [("a.jst", J + "MACRO @m\n")],
        [("a.jst", J + "TYPE @a regex")], [("a.jst", J + "TYPE @a regex\n")], [("a.jst", J + "ENUM\n[1]\n")],
        [("a.jst", J + "TYPE @a\n{\"x\": @a}\n")],
        [("a.jst", J + "TYPE @a\n{\"x\": @b}\nTYPE @b\n{\"y\": @a}\n")],
        [("a.jst", J + "TYPE @a\n@b\nTYPE @b\n@a\n")],
        [("a.jst", J + "ENUM @e\n[1,2]\nTYPE @a\n{\"x\": @b}\nTYPE @b\n{\"y\": 1}\n")],
        [("a.jst", J + "GET /a\n  200 @nope\n")],
        # the schema library's own runtime faults (recorded finding): an OR shortcut ending in '|' at the end of the input; a type
        # whose body is a comment only
        [("a.jst", J + "GET /{id}\n    Path\n      @a | ")], [("a.jst", J + "GET /x\n  200\n    @dog |")],
        [("a.jst", J + "TYPE @catId\n  /*123 /*\n        {min: 0}\n      */\n")],
        # undefined types (one inside an OR shortcut) in types that refer to one another: the library's position for the
        # second lies past the end of the file
        [("a.jst", J + 'TYPE @s\n{\n  "a": @nopeA, // {optional: true}\n  "l" : @l,\n  "b": @s | @nopeB\n}\n\nTYPE @l\n{\n  "s": @s // {optional: true}\n}\n')] ,
        [("a.jst", J + 'TYPE @l\n{\n  "s": @s // {optional: true}\n}\n\nTYPE @s\n{\n  "b": @s | @nopeB,\n  "l" : @l\n}\n')],
        [("a.jst", J + "GET /a /*/")], [("a.jst", J + "GET /a /*")],
        [("a.jst", J + "Description\n(see) hello\nGET /x\n  200 any\n")],
        [("a.jst", J + "URL /a/{x}\n  Path\n  {\"x\": 1}\n  Path\n  {\"x\": 2}\n")],
    ]
    # the library picks one of several undefined types at random: repeat those documents so that every choice is seen
    out += [pj for pj in out if any(b"nopeB" in (c.encode() if isinstance(c, str) else c) for _, c in pj)] * 11
    # macro chains: linear depth and doubling
    for depth in ([8] if quick else [8, 14]):
        body = J + "MACRO @m0\n(\n  Description\n  x\n)\n"
        for i in range(1, depth + 1):
            body += "MACRO @m%d\n(\n  PASTE @m%d\n  PASTE @m%d\n)\n" % (i, i - 1, i - 1)
        body += "GET /a\n  PASTE @m%d\n  200 any\n" % depth
        out.append([("a.jst", body)])
    # deep nesting of explicit contexts / long inputs
    n = 300 if quick else 3000
    out.append([("a.jst", J + "URL /a\n" + "(\n" * n)])
    out.append([("a.jst", J + "(" * n)])
    out.append([("a.jst", J + "URL /a\n(\n" + ")\n" * n)])
    out.append([("a.jst", J + "GET /" + "a" * (n * 30) + "\n  200 any\n")])
    out.append([("a.jst", J + "".join("TYPE @t%d\n{\"x\": @t%d}\n" % (i, i + 1) for i in range(n // 3)) + "TYPE @t%d\n1\n" % (n // 3))])
    # include chain of growing depth
    depth = 20 if quick else 200
    chain = [("f0.jst", J + "INCLUDE f1.jst\n")]
    for i in range(1, depth):
        chain.append(("f%d.jst" % i, "INCLUDE f%d.jst\n" % (i + 1)))
    chain.append(("f%d.jst" % depth, "GET /x\n  200 any\n"))
    out.append(chain)
    # fixtures with rewritten newlines, truncated, doubled
    for f in rng.sample(files, 40 if quick else 400):
        d = open(f, "rb").read()
        out.append([("a.jst", d.replace(b"\n", b"\r\n"))])
        out.append([("a.jst", d.replace(b"\n", b"\r"))])
        out.append([("a.jst", d[: len(d) // 2])])
        out.append([("a.jst", d + d)])
    return out


def slot_matrix():
    """every schema slot x every kind of referenced user type (incl. undefined, regex, any, empty, enum-as-type, recursive)"""
    J = "JSIGHT 0.3\n"
    types = {
        "obj": 'TYPE @t\n  {"id": 1}\n', "scalar": "TYPE @t\n  12\n", "array": "TYPE @t\n  [1]\n", "regex": "TYPE @t regex\n  /ab+/\n",
        "any": "TYPE @t any\n", "empty": "TYPE @t empty\n", "undefined": "", "enum": "ENUM @t\n  [1]\n",
        "rec": 'TYPE @t\n  {"id": @t}\n', "ref": 'TYPE @t\n  @u\nTYPE @u\n  {"id": 1}\n', "refregex": "TYPE @t\n  @u\nTYPE @u regex\n  /a/\n",
        "or": 'TYPE @t\n  @u | @v\nTYPE @u\n  {"id": 1}\nTYPE @v\n  {"id": 2}\n', "allof": 'TYPE @t\n  { // {allOf: "@u"}\n  }\nTYPE @u\n  {"id": 1}\n',
        "allofregex": 'TYPE @t\n  { // {allOf: "@u"}\n  }\nTYPE @u regex\n  /a/\n', "nullable": 'TYPE @t\n  {"id": 1} // {nullable: true}\n',
    }
    refs = ["@t", "[@t]", "@t | @t", '{ // {allOf: "@t"}\n      "k": 1\n    }', '{"id": @t}', '{"id": 1 // {type: "@t"}\n    }', '{"id": 1 // {enum: @t}\n    }',
            '{"id": 1 // {or: ["@t", "integer"]}\n    }', '{"@t": 1}', "@t // {optional: true}"]
    slots = [
        "URL /x/{id}\n  Path\n    %s\n  GET\n    200 any\n", "GET /x/{id}\n  Path\n    %s\n  200 any\n", "GET /x\n  Query\n    %s\n  200 any\n",
        "GET /x\n  Query q=1 htmlFormEncoded\n    %s\n  200 any\n", "POST /x\n  Request\n    %s\n  200 any\n", "POST /x\n  Request\n    Body\n      %s\n  200 any\n",
        "POST /x\n  Request\n    Headers\n      %s\n    Body any\n  200 any\n", "GET /x\n  200\n    %s\n", "GET /x\n  200\n    Body\n      %s\n",
        "GET /x\n  200\n    Headers\n      %s\n    Body any\n", "URL /r\n  Protocol json-rpc-2.0\n  Method m\n    Params\n      %s\n",
        "URL /r\n  Protocol json-rpc-2.0\n  Method m\n    Result\n      %s\n", "TYPE @w\n    %s\nGET /x\n  200 @w\n", "SERVER @s\n  BaseUrl \"https://{id}.x\"\n    %s\n",
    ]
    out = []
    for tk, tdecl in types.items():
        for r in refs:
            for sl in slots:
                for first in (True, False):
                    body = sl % r
                    out.append([("a.jst", J + (tdecl + body if first else body + tdecl))])
    # single-parameter spellings of the same
    for tk, tdecl in types.items():
        for p in ("@t", "[@t]"):
            for sl in ("GET /x\n  200 %s\n", "POST /x\n  Request %s\n  200 any\n", "GET /x\n  200\n    Body %s\n", "GET /x\n  Query %s\n  200 any\n",
                       "GET /x\n  200\n    Headers %s\n    Body any\n", "URL /r\n  Protocol json-rpc-2.0\n  Method m\n    Params %s\n"):
                out.append([("a.jst", J + tdecl + sl % p)])
    return out


def type_chain_projects(rng, quick):
    """chains @t0 -> @t1 -> ... -> @tn with a semantic error deep inside the last one; intermediate types short, at the end
    of the file, or alone in a short included file (a diagnostic position computed against the wrong body falls outside it)"""
    J = "JSIGHT 0.3\n"
    out = []
    errs = ['"bad": 1 // {type: "string"}', '"bad": "x" // {min: 1}', '"bad": @nope', '"bad": 1 // {enum: @nope}', '"bad": 1, "bad": 2', '"bad": [1] // {minItems: "x"}',
            '"bad": 1 // {or: ["@nope", "integer"]}', '"bad": 1.5 // {precision: 0}', '"bad": 1 // {min: 5}']
    for n in ([2, 3, 4] if quick else [2, 3, 4, 6]):
        for e in errs:
            for layout in ("onefile", "include-mid", "reverse", "cycle-first", "cycle-last"):
                pad = "".join('    "p%d": "some longer filler value %d",\n' % (i, i) for i in range(rng.randint(5, 40)))
                last = "TYPE @t%d\n  {\n%s    %s\n  }\n" % (n, pad, e)
                mids = ["TYPE @t%d\n  @t%d\n" % (i, i + 1) if i % 2 else 'TYPE @t%d\n  {"x": @t%d}\n' % (i, i + 1) for i in range(n)]
                use = "GET /x\n  200 @t0\n"
                if layout.startswith("cycle"):
                    # the chain is closed: the last type refers back to the first; the faulty type is declared first / last
                    last_c = "TYPE @t%d\n  {\n%s    \"back\": @t0, // {optional: true}\n    %s\n  }\n" % (n, pad, e)
                    out.append([("a.jst", J + use + (last_c + "".join(mids) if layout == "cycle-first" else "".join(mids) + last_c))])
                elif layout == "onefile":
                    out.append([("a.jst", J + use + mids[0] + last + "".join(mids[1:]))])
                elif layout == "reverse":
                    out.append([("a.jst", J + last + "".join(reversed(mids)) + use)])
                else:
                    files = [("a.jst", J + use + mids[0] + last + "".join("INCLUDE m%d.jst\n" % i for i in range(1, n)))]
                    files += [("m%d.jst" % i, mids[i]) for i in range(1, n)]
                    out.append(files)
    return out


def long_line_faults(rng, quick):
    """a diagnostic at every region of a long line (the quote of a line longer than 200 bytes is cut: jerr/utils.go), the
    line being the last of its file, followed by a line end, or by more text; in the root file and in an included one"""
    J = "JSIGHT 0.3\n"
    out = []
    for total in ([120, 196, 199, 200, 201, 204, 260, 420] if quick else [120, 190, 196, 197, 198, 199, 200, 201, 202, 204, 230, 260, 420, 900, 5000]):
        for where in (0.0, 0.5, 0.9, 1.0):
            props = []
            while len(",".join(props)) < total:
                props.append('"p%d":%d' % (len(props), rng.randint(0, 99)))
            k = min(len(props) - 1, int(where * len(props)))
            for bad in ('"bad":}', '"p0":1', '"b":@nope', '"b":1 x'):
                pp = props[:k] + [bad] + props[k:]
                body = "{" + ",".join(pp) + "}"
                for tail in ("", "\n", "\n\nGET /y\n  200 any\n"):
                    out.append([("a.jst", J + "GET /x\n  200 @t\nTYPE @t\n  " + body + tail)])
                out.append([("a.jst", J + "GET /x\n  200 @t\nINCLUDE t.jst\n"), ("t.jst", "TYPE @t\n  " + body)])
            # a fault in the parameters of a long directive line
            path = "/x" + "a" * max(1, total - 10)
            for tail in ("", "\n"):
                out.append([("a.jst", J + "GET " + path + " extra" + tail)])
                out.append([("a.jst", J + "GET /x\n  200 any // " + "n" * total + tail.replace("\n", "\n  Bogus\n"))])
    return out


def hostile_paths(quick):
    """every path over the characters the path and tag-name code looks at ('/', '.', '{', '}', '_', '%', a letter, a blank in
    quotes), as the path of a method, of a URL block and of a JSON-RPC URL, with and without a Tags directive"""
    import itertools
    J = "JSIGHT 0.3\n"
    out = []
    alpha = ["/", ".", "a", "{", "}", "_", "%"]
    paths = set()
    for n in range(0, 4 if quick else 5):
        for t in itertools.product(alpha, repeat=n):
            paths.add("/" + "".join(t))
    paths |= {"/./.", "/././.", "/../..", "/a/./b", "/.a", "/a.", "/..a", "/%2e", "/%2F", "/{a}/.", "/./{a}", "/_/._", "//", "///", "/ /", "/a b"}
    for pth in sorted(paths):
        q = '"%s"' % pth if " " in pth else pth
        out.append([("a.jst", J + "GET %s\n  200 any\n" % q)])
        if len(pth) <= 3 or not quick:
            out.append([("a.jst", J + "URL %s\n  GET\n    200 any\n" % q)])
            out.append([("a.jst", J + "TAG @t\nGET %s\n  Tags @t\n  200 any\n" % q)])
            out.append([("a.jst", J + "URL %s\n  Protocol json-rpc-2.0\n  Method m\n    Params\n      {}\n" % q)])
    return out


LIB_FAULT_ID = "C01/schema-library-runtime-fault-text"


def library_alone_gives(pj, msg):
    """True when some schema body of the project, handed to the schema library with no repository code in between, produces
    the same Go runtime fault text"""
    bodies = set()
    for n, c in pj:
        data = c.encode("latin1") if isinstance(c, str) else c
        lx = C.run_lines("harness", "fn", ["lex " + C.hx(data)])[0]
        for item in lx.split("|")[0].split(","):
            if item and item.split(":")[0] in ("3", "4"):
                _, b, e = item.split(":")
                bodies.add(data[int(b):int(e) + 1])
                bodies.add(data[int(b):])
    if not bodies:
        return False
    outs = C.run_lines("harness", "fn", ["libalone " + C.hx(b) for b in sorted(bodies)])
    return any(C.unhx(o).decode("latin1") in msg and "runtime error" in C.unhx(o).decode("latin1") for o in outs if o and o != "-")


def classify(out):
    st, d = P.parse(out)
    msg = C.unhx(d.get("msg", "-")).decode("latin1") if "msg" in d else ""
    return st, msg, d


def run_isolated(line, timeout):
    """one project in its own process: a fatal error (stack overflow) or a hang is observable"""
    args = line.split(" ")[1:]
    t0 = time.time()
    try:
        p = subprocess.run([os.path.join(C.TOOLS, "harness"), "run1"] + args, stdout=subprocess.PIPE, stderr=subprocess.PIPE,
                           text=True, timeout=timeout)
    except subprocess.TimeoutExpired:
        return "timeout", time.time() - t0
    if p.returncode != 0:
        return "crash " + C.hx((p.stderr or "")[:300]), time.time() - t0
    return p.stdout.strip().split("\n")[-1], time.time() - t0


def run(res, tier, seed, replay):
    pr = C.prepare("C01", res, need_gens=("scanner", "typing", "tables"))
    rng = random.Random(seed)
    quick = tier == "quick"
    res.coverage["rule"] = ("root files: token sequences over the scanner alphabet, mutated fixtures, every fixture; hostile "
                            "multi-file projects (empty/missing/directory/self-/mutually-including files, includes inside "
                            "parentheses, macro graphs with cycles and doubling chains, deep nesting, CR/CRLF rewrites, truncations); "
                            "every project runs NewJapi+ValidateJAPI+ToJson+ToJsonIndent+Title; non-trivial = rejected past byte 0 "
                            "or accepted with a non-empty catalog; distinct by project hash")
    if not pr.harness_ok:
        res.violation("build failed: " + pr.harness_err[-800:], {"obligation": "build of harness"}, found_input=False)
        return
    files = S.fixture_files()
    if replay:
        r = json.load(open(replay))
        projects = [[(C.unhx(n).decode("latin1"), C.unhx(c)) for n, c in r["project"]]]
    else:
        projects = hostile_projects(rng, files, quick)
        for d in S.gen_tok(rng, 2, 1500 if quick else 20000):
            projects.append([("a.jst", d)])
            if rng.random() < 0.3:
                projects.append([("a.jst", b"JSIGHT 0.3\n" + d)])
        for d in S.gen_mut(rng, files, 1500 if quick else 30000):
            projects.append([("a.jst", d)])
        for f in (rng.sample(files, 300) if quick else files):
            projects.append([("a.jst", open(f, "rb").read())])
        sm = slot_matrix()
        projects += sm
        projects += type_chain_projects(rng, quick)
        projects += long_line_faults(rng, quick)
        projects += hostile_paths(quick)
        for body_ in ("PASTE @missing", "404 any\n  PASTE @missing", "PASTE @b", "URL /u\n    PASTE @missing"):
            for use_ in ("GET /c\n  PASTE @a\n  200 any\n", "GET /c\n  200 any\n"):
                for order_ in (0, 1):
                    mac_ = "MACRO @a\n(\n  %s\n)\nMACRO @b\n(\n  PASTE @nowhere\n)\n" % body_
                    projects.append([("a.jst", "JSIGHT 0.3\n" + (mac_ + use_ if order_ else use_ + mac_))])
        # description lines that are one or two digits; an annotation that is cut short by a comment at once
        for ln_ in ("5", "42", "1", "59", "5\n", "4\n2", "200", "20", "2x"):
            for tail_ in ("", "\n", "\nGET /b\n  200 any\n"):
                projects.append([("a.jst", "JSIGHT 0.3\nGET /a\n  Description\n    first line\n" + ln_ + tail_)])
                projects.append([("a.jst", "JSIGHT 0.3\nINFO\n  Title \"t\"\n  Description\n    first line\n    " + ln_ + tail_)])
        for ann_ in ("//#", "//# TODO", "// #", "//#\n", "/*#*/", "// a#", "//", "/**/", "/* */", "//\t#x"):
            for head_ in ("GET /x ", "GET /x\n  200 any ", "SERVER @s ", "TYPE @t ", "TAG @g "):
                projects.append([("a.jst", "JSIGHT 0.3\n" + head_ + ann_ + "\n")])
        projects.append([("a.jst", "JSIGHT 0.3\nURL /a\n(\n  INCLUDE empty.jst\n)\n"), ("empty.jst", "")])
        projects.append([("a.jst", "JSIGHT 0.3\nINCLUDE empty.jst\nGET /a\n  200 any\n"), ("empty.jst", "")])
        from . import c07 as M7
        for items, n, what in M7.cycle_documents(rng, quick):
            projects.append([("a.jst", M7.render(items)[0])])
    lines = [P.run_line("out=sha", pj) for pj in projects]
    # batches in separate processes; a batch that dies or overruns is re-run project by project
    outs = [None] * len(lines)
    B = 200
    batches = [(i, lines[i:i + B]) for i in range(0, len(lines), B)]
    import concurrent.futures as cf

    def do_batch(arg):
        i0, ls = arg
        try:
            p = subprocess.run([os.path.join(C.TOOLS, "harness"), "fn"], input="\n".join(ls) + "\n", stdout=subprocess.PIPE,
                               stderr=subprocess.PIPE, text=True, timeout=120 if quick else 600)
            o = p.stdout.split("\n")
            if p.returncode == 0 and len(o) >= len(ls):
                return i0, o[:len(ls)], None
        except subprocess.TimeoutExpired:
            pass
        return i0, None, ls

    slow = []
    with cf.ThreadPoolExecutor(max_workers=16) as ex:
        for i0, o, failed in ex.map(do_batch, batches):
            if o is not None:
                outs[i0:i0 + len(o)] = o
            else:
                for j, l in enumerate(failed):
                    r, dt = run_isolated(l, 20 if quick else 60)
                    outs[i0 + j] = r
                    if dt > 5:
                        slow.append((i0 + j, dt))
    res.count(len(lines))
    dist = {}
    lib_faults = []
    known_ids0 = {f["id"] for f in C.load_known()["findings"] if f["property"] == "C01"}
    for pj, o in zip(projects, outs):
        st, msg, d = classify(o)
        dist[st] = dist.get(st, 0) + 1
        if (st == "err" and d.get("idx") not in ("0", None)) or st == "ok":
            res.nontrivial(tuple(pj))
        bad = None
        if st in ("panic", "crash", "timeout", "harness-error", "jsonerr") or st.startswith("crash"):
            bad = "outcome %s %s" % (st, msg[:200] or C.unhx(o.split(" ")[1] if " " in o else "-")[:200])
        elif st in ("err", "loaderr") and any(w in msg for w in RUNTIME_FAULT_WORDS):
            bad = "a Go runtime fault is reported as a diagnostic: %s" % msg[:200]
            # is it the schema library's own fault?  every schema body of the project is handed to the library ALONE
            if LIB_FAULT_ID in known_ids0 and library_alone_gives(pj, msg):
                lib_faults.append((pj, msg))
                bad = None
        elif st == "ok" and d.get("sha") and d.get("shaindent") is None:
            bad = "accepted but serialisation incomplete"
        if bad:
            res.violation("totality fails: %s" % bad,
                          {"project": [(C.hx(n), C.hx(c)) for n, c in pj], "outcome": o[:400]})
    if lib_faults:
        pj, msg = min(lib_faults, key=lambda x: sum(len(c) for _, c in x[0]))
        c0 = pj[0][1]
        res.known.append("id=%s projects=%d the schema library alone reports %r for a body of the project, and the text reaches the diagnostic; smallest: %r" % (
            LIB_FAULT_ID, len(lib_faults), msg[:80], (c0 if isinstance(c0, str) else c0.decode("latin1"))[:160]))
    # "promptly": the doubling macro chain is exponential (recorded finding); anything else that is slow is new
    known_ids = {f["id"] for f in C.load_known()["findings"] if f["property"] == "C01"}
    if not replay:
        depth = 20 if quick else 23
        body = "JSIGHT 0.3\nMACRO @m0\n(\n  Description\n  x\n)\n"
        for i in range(1, depth + 1):
            body += "MACRO @m%d\n(\n  PASTE @m%d\n  PASTE @m%d\n)\n" % (i, i - 1, i - 1)
        body += "GET /a\n  PASTE @m%d\n  200 any\n" % depth
        r, dt = run_isolated(P.run_line("out=sha", [("a.jst", body)]), 120)
        res.count(1)
        per_byte_budget = 0.5 + len(body) / 20000.0
        if r == "timeout" or r.startswith("crash") or dt > per_byte_budget:
            msg = "class=doubling-macro-chain depth=%d bytes=%d wall=%.2fs outcome=%s" % (depth, len(body), dt, r[:40])
            if "C01/macro-doubling-exponential" in known_ids and not r.startswith("crash"):
                res.known.append("id=C01/macro-doubling-exponential " + msg)
            else:
                res.violation("not prompt: " + msg, {"project": [(C.hx("a.jst"), C.hx(body))], "outcome": r[:200], "wall_s": dt})
        res.notes["doubling_chain"] = {"depth": depth, "bytes": len(body), "wall_s": round(dt, 2)}
    if not replay:
        # the same for TYPES: two types per layer, each referring to both types of the next layer (the example of the first
        # type, and the time to build it, doubles with every layer - recorded finding); linear chains of the same size are prompt
        L = 17 if quick else 19
        tb = "JSIGHT 0.3\nGET /a\n  200 @t0a\n"
        for i in range(L):
            for x in "ab":
                tb += ("TYPE @t%d%s\n  \"leaf\"\n" % (i, x)) if i == L - 1 else ("TYPE @t%d%s\n  {\n    \"p\": @t%da,\n    \"q\": @t%db\n  }\n" % (i, x, i + 1, i + 1))
        r2, dt2 = run_isolated(P.run_line("out=sha", [("a.jst", tb)]), 120)
        lin = "JSIGHT 0.3\nGET /a\n  200 @t0\n" + "".join("TYPE @t%d\n  {\n    \"p\": @t%d,\n    \"q\": 1\n  }\n" % (i, i + 1) for i in range(2 * L)) + "TYPE @t%d\n  \"leaf\"\n" % (2 * L)
        r3, dt3 = run_isolated(P.run_line("out=sha", [("a.jst", lin)]), 60)
        res.count(2)
        if r3 == "timeout" or r3.startswith("crash") or dt3 > 2.0:
            res.violation("not prompt: a linear chain of %d types took %.2fs (%s)" % (2 * L, dt3, r3[:40]), {"project": [(C.hx("a.jst"), C.hx(lin))], "wall_s": dt3})
        if r2 == "timeout" or r2.startswith("crash") or dt2 > 0.5 + len(tb) / 20000.0:
            msg = "class=doubling-type-graph layers=%d bytes=%d wall=%.2fs outcome=%s" % (L, len(tb), dt2, r2[:40])
            if "C01/type-doubling-exponential" in known_ids and not r2.startswith("crash"):
                res.known.append("id=C01/type-doubling-exponential " + msg)
            else:
                res.violation("not prompt: " + msg, {"project": [(C.hx("a.jst"), C.hx(tb))], "outcome": r2[:200], "wall_s": dt2})
        res.notes["doubling_type_graph"] = {"layers": L, "bytes": len(tb), "wall_s": round(dt2, 2), "linear_chain_wall_s": round(dt3, 2)}
    for idx, dt in slow:
        res.violation("not prompt: project %d took %.1fs in isolation" % (idx, dt),
                      {"project": [(C.hx(n), C.hx(c)) for n, c in projects[idx]], "wall_s": dt})
    res.notes["input_distribution"] = {"projects": len(projects), "outcomes": dist, "slow_isolated": slow[:10]}
    for pj, o in list(zip(projects, outs))[3:6]:
        n, c = pj[0]
        res.sample({"root": (c if isinstance(c, str) else c.decode("latin1"))[:80], "files": len(pj), "outcome": o[:120]})
    if res.violations:
        return
    if not pr.proof_ok:
        res.violation("proof obligation no longer checks: %s" % pr.proof_err,
                      {"obligation": pr.proof_err, "theorems": pr.theorems}, found_input=False)
