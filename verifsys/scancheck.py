"""Scanner-level generators, correspondence run and the executable statements of the
lexical properties evaluated on the IMPLEMENTATION's lexeme stream."""
import glob
import os
import random
import re

from . import common as C

KEYWORDS = ["JSIGHT", "INFO", "Title", "Version", "Description", "SERVER", "BaseUrl", "URL", "GET", "POST", "PUT",
            "PATCH", "DELETE", "Body", "Request", "Path", "Headers", "Query", "TYPE", "ENUM", "MACRO", "PASTE",
            "INCLUDE", "Protocol", "Method", "Params", "Result", "TAG", "Tags"]
RESPONSES = ["200", "404", "100", "599"]
DELIMS = ["(", ")", "//", "/*", "*/", "#", "##", "###", '"', "\\", "/", "@", "{", "[", "]", "}", "|"]
PARAMS = ["/a", "/a/{id}", "@t", '"q r"', '"a\\"b"', "0.3", "any", "empty", "regex", "jsight", "[@t]", "json-rpc-2.0",
          "htmlFormEncoded", "f.jst"]
BODIES = ["{}", '{"a":1}', "[1,2]", "/ab+/", "42", '"s"', "@t", "@a | @b", '{\n "a": 1 // {min: 0}\n}']
MISC = ["x", "é".encode().decode("latin1"), "\x00", "\xff", "hello world", "1", "99"]
SEPS = ["", " ", "\n", "\r\n", "\r", "\t", "  \n  ", " // n\n", " # c\n"]

LEXKINDS = {0: "Keyword", 1: "Parameter", 2: "Annotation", 3: "Schema", 4: "Json", 5: "Text", 6: "Open", 7: "Close", 8: "Enum"}


def tokens():
    return KEYWORDS + RESPONSES + DELIMS + PARAMS + BODIES + MISC


def fixture_files():
    return sorted(f for f in glob.glob(os.path.join(C.REPO, "testdata", "**", "*.jst"), recursive=True) if os.path.isfile(f))


def gen_tok(rng, k, limit):
    """token sequences of length <= k joined by separators; exhaustive for k=1, sampled beyond `limit`"""
    toks = tokens()
    out = []
    for t in toks:
        for s in SEPS:
            out.append((t + s).encode("latin1"))
            out.append((s + t).encode("latin1"))
    if k >= 2:
        pairs = [(a, b, s) for a in toks for b in toks for s in (" ", "\n", "")]
        if len(pairs) > limit:
            pairs = rng.sample(pairs, limit)
        for a, b, s in pairs:
            out.append((a + s + b + "\n").encode("latin1"))
    if k >= 3:
        for _ in range(limit):
            n = rng.randint(3, 6)
            parts = []
            for _ in range(n):
                parts.append(rng.choice(toks))
                parts.append(rng.choice(SEPS))
            out.append("".join(parts).encode("latin1"))
    return out


BODY_CONTEXTS = ["TYPE @t\n", "TYPE @t regex\n", "GET /a\n200 regex\n", "GET /a\n200\n", "GET /a\n  200\n    Body\n", "GET /a\n  200\n    Body regex\n",
                 "ENUM @e\n", "GET /a\nQuery q\n", "URL /a/{id}\nPath\n", "POST /a\nRequest\n", "POST /a\nRequest regex\n", "GET /a\n200\nHeaders\n",
                 "URL /r\nProtocol json-rpc-2.0\nMethod m\nParams\n", "URL /r\nProtocol json-rpc-2.0\nMethod m\nResult\n", "GET /a\nDescription\n",
                 "GET /a\nDescription\n(\n", "GET /a // ", "GET /a /* ", 'GET "']
BODY_EXTRA = ["/[^/]+/", "/a[/]b/", "/[abc", "/x[/ y ]/ z/", "/[" + chr(92) + "]/]/",   # a '/' inside a character class ends the expression all the same
              "/ab" + chr(92), "/a" + chr(92) * 2 + "/b/", "/^C:" + chr(92) * 2 + "/", "/a" + chr(92) * 4 + "/", "/a" + chr(92) + "/b/", "/a" + chr(92), "/", "//", "/a/ x",
              '{"a": "' + chr(92) * 2 + '"}', '{"a": "x' + chr(92), "[1, 2", '"a' + chr(92) * 2 + '"', "text" + chr(92), "(a)", "a)", "*/", "x */ y", 'q" r']


def gen_directed():
    """every body-reading state is entered and then fed every prefix of every body token (ends of file in mid-body)"""
    out = []
    for ctx in BODY_CONTEXTS:
        for b in BODIES + BODY_EXTRA:
            for k in range(len(b) + 1):
                out.append((ctx + b[:k]).encode("latin1"))
            out.append((ctx + b + "\n").encode("latin1"))
            out.append((ctx + b + "\nGET /b\n").encode("latin1"))
    return out


def gen_prefixes(rng, files, nfiles, step=1):
    out = []
    for f in rng.sample(files, min(nfiles, len(files))):
        d = open(f, "rb").read()
        for i in range(0, len(d) + 1, step):
            out.append(d[:i])
    return out


def gen_mut(rng, files, n):
    out = []
    alphabet = [t.encode("latin1") for t in tokens()] + [b"\n", b" ", b"\r\n"]
    for _ in range(n):
        d = bytearray(open(rng.choice(files), "rb").read())
        if not d:
            continue
        for _ in range(rng.randint(1, 3)):
            op = rng.randint(0, 4)
            i = rng.randrange(len(d) + 1)
            if op == 0 and len(d) > 0:
                j = min(len(d), i + rng.randint(1, 8))
                del d[i:j]
            elif op == 1:
                d[i:i] = rng.choice(alphabet)
            elif op == 2 and len(d) > 1:
                j = rng.randrange(len(d))
                i2 = min(i, len(d) - 1)
                d[i2], d[j] = d[j], d[i2]
            elif op == 3:
                d = d[:i]
            else:
                j = min(len(d), i + rng.randint(1, 20))
                d[i:i] = d[i:j]
        out.append(bytes(d))
    return out


def parse_stream(s):
    """'k:b:e,...|end' -> ([(k,b,e)], end)"""
    body, _, end = s.rpartition("|")
    lex = []
    if body:
        for t in body.split(","):
            k, b, e = t.split(":")
            lex.append((int(k), int(b), int(e)))
    return lex, end


TRIVIA_RE = re.compile(rb"(?:[ \t\r\n]|###(?:(?!###).)*###|#[^\r\n]*|//|/\*|\*/)*\Z", re.S)
KEYWORD_RE = re.compile(rb"(?:" + b"|".join(k.encode() for k in KEYWORDS) + rb"|[1-5][0-9][0-9])\Z")


def spec_lexemes(data, lex, end):
    """the clauses of C14 on one implementation stream; returns a list of failure strings"""
    bad = []
    n = len(data)
    if end == "panic":
        bad.append("scanner panicked")
    prev_end = -1
    prev_begin = -1
    for (k, b, e) in lex:
        if not (b <= e + 1 <= n):
            bad.append("lexeme %s [%d:%d] outside the input (len %d)" % (LEXKINDS.get(k, k), b, e, n))
            continue
        if b <= prev_end:
            bad.append("lexeme %s [%d:%d] overlaps / precedes the previous one ending at %d" % (LEXKINDS.get(k, k), b, e, prev_end))
        if b < prev_begin:
            bad.append("lexeme positions decrease")
        prev_end, prev_begin = max(prev_end, e), b
        if k == 0 and not KEYWORD_RE.match(data[b:e + 1]):
            bad.append("keyword lexeme %r spells no directive" % data[b:e + 1])
    if end == "eof" and not bad:
        # bytes that belong to no lexeme must be trivia
        pos = 0
        for (k, b, e) in lex + [(-1, n, n - 1)]:
            gap = data[pos:b]
            if gap and not TRIVIA_RE.match(gap):
                bad.append("non-trivia bytes %r at %d belong to no lexeme" % (gap[:40], pos))
                break
            pos = max(pos, e + 1)
    if end.startswith("err:"):
        p = int(end[4:])
        if p > n:
            bad.append("error position %d past the end of the input (len %d)" % (p, n))
    return bad


def run_corr(inputs):
    lines = ["lex " + C.hx(d) for d in inputs]
    impl = C.run_sharded("harness", "fn", lines)
    model = C.run_sharded("modelrun", None, lines)
    return impl, model


def body_lengths_ok(data, lex):
    """a Schema/Enum lexeme is exactly one value as delimited by the schema library"""
    q = []
    idx = []
    prev = None
    for (k, b, e) in lex:
        if k in (3, 8) and b <= e + 1 <= len(data):
            q.append(("schema " if k == 3 else "enum ") + C.hx(data[b:]))
            idx.append((k, b, e))
        elif k == 5 and prev is not None and prev[0] == 1 and data[prev[1]:prev[2] + 1].strip(b'"') == b"regex" and data[b:b + 1] == b"/" \
                and b <= e + 1 <= len(data):
            # the body of a directive whose last parameter is the notation regex: one regular expression as the library delimits it
            q.append("regex " + C.hx(data[b:]))
            idx.append((k, b, e))
        prev = (k, b, e)
    return q, idx
