#!/usr/bin/env python3
"""Writes /verif/MANIFEST.json from the table below (kept in one place so that it is
always valid against /root/.vp/MANIFEST.schema.json)."""
import json
import os

HERE = os.path.dirname(os.path.abspath(__file__))

CLAIMED = {
    "C08": {
        "technique": "Coq proof over the include-name validator regenerated from core/include.go by go2coq (include_name_safe, join_confined) + exhaustive model/implementation correspondence of the validator and of the filepath model",
        "text": "Theorems for all byte strings on the validator as translated from the current source, plus a proved model of filepath.Join/Dir; the tie to the code is the translator (re-run on every check) and an exhaustive differential run over short names.",
        "note": "Trusted: Coq kernel, go2coq, extraction + OCaml driver, hand model of filepath.Clean/Join/Dir (validated against the real functions every run). OS path semantics (symlinks) are outside the model.",
        "design_ref": "7 (C08)",
    },
}

CLAIMED["C19"] = {
    "technique": "Coq proof of injectivity (by a decoder) of the automatic tag-name function regenerated from catalog/tag_name.go, proof of the first-segment rule on a hand model of pathTagTitle, exhaustive model/implementation correspondence",
    "text": "tagName is translated from the current source on every run and proved injective on all titles '/'+segment; pathTagTitle is a hand model compared exhaustively with the implementation over short paths and all single bytes.",
    "note": "Trusted: Coq kernel, go2coq, extraction + OCaml driver, model of url.PathEscape (validated against the real function every run). Document-level tag assignment is decided by the core-model correspondence (see DESIGN 7, C19).",
    "design_ref": "7 (C19)",
}

CLAIMED["C17"] = {
    "technique": "Coq proofs about a hand model of unescapeParameter / AppendParameter and of the scanner's quoted-parameter states (unescape_quote for all byte strings, accepted_iff_quote, rejection positions), tied to the code by exhaustive extracted-model vs implementation correspondence and by the regenerated scanner table",
    "text": "Round-trip of quoted parameters is proved for every byte string on the model; the model is compared with directive.unescapeParameter, AppendParameter and the real scanner on all strings over a 12-byte alphabet up to the length bound.",
    "note": "Trusted: Coq kernel, extraction + OCaml driver, harness. Hand model (coq/model/Params.v) is tied by correspondence only.",
    "design_ref": "7 (C17)",
}
CLAIMED["C02"] = {
    "technique": "Coq proofs about a hand model of the jerr location arithmetic (totality on index <= len, line/line-beginning/line-end/quote specifications, no unsigned wrap), exhaustive extracted-model vs implementation correspondence; on the core model: every scan-stage diagnostic names an opened project file and an index inside it, every include-trace entry names a project file and an offset where INCLUDE really stands, the trace is exactly the scanner-stack chain when no file has two INCLUDEs (refuted otherwise: the recorded finding); project stage with computed expectations (include chains, type chains, path-property faults)",
    "text": "25 theorems. For every content and every index within the file the model never panics and line/quote agree with the index; 10 theorems on diagnostics and include traces of the core model; model and jerr.NewLocation are compared on all contents over {a,space,tab,CR,LF} up to the bound at every index.",
    "note": "Trusted: Coq kernel, extraction + OCaml driver, harness. Known finding: stale include-tracer cache (trace line of the first INCLUDE of the same includer).",
    "design_ref": "7 (C02)",
}
CLAIMED["C13"] = {
    "technique": "Coq proofs about a hand model of pathParameters / PathParameters / checkSimilarPaths (totality, specification, distinct prefixes, exact rejection conditions, order independence), exhaustive extracted-model vs implementation correspondence",
    "text": "String-level path-parameter extraction and the similar-path check are proved against independent specifications for all byte strings and all path lists; compared with core.PathParameters over {/,{,},a,b} up to the bound.",
    "note": "Trusted: Coq kernel, extraction + OCaml driver, harness. Binding of properties to interactions is decided by the core-model correspondence (DESIGN 7, C13).",
    "design_ref": "7 (C13)",
}

CLAIMED["C16"] = {
    "technique": "Coq proofs about an ordered-map model for all operation sequences (om_invariant, no_lost_update, marshal_each_key_once, first_insertion_order; each_stops_at_first_error, find_first_match, rules_each_stops_at_first_error for Each/EachReverse/Find with a failing callback in every state) + lock-discipline obligation locks_ok discharged by computation on the collection method bodies regenerated from catalog/*_gen.go and directive/directives_gen.go; race-detector stress runs are labelled exploration in the evidence",
    "text": "Partial by nature: every method is proved atomic-under-lock (regenerated lock facts) and the sequential semantics is proved for all operation sequences, i.e. all linearisations; data races, the Go memory model and the schema library are explored with -race stress runs, not proved.",
    "note": "Trusted: Coq kernel, go2coq (method-body normal forms), extraction, harness. Not modelled: sync.RWMutex, Go memory model, schema library internals. Known finding: concurrent parses corrupt schema example strings (pooled buffer in the schema library).",
    "design_ref": "7 (C16)",
}

CLAIMED["C15"] = {
    "technique": "Coq proofs about a hand model of core.description and catalog.Annotation (no CR, trimmed, exact fixed-point characterisation desc_fixed_iff, bare = parenthesised, annotation collapsed/idempotent; idempotence and dedent refuted by computed witnesses and proved under the exact guard), exhaustive extracted-model vs implementation correspondence",
    "text": "The normalisers are modelled byte for byte (including bytes.TrimSpace on UTF-8 white space) and compared exhaustively over an 8-byte alphabet; every statement of the property is a theorem, or a _refuted theorem with the counterexample class listed as a known finding plus a _partial theorem under the exact guard.",
    "note": "Trusted: Coq kernel, extraction + OCaml driver, harness. The scanner's delimitation of the text lexeme is covered by the scanner table theorems and the lexeme-stream correspondence (C14).",
    "design_ref": "7 (C15)",
}

CLAIMED["C14"] = {
    "technique": "Coq metatheory proved once for any scanner table (stack discipline, begin/end pairing, found/foundAt offsets, rewinds, termination potential) + finite obligation table_ok discharged by vm_compute on the 160 step functions regenerated from scanner/*.go by go2coq; lexeme-stream correspondence of the extracted scanner model against scanner.NewJApiScanner().Next()",
    "text": "lexemes_in_bounds_and_ordered and no_content_dropped (every byte outside the lexemes was consumed in a state that may skip it: blanks, line ends, comment text, annotation delimiters - two further checkers trivia_ok and pend_ok decided on the regenerated table + their own metatheory; no side condition), keywords_spelled (the bytes of every Keyword lexeme are a keyword of the regenerated directive table or a response code in range: a fourth checker spell_ok + metatheory) hold for every byte string and every len-sane schema library; keyword spelling and body = one library value are decided by the executable statement on the implementation's streams (token-alphabet enumeration, every prefix of every body token in every body-reading state, fixture prefixes, mutations) with the model agreeing lexeme for lexeme.",
    "note": "Trusted: Coq kernel + vm_compute, go2coq (step functions -> decision trees), the hand-written driver model coq/model/ScannerSem.v (tied by correspondence), extraction, harness, the schema library as Len() oracle (hypothesis len_sane). The typing inference is untrusted (only checked).",
    "design_ref": "5.2, 7 (C14)",
}
CLAIMED["C01"] = {
    "technique": "Coq theorems scan_total (no empty-stack Pop, no underflow, no out-of-range index/slice, bounded re-dispatch, termination by a potential function) for the regenerated scanner table and pipeline_total (context resolution, macro expansion and the catalog build of the core/catalog models end in a catalog or a diagnostic for every item sequence: no panic site is reachable on admissible forests, expansion preserves admissibility); crash/hang search of the whole pipeline in isolated subprocesses with the model-predicted hostile shapes (include graphs, macro graphs, deep nesting)",
    "text": "6 theorems: the scanner half for all byte strings, the core/catalog half for all item sequences on the hand models (tied by correspondence); the implementation itself is run in subprocesses that observe panics, fatal stack overflows, hangs and runtime faults reported as diagnostics.",
    "note": "Trusted: as C14; Go runtime stack limits and the schema library's own totality are observed, not proved. Known finding: exponential macro expansion (not prompt).",
    "design_ref": "7 (C01)",
}

CLAIMED["C03"] = {
    "technique": "Coq proof that the inventory (map ranges, goroutines/time/rand/env/reflect/unsafe uses, package-level variables and writes, recover sites) REGENERATED from the current source by go2coq equals the audited list, plus an order-irrelevance theorem for every permutation at each audited map-range site/class; exact comparison of repeated fresh-process, in-process and concurrent runs",
    "text": "Everything but map iteration is deterministic by construction of the code (no time/rand/goroutine sources: proved on the regenerated inventory); each remaining map range is proved order-irrelevant for all permutations. The repeated-run comparison validates the inventory's scope and explores the schema library and encoding/json.",
    "note": "Trusted: Coq kernel, go2coq inventory (go/types), harness. Observed, not proved: determinism of the schema library, encoding/json, reggen. Known finding: concurrent example corruption.",
    "design_ref": "7 (C03)",
}
CLAIMED["C06"] = {
    "technique": "Coq theorems about the context zipper of the hand model coq/model/Core.v over the admissibility tables regenerated from directive/enumeration.go (pre-order preservation, admissibility of every edge, nearest admitting parent, rejection conditions; resolution and macro expansion are functions of the SHAPES of the directives - kinds, parameters, explicit flags - never of coordinates: context_ignores_coordinates, expansion_ignores_coordinates); exhaustive/ random directive-kind sequences compared as forests with the implementation after scanning and after paste expansion",
    "text": "The model of processContext / closeLastExplicitContext / processEOF is compared with the real directive forests (kind, parent, order, explicit flag, coordinates, trace) on all kind sequences to the length bound; the theorems quantify over all item sequences.",
    "note": "Trusted: Coq kernel, go2coq (tables), extraction, harness (verif-tagged accessors to the directive lists). The hand model is tied by correspondence only.",
    "design_ref": "7 (C06)",
}
CLAIMED["C18"] = {
    "technique": "Coq theorems on the core model with the ban set as a parameter (every directive is created through the ban test; with INCLUDE banned the result is independent of the file system; without a banned kind the result equals the result without the option) + correspondence of the model with the implementation under ban sets and direct checks of the diagnostic location",
    "text": "All 30 singletons and sampled sets on a reference document containing every kind directly, in macros, via PASTE and via INCLUDE; non-interference of the file system when INCLUDE is banned is observed by varying the named file.",
    "note": "Trusted: Coq kernel, extraction, harness. Hand model tied by correspondence.",
    "design_ref": "7 (C18)",
}

NOT_YET = {
}

ALL = ["C%02d" % i for i in range(1, 21)]


CLAIMED["C07"] = {
    "technique": "Coq proofs about the macro stage of the core model (Core.expand): the recursion check is a complete cycle detector on the paste graph for every macro table (cycle_rejected, acyclic_accepted, has_cycle_complete), terminates within the fuel expand passes, expansion terminates, expansion equals expansion of the inlined forest (paste_is_inlining), an unused macro is inert, duplicates and undefined names are rejected at the stated directive; tied to the code by extracted-model vs implementation correspondence at the expand stage and by metamorphic runs (document vs textually inlined document, full pipeline)",
    "text": "20 theorems for all forests / macro tables on the hand model coq/model/Core.v; the model is compared with the implementation's expanded forest on generated documents every run, and the catalog of each accepted document is compared with the catalog of its textual inlining.",
    "note": "Trusted: Coq kernel, extraction + OCaml driver, harness, the generator's textual inliner. Theorems speak of directive forests; the step from tree-level to textual inlining is covered by the metamorphic run, not by proof. Known finding: order of userEnums.",
    "design_ref": "7 (C07)",
}

CLAIMED["C09"] = {
    "technique": "Coq proofs over the catalog skeleton model (Catalog.build): for every accepted forest the collections have unique keys, every interaction key equals its id string and encodes protocol/method/path, tags and interactions reference each other mutually, every request/response has a body whose format matches its notation, Title() = info.title (invariant cat_inv carried through the pre-order fold of add_directive); id-string injectivity proved for HTTP and for JSON-RPC without spaces, refuted with a witness otherwise; tied to the code by skeleton correspondence (extracted model vs implementation JSON) and by an executable statement evaluated on the implementation's JSON",
    "text": "12 theorems for all forests on the hand model coq/model/Catalog.v (schemas are opaque descriptors); the model's skeleton is compared with the implementation's JSON on fixtures and generated documents every run, and every clause of the property is evaluated on the implementation's compact and indented JSON.",
    "note": "Trusted: Coq kernel, extraction + OCaml driver, harness, skeleton projection (verifsys/skeleton.py). JSON text level (encoding/json escaping, UTF-8 coercion) is outside the model: decided by the executable statement only. Known findings: JSON-RPC id collision, invalid-UTF-8 key collapse.",
    "design_ref": "7 (C09)",
}

CLAIMED["C12"] = {
    "technique": "Coq proofs about a heap model of ProcessAllOf (coq/model/AllOf.v: shared nodes, memo set, copy-by-value of children): for EVERY library-accepted environment - rules at schema roots, on nested objects, on array items, inside objects with a rule, in use sites and in base types whose children are copied by value - the run succeeds within the default fuel and every type and use site renders as the pure transitive closure (allof_correct, by a typing of the heap that holds in every intermediate state: a completed node is never written again, a visit only writes nodes of its own or a lower level), nodes without a rule are left unchanged, the result is independent of declaration order, undefined / non-object / non-JSight bases are rejected; tied to the code by unit correspondence (the real exported ProcessAllOf on hand-built catalogs), document correspondence and a bounded exhaustive model-vs-spec search",
    "text": "15 theorems on the hand model of core/compile_catalog.go ProcessAllOf; the extracted model is compared with the real function on generated catalogs and with the implementation's JSON on generated documents every run.",
    "note": "Trusted: Coq kernel, extraction + OCaml driver, harness (fn_allof.go builds catalogs through the exported API), lib_ok as the model of what the schema library accepts (validated by the document runs). Partial: whole-run override rejection for projects the library would not accept is decided by the step theorem, examples and the unit correspondence, not by a whole-run proof.",
    "design_ref": "7 (C12)",
}

CLAIMED["C05"] = {
    "technique": "Coq proofs on the scanner table regenerated from scanner/steps*.go: no state distinguishes CR from LF or space from tab (for every configuration and oracle, lifted from a decision over all states), blanks and line ends are inert in the 18 between-directive / before-body states, a comment is opened by saving the interrupted state, read without any event or change but the read position, and its line end is handed to the restored state (line_comment_skipped for comment text of any length); the remaining part of the property (invariance of later stages under the position shift, block comments as a whole, quoting, parentheses) is decided by metamorphic runs: generated API models rendered under random trivia plans and fixtures under text-level rewritings must give the same verdict and byte-identical JSON",
    "text": "29 theorems: 8 about the step semantics over the translated scanner table, 16 saying that blanks or a whole comment line inserted (or removed) where the scanner is in a shift state only shift the later lexemes (look-back typing of the table checked by computation + a translation relation between runs; at the start of a line the run on the longer input is derived under a stated locality hypothesis on earlier oracle calls) and 5 about the core model (context resolution and macro expansion depend on directive shapes only, so a change of layout cannot change the forest) - partial: see the props file; metamorphic correspondence of the implementation with itself under all listed rewritings on generated and fixture documents every run.",
    "note": "Trusted: Coq kernel, go2coq (scanner table translator), the document generator/renderer (verifsys/gendoc, self-checked every run), harness. Partial: see the header of coq/props/C05.v for what is proved and what is only explored. Known findings: bare '#' next to a body and block comment + directive on one line after a body (schema library).",
    "design_ref": "7 (C05)",
}

CLAIMED["C11"] = {
    "technique": "Coq proofs over the catalog skeleton model (Catalog.build / Core.expand): the catalog build is a fold of one adder over the pre-order of the expanded forest whose accepted steps only grow a state order (names, ids, URL paths, similar-path bindings, Protocol set, filled singleton slots), so a second directive that meets what the first left behind cannot succeed; 51 theorems: every duplicate kind (type, server, enum, tag, macro, method, JSON-RPC method, URL, similar paths), every second singleton child, every missing required parameter, undefined macro and undefined tag are rejected for all forests, with the exact located diagnostic under 'no earlier fault'; tied to the code by skeleton/diagnostic correspondence on fault-injected documents (direct, through PASTE, through INCLUDE) and by the span check on the implementation's diagnostic",
    "text": "51 theorems for all forests on coq/model/Catalog.v and Core.v; every fault kind is injected at every slot of 13 base documents by three routes and the implementation must reject inside the span of the injected directive; the extracted model must give the same file, index, line and message class.",
    "note": "Trusted: Coq kernel, extraction + OCaml driver, harness. Undefined TYPE/ENUM references sit inside schema text and are decided by the schema library (oracle), not by the model. Known findings: nameless TYPE diagnosed elsewhere, Body under an inline schema located at the parent, paste-time diagnostics located at the outer PASTE.",
    "design_ref": "7 (C11)",
}

CLAIMED["C04"] = {
    "technique": "Coq proofs over the catalog skeleton model: for every accepted expanded forest the key lists of the catalog are exactly the declaring directives in pre-order (servers, types, enums with a body, declared tags first then automatic tags in order of first use, interactions = the ids made by the method directives, each made by exactly one directive), each interaction's annotation, description, query, request presence, response codes in order, params/result are the fold of the content directives that resolve to it, info/jsight come from their directives (catalog_keys, every_method_makes_an_interaction, content_faithful, info_faithful); tied to the code by skeleton correspondence, and decided on the implementation by model-first generation: abstract API models are generated first, the expected catalog is computed from the MODEL (gendoc.expect.catalog_of) and compared with the skeleton of the implementation's JSON",
    "text": "12 theorems for all forests on coq/model/Catalog.v (incl. full_content_faithful: provenance of request/response bodies and headers; INFO and TAG descriptions); generated API models: every rendering must be accepted and its JSON skeleton must equal the expectation computed from the abstract model; the extracted Coq model is run on the same documents.",
    "note": "Trusted: Coq kernel, extraction + OCaml driver, harness, the generator's expectation function (self-checked by round trips every run). Schema CONTENT (the children of a schema) is the schema library's; the skeleton carries notation, format, type references. Partial: provenance of request/response bodies and headers, INFO/TAG descriptions are not traced by a theorem (format by C09).",
    "design_ref": "7 (C04)",
}

CLAIMED["C10"] = {
    "technique": "Coq proofs: the name-collecting passes (enums, tags, duplicate types) give the same verdict and permuted results under any permutation of the forest (closed-form criterion), the catalog fold over declaration directives (SERVER/TYPE/TAG/ENUM) is order free up to the order of the entries, allOf inheritance renders every type identically under any permutation of the TYPE directives (heap model), the macro recursion check's verdict is a property of the paste graph; the refuted part (usedUserTypes lists) is a witness theorem and a recorded finding; the rest of the property (URL/method trees, path variables, whole pipeline) is decided by metamorphic runs: generated API models rendered in a random permutation of their top-level blocks, also after macro-ization, must give the same verdict, equal entries and the permuted order",
    "text": "15 theorems (9 partial by name) on the catalog, allOf and macro models + metamorphic correspondence of the implementation with itself under permutation on generated documents every run.",
    "note": "Trusted: Coq kernel, the document generator and its permutation/expectation functions (self-checked), harness. Partial: see the header of coq/props/C10.v. Known finding: usedUserTypes of allOf chains depend on the declaration order (fixtures pin one order).",
    "design_ref": "7 (C10)",
}

CLAIMED["C20"] = {
    "technique": "Coq proofs over the catalog skeleton model and the macro model: a fresh SERVER or TYPE appended to an accepted forest is accepted iff its name is new and yields the old catalog plus exactly that entry (both directions), a fresh root-level HTTP method appended yields the old catalog plus the interaction and its automatic tag, an unused macro is inert (C07 unused_macro_inert); insertion at arbitrary positions and removal are decided by metamorphic runs: generated API models with one fresh declaration of a random kind at a random insertion point, one removal of an unreferenced declaration, one unused macro - every other catalog entry must stay byte-identical",
    "text": "17 theorems (2 partial by name) on coq/model/Catalog.v: a fresh SERVER / TYPE / ENUM / TAG inserted at ANY top-level position (equivalences: read right to left they are removal of an unreferenced declaration), HTTP method and TAG at the end position + metamorphic correspondence of the implementation with itself on generated documents every run.",
    "note": "Trusted: Coq kernel, the document generator's add/remove transformations (self-checked), harness. Partial: arbitrary insertion positions of methods and the TAG case (a new TAG captures the automatic tag of the same name, so it is not inert in general) are explored, not proved.",
    "design_ref": "7 (C20)",
}

def counted(pid, text):
    """the leading 'N theorems' (and '(K partial by name)') of a text are counted from coq/props/<pid>.v"""
    import re
    src = open(os.path.join(os.path.dirname(os.path.abspath(__file__)), "coq", "props", pid + ".v")).read()
    names = re.findall(r"^Theorem\s+(\w+)", src, re.M)
    text = re.sub(r"^\d+ theorems", "%d theorems" % len(names), text)
    text = re.sub(r"\(\d+ partial by name\)", "(%d partial by name)" % sum(1 for n in names if "partial" in n), text)
    return text


def main():
    checks = []
    for pid in ALL:
        if pid not in CLAIMED:
            continue
        c = CLAIMED[pid]
        checks.append({
            "property_id": pid,
            "quick_cmd": "./check %s --tier quick" % pid,
            "thorough_cmd": "./check %s --tier thorough" % pid,
            "evidence_file": "/verif/evidence/%s.json" % pid,
            "replay_cmd_template": "./check %s --replay {path}" % pid,
            "engine": "coq",
            "level_claimed": {"category": "proof", "text": counted(pid, c["text"]), "design_ref": c["design_ref"]},
            "level_note": c["note"],
            "technique": c["technique"],
        })
    na = []
    for pid in ALL:
        if pid not in CLAIMED:
            na.append({"property_id": pid, "reason": NOT_YET.get(pid, "check not built yet in this round (machine-checked proof is applicable; see DESIGN.md section 7)")})
    m = {
        "version": 1,
        "setup_cmd": "./setup.sh",
        "hooks": {
            "guard": "verif",
            "enable": "go build -tags verif (the harness module in /verif/harness replaces the library by /repo)",
            "baseline_off_cmd": "cd /repo && GOFLAGS=-mod=mod GOPROXY=off GOSUMDB=off GOTOOLCHAIN=local go test -json -vet=off -count=1 -timeout 25m ./...",
            "source_commits": json.load(open(os.path.join(HERE, "hook_commits.json"))),
            "add_only": True,
        },
        "engines": [{
            "name": "coq",
            "path": "/verif/coq",
            "serves_properties": sorted(CLAIMED),
            "kind_free_text": "Coq 8.16.1 development: models regenerated from /repo by /verif/go2coq (coq/gen) + hand-written models (coq/model) tied by an extracted-OCaml correspondence run against the Go harness (/verif/harness)",
        }],
        "checks": checks,
        "not_applicable": na,
        "notes": "All checks are ./check <ID>; see DESIGN.md. known_findings.json lists recorded findings and fixed defects.",
    }
    with open(os.path.join(HERE, "MANIFEST.json"), "w") as f:
        json.dump(m, f, indent=1)
        f.write("\n")


if __name__ == "__main__":
    main()
#!/usr/bin/env python3
"""Writes /verif/MANIFEST.json from the table below (kept in one place so that it is
always valid against /root/.vp/MANIFEST.schema.json)."""
import json
import os

HERE = os.path.dirname(os.path.abspath(__file__))

CLAIMED = {
    "C08": {
        "technique": "Coq proof over the include-name validator regenerated from core/include.go by go2coq (include_name_safe, join_confined) + exhaustive model/implementation correspondence of the validator and of the filepath model",
        "text": "Theorems for all byte strings on the validator as translated from the current source, plus a proved model of filepath.Join/Dir; the tie to the code is the translator (re-run on every check) and an exhaustive differential run over short names.",
        "note": "Trusted: Coq kernel, go2coq, extraction + OCaml driver, hand model of filepath.Clean/Join/Dir (validated against the real functions every run). OS path semantics (symlinks) are outside the model.",
        "design_ref": "7 (C08)",
    },
}

CLAIMED["C19"] = {
    "technique": "Coq proof of injectivity (by a decoder) of the automatic tag-name function regenerated from catalog/tag_name.go, proof of the first-segment rule on a hand model of pathTagTitle, exhaustive model/implementation correspondence",
    "text": "tagName is translated from the current source on every run and proved injective on all titles '/'+segment; pathTagTitle is a hand model compared exhaustively with the implementation over short paths and all single bytes.",
    "note": "Trusted: Coq kernel, go2coq, extraction + OCaml driver, model of url.PathEscape (validated against the real function every run). Document-level tag assignment is decided by the core-model correspondence (see DESIGN 7, C19).",
    "design_ref": "7 (C19)",
}

CLAIMED["C17"] = {
    "technique": "Coq proofs about a hand model of unescapeParameter / AppendParameter and of the scanner's quoted-parameter states (unescape_quote for all byte strings, accepted_iff_quote, rejection positions), tied to the code by exhaustive extracted-model vs implementation correspondence and by the regenerated scanner table",
    "text": "Round-trip of quoted parameters is proved for every byte string on the model; the model is compared with directive.unescapeParameter, AppendParameter and the real scanner on all strings over a 12-byte alphabet up to the length bound.",
    "note": "Trusted: Coq kernel, extraction + OCaml driver, harness. Hand model (coq/model/Params.v) is tied by correspondence only.",
    "design_ref": "7 (C17)",
}
CLAIMED["C02"] = {
    "technique": "Coq proofs about a hand model of the jerr location arithmetic (totality on index <= len, line/line-beginning/line-end/quote specifications, no unsigned wrap), exhaustive extracted-model vs implementation correspondence; on the core model: every scan-stage diagnostic names an opened project file and an index inside it, every include-trace entry names a project file and an offset where INCLUDE really stands, the trace is exactly the scanner-stack chain when no file has two INCLUDEs (refuted otherwise: the recorded finding); project stage with computed expectations (include chains, type chains, path-property faults)",
    "text": "25 theorems. For every content and every index within the file the model never panics and line/quote agree with the index; 10 theorems on diagnostics and include traces of the core model; model and jerr.NewLocation are compared on all contents over {a,space,tab,CR,LF} up to the bound at every index.",
    "note": "Trusted: Coq kernel, extraction + OCaml driver, harness. Known finding: stale include-tracer cache (trace line of the first INCLUDE of the same includer).",
    "design_ref": "7 (C02)",
}
CLAIMED["C13"] = {
    "technique": "Coq proofs about a hand model of pathParameters / PathParameters / checkSimilarPaths (totality, specification, distinct prefixes, exact rejection conditions, order independence), exhaustive extracted-model vs implementation correspondence",
    "text": "String-level path-parameter extraction and the similar-path check are proved against independent specifications for all byte strings and all path lists; compared with core.PathParameters over {/,{,},a,b} up to the bound.",
    "note": "Trusted: Coq kernel, extraction + OCaml driver, harness. Binding of properties to interactions is decided by the core-model correspondence (DESIGN 7, C13).",
    "design_ref": "7 (C13)",
}

CLAIMED["C16"] = {
    "technique": "Coq proofs about an ordered-map model for all operation sequences (om_invariant, no_lost_update, marshal_each_key_once, first_insertion_order; each_stops_at_first_error, find_first_match, rules_each_stops_at_first_error for Each/EachReverse/Find with a failing callback in every state) + lock-discipline obligation locks_ok discharged by computation on the collection method bodies regenerated from catalog/*_gen.go and directive/directives_gen.go; race-detector stress runs are labelled exploration in the evidence",
    "text": "Partial by nature: every method is proved atomic-under-lock (regenerated lock facts) and the sequential semantics is proved for all operation sequences, i.e. all linearisations; data races, the Go memory model and the schema library are explored with -race stress runs, not proved.",
    "note": "Trusted: Coq kernel, go2coq (method-body normal forms), extraction, harness. Not modelled: sync.RWMutex, Go memory model, schema library internals. Known finding: concurrent parses corrupt schema example strings (pooled buffer in the schema library).",
    "design_ref": "7 (C16)",
}

CLAIMED["C15"] = {
    "technique": "Coq proofs about a hand model of core.description and catalog.Annotation (no CR, trimmed, exact fixed-point characterisation desc_fixed_iff, bare = parenthesised, annotation collapsed/idempotent; idempotence and dedent refuted by computed witnesses and proved under the exact guard), exhaustive extracted-model vs implementation correspondence",
    "text": "The normalisers are modelled byte for byte (including bytes.TrimSpace on UTF-8 white space) and compared exhaustively over an 8-byte alphabet; every statement of the property is a theorem, or a _refuted theorem with the counterexample class listed as a known finding plus a _partial theorem under the exact guard.",
    "note": "Trusted: Coq kernel, extraction + OCaml driver, harness. The scanner's delimitation of the text lexeme is covered by the scanner table theorems and the lexeme-stream correspondence (C14).",
    "design_ref": "7 (C15)",
}

CLAIMED["C14"] = {
    "technique": "Coq metatheory proved once for any scanner table (stack discipline, begin/end pairing, found/foundAt offsets, rewinds, termination potential) + finite obligation table_ok discharged by vm_compute on the 160 step functions regenerated from scanner/*.go by go2coq; lexeme-stream correspondence of the extracted scanner model against scanner.NewJApiScanner().Next()",
    "text": "lexemes_in_bounds_and_ordered and no_content_dropped (every byte outside the lexemes was consumed in a state that may skip it: blanks, line ends, comment text, annotation delimiters - two further checkers trivia_ok and pend_ok decided on the regenerated table + their own metatheory; no side condition), keywords_spelled (the bytes of every Keyword lexeme are a keyword of the regenerated directive table or a response code in range: a fourth checker spell_ok + metatheory) hold for every byte string and every len-sane schema library; keyword spelling and body = one library value are decided by the executable statement on the implementation's streams (token-alphabet enumeration, every prefix of every body token in every body-reading state, fixture prefixes, mutations) with the model agreeing lexeme for lexeme.",
    "note": "Trusted: Coq kernel + vm_compute, go2coq (step functions -> decision trees), the hand-written driver model coq/model/ScannerSem.v (tied by correspondence), extraction, harness, the schema library as Len() oracle (hypothesis len_sane). The typing inference is untrusted (only checked).",
    "design_ref": "5.2, 7 (C14)",
}
CLAIMED["C01"] = {
    "technique": "Coq theorems scan_total (no empty-stack Pop, no underflow, no out-of-range index/slice, bounded re-dispatch, termination by a potential function) for the regenerated scanner table and pipeline_total (context resolution, macro expansion and the catalog build of the core/catalog models end in a catalog or a diagnostic for every item sequence: no panic site is reachable on admissible forests, expansion preserves admissibility); crash/hang search of the whole pipeline in isolated subprocesses with the model-predicted hostile shapes (include graphs, macro graphs, deep nesting)",
    "text": "6 theorems: the scanner half for all byte strings, the core/catalog half for all item sequences on the hand models (tied by correspondence); the implementation itself is run in subprocesses that observe panics, fatal stack overflows, hangs and runtime faults reported as diagnostics.",
    "note": "Trusted: as C14; Go runtime stack limits and the schema library's own totality are observed, not proved. Known finding: exponential macro expansion (not prompt).",
    "design_ref": "7 (C01)",
}

CLAIMED["C03"] = {
    "technique": "Coq proof that the inventory (map ranges, goroutines/time/rand/env/reflect/unsafe uses, package-level variables and writes, recover sites) REGENERATED from the current source by go2coq equals the audited list, plus an order-irrelevance theorem for every permutation at each audited map-range site/class; exact comparison of repeated fresh-process, in-process and concurrent runs",
    "text": "Everything but map iteration is deterministic by construction of the code (no time/rand/goroutine sources: proved on the regenerated inventory); each remaining map range is proved order-irrelevant for all permutations. The repeated-run comparison validates the inventory's scope and explores the schema library and encoding/json.",
    "note": "Trusted: Coq kernel, go2coq inventory (go/types), harness. Observed, not proved: determinism of the schema library, encoding/json, reggen. Known finding: concurrent example corruption.",
    "design_ref": "7 (C03)",
}
CLAIMED["C06"] = {
    "technique": "Coq theorems about the context zipper of the hand model coq/model/Core.v over the admissibility tables regenerated from directive/enumeration.go (pre-order preservation, admissibility of every edge, nearest admitting parent, rejection conditions; resolution and macro expansion are functions of the SHAPES of the directives - kinds, parameters, explicit flags - never of coordinates: context_ignores_coordinates, expansion_ignores_coordinates); exhaustive/ random directive-kind sequences compared as forests with the implementation after scanning and after paste expansion",
    "text": "The model of processContext / closeLastExplicitContext / processEOF is compared with the real directive forests (kind, parent, order, explicit flag, coordinates, trace) on all kind sequences to the length bound; the theorems quantify over all item sequences.",
    "note": "Trusted: Coq kernel, go2coq (tables), extraction, harness (verif-tagged accessors to the directive lists). The hand model is tied by correspondence only.",
    "design_ref": "7 (C06)",
}
CLAIMED["C18"] = {
    "technique": "Coq theorems on the core model with the ban set as a parameter (every directive is created through the ban test; with INCLUDE banned the result is independent of the file system; without a banned kind the result equals the result without the option) + correspondence of the model with the implementation under ban sets and direct checks of the diagnostic location",
    "text": "All 30 singletons and sampled sets on a reference document containing every kind directly, in macros, via PASTE and via INCLUDE; non-interference of the file system when INCLUDE is banned is observed by varying the named file.",
    "note": "Trusted: Coq kernel, extraction, harness. Hand model tied by correspondence.",
    "design_ref": "7 (C18)",
}

NOT_YET = {
}

ALL = ["C%02d" % i for i in range(1, 21)]


CLAIMED["C07"] = {
    "technique": "Coq proofs about the macro stage of the core model (Core.expand): the recursion check is a complete cycle detector on the paste graph for every macro table (cycle_rejected, acyclic_accepted, has_cycle_complete), terminates within the fuel expand passes, expansion terminates, expansion equals expansion of the inlined forest (paste_is_inlining), an unused macro is inert, duplicates and undefined names are rejected at the stated directive; tied to the code by extracted-model vs implementation correspondence at the expand stage and by metamorphic runs (document vs textually inlined document, full pipeline)",
    "text": "20 theorems for all forests / macro tables on the hand model coq/model/Core.v; the model is compared with the implementation's expanded forest on generated documents every run, and the catalog of each accepted document is compared with the catalog of its textual inlining.",
    "note": "Trusted: Coq kernel, extraction + OCaml driver, harness, the generator's textual inliner. Theorems speak of directive forests; the step from tree-level to textual inlining is covered by the metamorphic run, not by proof. Known finding: order of userEnums.",
    "design_ref": "7 (C07)",
}

CLAIMED["C09"] = {
    "technique": "Coq proofs over the catalog skeleton model (Catalog.build): for every accepted forest the collections have unique keys, every interaction key equals its id string and encodes protocol/method/path, tags and interactions reference each other mutually, every request/response has a body whose format matches its notation, Title() = info.title (invariant cat_inv carried through the pre-order fold of add_directive); id-string injectivity proved for HTTP and for JSON-RPC without spaces, refuted with a witness otherwise; tied to the code by skeleton correspondence (extracted model vs implementation JSON) and by an executable statement evaluated on the implementation's JSON",
    "text": "12 theorems for all forests on the hand model coq/model/Catalog.v (schemas are opaque descriptors); the model's skeleton is compared with the implementation's JSON on fixtures and generated documents every run, and every clause of the property is evaluated on the implementation's compact and indented JSON.",
    "note": "Trusted: Coq kernel, extraction + OCaml driver, harness, skeleton projection (verifsys/skeleton.py). JSON text level (encoding/json escaping, UTF-8 coercion) is outside the model: decided by the executable statement only. Known findings: JSON-RPC id collision, invalid-UTF-8 key collapse.",
    "design_ref": "7 (C09)",
}

CLAIMED["C12"] = {
    "technique": "Coq proofs about a heap model of ProcessAllOf (coq/model/AllOf.v: shared nodes, memo set, copy-by-value of children): for every library-accepted environment with allOf at schema roots the run succeeds within the default fuel and every type and use site renders as the pure transitive closure (allof_correct_rootlevel), bases are left unchanged, the result is independent of declaration order, undefined / non-object / non-JSight bases are rejected; nested cases by exhaustive model-vs-spec search; tied to the code by unit correspondence (the real exported ProcessAllOf on hand-built catalogs) and document correspondence",
    "text": "15 theorems on the hand model of core/compile_catalog.go ProcessAllOf; the extracted model is compared with the real function on generated catalogs and with the implementation's JSON on generated documents every run.",
    "note": "Trusted: Coq kernel, extraction + OCaml driver, harness (fn_allof.go builds catalogs through the exported API), lib_ok as the model of what the schema library accepts (validated by the document runs). Partial: allOf below nested objects and whole-run override rejection are decided by exhaustive search and examples, not by proof.",
    "design_ref": "7 (C12)",
}

CLAIMED["C05"] = {
    "technique": "Coq proofs on the scanner table regenerated from scanner/steps*.go: no state distinguishes CR from LF or space from tab (for every configuration and oracle, lifted from a decision over all states), blanks and line ends are inert in the 18 between-directive / before-body states, a comment is opened by saving the interrupted state, read without any event or change but the read position, and its line end is handed to the restored state (line_comment_skipped for comment text of any length); the remaining part of the property (invariance of later stages under the position shift, block comments as a whole, quoting, parentheses) is decided by metamorphic runs: generated API models rendered under random trivia plans and fixtures under text-level rewritings must give the same verdict and byte-identical JSON",
    "text": "29 theorems: 8 about the step semantics over the translated scanner table, 16 saying that blanks or a whole comment line inserted (or removed) where the scanner is in a shift state only shift the later lexemes (look-back typing of the table checked by computation + a translation relation between runs; at the start of a line the run on the longer input is derived under a stated locality hypothesis on earlier oracle calls) and 5 about the core model (context resolution and macro expansion depend on directive shapes only, so a change of layout cannot change the forest) - partial: see the props file; metamorphic correspondence of the implementation with itself under all listed rewritings on generated and fixture documents every run.",
    "note": "Trusted: Coq kernel, go2coq (scanner table translator), the document generator/renderer (verifsys/gendoc, self-checked every run), harness. Partial: see the header of coq/props/C05.v for what is proved and what is only explored. Known findings: bare '#' next to a body and block comment + directive on one line after a body (schema library).",
    "design_ref": "7 (C05)",
}

CLAIMED["C11"] = {
    "technique": "Coq proofs over the catalog skeleton model (Catalog.build / Core.expand): the catalog build is a fold of one adder over the pre-order of the expanded forest whose accepted steps only grow a state order (names, ids, URL paths, similar-path bindings, Protocol set, filled singleton slots), so a second directive that meets what the first left behind cannot succeed; 51 theorems: every duplicate kind (type, server, enum, tag, macro, method, JSON-RPC method, URL, similar paths), every second singleton child, every missing required parameter, undefined macro and undefined tag are rejected for all forests, with the exact located diagnostic under 'no earlier fault'; tied to the code by skeleton/diagnostic correspondence on fault-injected documents (direct, through PASTE, through INCLUDE) and by the span check on the implementation's diagnostic",
    "text": "51 theorems for all forests on coq/model/Catalog.v and Core.v; every fault kind is injected at every slot of 13 base documents by three routes and the implementation must reject inside the span of the injected directive; the extracted model must give the same file, index, line and message class.",
    "note": "Trusted: Coq kernel, extraction + OCaml driver, harness. Undefined TYPE/ENUM references sit inside schema text and are decided by the schema library (oracle), not by the model. Known findings: nameless TYPE diagnosed elsewhere, Body under an inline schema located at the parent, paste-time diagnostics located at the outer PASTE.",
    "design_ref": "7 (C11)",
}

CLAIMED["C04"] = {
    "technique": "Coq proofs over the catalog skeleton model: for every accepted expanded forest the key lists of the catalog are exactly the declaring directives in pre-order (servers, types, enums with a body, declared tags first then automatic tags in order of first use, interactions = the ids made by the method directives, each made by exactly one directive), each interaction's annotation, description, query, request presence, response codes in order, params/result are the fold of the content directives that resolve to it, info/jsight come from their directives (catalog_keys, every_method_makes_an_interaction, content_faithful, info_faithful); tied to the code by skeleton correspondence, and decided on the implementation by model-first generation: abstract API models are generated first, the expected catalog is computed from the MODEL (gendoc.expect.catalog_of) and compared with the skeleton of the implementation's JSON",
    "text": "12 theorems for all forests on coq/model/Catalog.v (incl. full_content_faithful: provenance of request/response bodies and headers; INFO and TAG descriptions); generated API models: every rendering must be accepted and its JSON skeleton must equal the expectation computed from the abstract model; the extracted Coq model is run on the same documents.",
    "note": "Trusted: Coq kernel, extraction + OCaml driver, harness, the generator's expectation function (self-checked by round trips every run). Schema CONTENT (the children of a schema) is the schema library's; the skeleton carries notation, format, type references. Partial: provenance of request/response bodies and headers, INFO/TAG descriptions are not traced by a theorem (format by C09).",
    "design_ref": "7 (C04)",
}

CLAIMED["C10"] = {
    "technique": "Coq proofs: the name-collecting passes (enums, tags, duplicate types) give the same verdict and permuted results under any permutation of the forest (closed-form criterion), the catalog fold over declaration directives (SERVER/TYPE/TAG/ENUM) is order free up to the order of the entries, allOf inheritance renders every type identically under any permutation of the TYPE directives (heap model), the macro recursion check's verdict is a property of the paste graph; the refuted part (usedUserTypes lists) is a witness theorem and a recorded finding; the rest of the property (URL/method trees, path variables, whole pipeline) is decided by metamorphic runs: generated API models rendered in a random permutation of their top-level blocks, also after macro-ization, must give the same verdict, equal entries and the permuted order",
    "text": "15 theorems (9 partial by name) on the catalog, allOf and macro models + metamorphic correspondence of the implementation with itself under permutation on generated documents every run.",
    "note": "Trusted: Coq kernel, the document generator and its permutation/expectation functions (self-checked), harness. Partial: see the header of coq/props/C10.v. Known finding: usedUserTypes of allOf chains depend on the declaration order (fixtures pin one order).",
    "design_ref": "7 (C10)",
}

CLAIMED["C20"] = {
    "technique": "Coq proofs over the catalog skeleton model and the macro model: a fresh SERVER or TYPE appended to an accepted forest is accepted iff its name is new and yields the old catalog plus exactly that entry (both directions), a fresh root-level HTTP method appended yields the old catalog plus the interaction and its automatic tag, an unused macro is inert (C07 unused_macro_inert); insertion at arbitrary positions and removal are decided by metamorphic runs: generated API models with one fresh declaration of a random kind at a random insertion point, one removal of an unreferenced declaration, one unused macro - every other catalog entry must stay byte-identical",
    "text": "17 theorems (2 partial by name) on coq/model/Catalog.v: a fresh SERVER / TYPE / ENUM / TAG inserted at ANY top-level position (equivalences: read right to left they are removal of an unreferenced declaration), HTTP method and TAG at the end position + metamorphic correspondence of the implementation with itself on generated documents every run.",
    "note": "Trusted: Coq kernel, the document generator's add/remove transformations (self-checked), harness. Partial: arbitrary insertion positions of methods and the TAG case (a new TAG captures the automatic tag of the same name, so it is not inert in general) are explored, not proved.",
    "design_ref": "7 (C20)",
}

def counted(pid, text):
    """the leading 'N theorems' (and '(K partial by name)') of a text are counted from coq/props/<pid>.v"""
    import re
    src = open(os.path.join(os.path.dirname(os.path.abspath(__file__)), "coq", "props", pid + ".v")).read()
    names = re.findall(r"^Theorem\s+(\w+)", src, re.M)
    text = re.sub(r"^\d+ theorems", "%d theorems" % len(names), text)
    text = re.sub(r"\(\d+ partial by name\)", "(%d partial by name)" % sum(1 for n in names if "partial" in n), text)
    return text


def main():
    checks = []
    for pid in ALL:
        if pid not in CLAIMED:
            continue
        c = CLAIMED[pid]
        checks.append({
            "property_id": pid,
            "quick_cmd": "./check %s --tier quick" % pid,
            "thorough_cmd": "./check %s --tier thorough" % pid,
            "evidence_file": "/verif/evidence/%s.json" % pid,
            "replay_cmd_template": "./check %s --replay {path}" % pid,
            "engine": "coq",
            "level_claimed": {"category": "proof", "text": counted(pid, c["text"]), "design_ref": c["design_ref"]},
            "level_note": c["note"],
            "technique": c["technique"],
        })
    na = []
    for pid in ALL:
        if pid not in CLAIMED:
            na.append({"property_id": pid, "reason": NOT_YET.get(pid, "check not built yet in this round (machine-checked proof is applicable; see DESIGN.md section 7)")})
    m = {
        "version": 1,
        "setup_cmd": "./setup.sh",
        "hooks": {
            "guard": "verif",
            "enable": "go build -tags verif (the harness module in /verif/harness replaces the library by /repo)",
            "baseline_off_cmd": "cd /repo && GOFLAGS=-mod=mod GOPROXY=off GOSUMDB=off GOTOOLCHAIN=local go test -json -vet=off -count=1 -timeout 25m ./...",
            "source_commits": json.load(open(os.path.join(HERE, "hook_commits.json"))),
            "add_only": True,
        },
        "engines": [{
            "name": "coq",
            "path": "/verif/coq",
            "serves_properties": sorted(CLAIMED),
            "kind_free_text": "Coq 8.16.1 development: models regenerated from /repo by /verif/go2coq (coq/gen) + hand-written models (coq/model) tied by an extracted-OCaml correspondence run against the Go harness (/verif/harness)",
        }],
        "checks": checks,
        "not_applicable": na,
        "notes": "All checks are ./check <ID>; see DESIGN.md. known_findings.json lists recorded findings and fixed defects.",
    }
    with open(os.path.join(HERE, "MANIFEST.json"), "w") as f:
        json.dump(m, f, indent=1)
        f.write("\n")


if __name__ == "__main__":
    main()
