(* conversions between OCaml values and the extracted Coq datatypes *)
open Model

let rec pos_of_int n = if n = 1 then XH else if n land 1 = 0 then XO (pos_of_int (n lsr 1)) else XI (pos_of_int (n lsr 1))
let n_of_int n = if n = 0 then N0 else Npos (pos_of_int n)
let rec int_of_pos = function XH -> 1 | XO p -> 2 * int_of_pos p | XI p -> 2 * int_of_pos p + 1
let int_of_n = function N0 -> 0 | Npos p -> int_of_pos p
let rec nat_of_int n = if n = 0 then O else S (nat_of_int (n - 1))
let rec int_of_nat = function O -> 0 | S n -> 1 + int_of_nat n

let bytes_of_hex (h : Stdlib.String.t) : n list =
  if h = "-" then [] else begin
    let len = Stdlib.String.length h / 2 in
    Stdlib.List.init len (fun i -> n_of_int (int_of_string ("0x" ^ Stdlib.String.sub h (2 * i) 2)))
  end
let hex_of_bytes (b : n list) : Stdlib.String.t =
  if b = [] then "-" else Stdlib.String.concat "" (Stdlib.List.map (fun x -> Printf.sprintf "%02x" (int_of_n x)) b)

let rec string_of_coq = function EmptyString -> "" | String (Ascii (b0,b1,b2,b3,b4,b5,b6,b7), r) ->
  let bit b k = if b then 1 lsl k else 0 in
  Stdlib.String.make 1 (Char.chr (bit b0 0 + bit b1 1 + bit b2 2 + bit b3 3 + bit b4 4 + bit b5 5 + bit b6 6 + bit b7 7)) ^ string_of_coq r

let gres f = function GOk a -> f a | GPanic w -> "panic"
let bool_s b = if b then "true" else "false"
