(* C17: commands of the model runner for the parameter model (model/Params.v)
     unescape <hex>                 -> hex of unescape_parameter
     quoteparam <hex>               -> hex of quote_param
     appendparam <kindindex> <hex>  -> named <hexkey> <hexval> | unnamed <hex> | err
     scanquoted <hex text>          -> accept <lexeme length> | reject <position>
   kindindex = position in DirectiveTables.all_kinds = value of the Go directive.Enumeration *)
open Model
open Conv

let param_result_s = function
  | PNamed (k, v) -> "named " ^ hex_of_bytes k ^ " " ^ hex_of_bytes v
  | PUnnamed v -> "unnamed " ^ hex_of_bytes v
  | PErr -> "err"

let () =
  let r = Registry.register in
  let arg a i = Stdlib.List.nth a i in
  r "unescape" (fun a -> hex_of_bytes (unescape_parameter (bytes_of_hex (arg a 0))));
  r "quoteparam" (fun a -> hex_of_bytes (quote_param (bytes_of_hex (arg a 0))));
  r "appendparam" (fun a ->
    let i = int_of_string (arg a 0) in
    if i < 0 then "bad-kind" else
    match append_parameter_idx (nat_of_int i) (bytes_of_hex (arg a 1)) with
    | Some res -> param_result_s res
    | None -> "bad-kind");
  r "scanquoted" (fun a ->
    let t = bytes_of_hex (arg a 0) in
    match quoted_reject_pos t, quoted_lexeme_len t with
    | Some j, None -> "reject " ^ Stdlib.string_of_int (int_of_nat j)
    | None, Some n ->
      (* cross-check inside the model: the lexeme that was cut out is an accepted one *)
      let rec firstn k l = if k = 0 then [] else match l with [] -> [] | x :: r -> x :: firstn (k - 1) r in
      if accepts_quoted (firstn (int_of_nat n) t) then "accept " ^ Stdlib.string_of_int (int_of_nat n)
      else "model-inconsistent"
    | _ -> "model-inconsistent")
