(* C16: the ordered-collection model run on a script of method calls.
   omap <ops>          ops = comma-separated calls over hex keys/values ("-" = empty script):
                         S:k:v Set   T:k:v SetToTop   U:k:s Update(append s)   P:s Map(append s)
                         F:k:s Map(append s, callback fails at key k)   G:k Get   H:k Has   L Len
                         E Each   R EachReverse   M MarshalJSON
                         X:k Each, callback fails at key k   Y:k EachReverse, callback fails at key k
                         W:v Each, callback fails at the first value v   N:k Find(key = k)   V:v Find(value = v)
   oset <init> <ops>   init = "-" or k1/k2/... (NewStringSet(k1,k2,...)); ops: A:k Add  H:k Has  L Len  D Data
   Output: the observable result of every call, joined by ';'. *)
open Model
open Conv

let split c s = Stdlib.String.split_on_char c s

let obs_s = function
  | BNone -> "."
  | BGet None -> "none"
  | BGet (Some v) -> "some:" ^ hex_of_bytes v
  | BBool b -> bool_s b
  | BLen n -> string_of_int (int_of_nat n)
  | BVisit (kvs, st) -> (if st then "stop:" else "full:") ^ "[" ^ Stdlib.String.concat "|" (Stdlib.List.map (fun (k, v) -> hex_of_bytes k ^ "=" ^ hex_of_bytes v) kvs) ^ "]"
  | BFound None -> "notfound"
  | BFound (Some (k, v)) -> "found:" ^ hex_of_bytes k ^ "=" ^ hex_of_bytes v
  | BPairs kvs -> "[" ^ Stdlib.String.concat "|" (Stdlib.List.map (fun (k, v) -> hex_of_bytes k ^ "=" ^ hex_of_bytes v) kvs) ^ "]"

let parse_bcmd s =
  match split ':' s with
  | ["S"; k; v] -> CSet (bytes_of_hex k, bytes_of_hex v)
  | ["T"; k; v] -> CSetToTop (bytes_of_hex k, bytes_of_hex v)
  | ["U"; k; v] -> CUpdate (bytes_of_hex k, bytes_of_hex v)
  | ["P"; v] -> CMapAppend (bytes_of_hex v)
  | ["F"; k; v] -> CMapFailAt (bytes_of_hex k, bytes_of_hex v)
  | ["G"; k] -> CGet (bytes_of_hex k)
  | ["H"; k] -> CHas (bytes_of_hex k)
  | ["L"] -> CLen
  | ["E"] -> CEach
  | ["R"] -> CEachReverse
  | ["X"; k] -> CEachStopAt (bytes_of_hex k)
  | ["Y"; k] -> CEachReverseStopAt (bytes_of_hex k)
  | ["W"; v] -> CEachStopVal (bytes_of_hex v)
  | ["N"; k] -> CFindKey (bytes_of_hex k)
  | ["V"; v] -> CFindVal (bytes_of_hex v)
  | ["M"] -> CMarshal
  | _ -> failwith ("bad op " ^ s)

let parse_scmd s =
  match split ':' s with
  | ["A"; k] -> SAdd (bytes_of_hex k)
  | ["H"; k] -> SHas (bytes_of_hex k)
  | ["L"] -> SLen
  | ["D"] -> SData
  | _ -> failwith ("bad op " ^ s)

let script parse a = if a = "-" || a = "" then [] else Stdlib.List.map parse (split ',' a)

let () =
  Registry.register "omap" (fun a ->
    Stdlib.String.concat ";" (Stdlib.List.map obs_s (omap_script (script parse_bcmd (Stdlib.List.nth a 0)))));
  Registry.register "oset" (fun a ->
    let init = Stdlib.List.nth a 0 in
    let init = if init = "-" then [] else Stdlib.List.map bytes_of_hex (split '/' init) in
    Stdlib.String.concat ";" (Stdlib.List.map obs_s (oset_script init (script parse_scmd (Stdlib.List.nth a 1)))))
