(* command table of the model runner: name -> (args -> result line) *)
let tbl : (Stdlib.String.t, Stdlib.String.t list -> Stdlib.String.t) Hashtbl.t = Hashtbl.create 64
let register name f = Hashtbl.replace tbl name f
