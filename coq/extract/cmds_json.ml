(* C09, JSON text level: the model of encoding/json's string writer (model/JsonString.v).
   jsonkey <bytes> -> "<hex of json_quote s> <valid_utf8 s: 1|0> <hex of json_unquote (json_quote s), or !>"
   (the same line the harness prints from json.Marshal, utf8.ValidString and json.Unmarshal) *)
open Model
open Conv
let () =
  let r = Registry.register in
  r "jsonkey" (fun a ->
      let s = bytes_of_hex (Stdlib.List.nth a 0) in
      let q = json_quote s in
      hex_of_bytes q ^ " " ^ (if valid_utf8 s then "1" else "0") ^ " " ^
      (match json_unquote q with Some b -> hex_of_bytes b | None -> "!"));
  r "decoderune" (fun a ->
      let (c, w) = decode_rune (bytes_of_hex (Stdlib.List.nth a 0)) in
      Printf.sprintf "%d %d" (int_of_n c) (int_of_nat w))
