(* scanner model commands; the schema library's Len() is served by `harness oracle` *)
open Model
open Conv

let ask = Oracle.ask

let lexkind_i k = int_of_n (lexkind_idx k)

let render_scan ((lexs, e), _) =
  let ls = Stdlib.String.concat "," (Stdlib.List.map (fun l -> Printf.sprintf "%d:%d:%d" (lexkind_i l.lk) (int_of_n l.lb) (int_of_n l.le)) lexs) in
  ls ^ (match e with
      | SEof -> "|eof"
      | SErr (p, _) -> Printf.sprintf "|err:%d" (int_of_n p)
      | SPanic _ -> "|panic"
      | SFuel -> "|fuel")

let () =
  Registry.register "lex" (fun a ->
      let data = bytes_of_hex (Stdlib.List.nth a 0) in
      render_scan (scan (ask "schema") (ask "enum") data))

let () =
  Registry.register "trace" (fun a ->
      let data = bytes_of_hex (Stdlib.List.nth a 0) in
      Stdlib.String.concat "," (Stdlib.List.map (fun (p, st) -> Printf.sprintf "%d:%d" (int_of_n p) (int_of_n (state_idx st)))
                                  (scan_trace (ask "schema") (ask "enum") data)));
  (* the first (state, byte) of the regenerated table that fails the typing checks, or "none" *)
  Registry.register "findbad" (fun _ ->
      match find_bad gen_typing with
      | None -> if table_ok gen_typing then "none" else "none-but-table-not-ok"
      | Some ((st, c), _) -> Printf.sprintf "%d %d %s" (int_of_n (state_idx st)) (int_of_n c) (string_of_coq (state_name st)))
