(* C02: location arithmetic.  `location <hexcontent> <decimal index>` ->
   `line <n> quote <hex>` or `panic` *)
open Model
open Conv
let () =
  let r = Registry.register in
  r "location" (fun a ->
    let content = bytes_of_hex (Stdlib.List.nth a 0) in
    let i = n_of_int (int_of_string (Stdlib.List.nth a 1)) in
    match new_location content i with
    | GOk ((_, ln), q) -> Printf.sprintf "line %d quote %s" (int_of_n ln) (hex_of_bytes q)
    | GPanic w -> if string_of_coq w = "out of fuel" then "model-out-of-fuel" else "panic");
  r "detectnl" (fun a ->
    match detect_nl (bytes_of_hex (Stdlib.List.nth a 0)) with
    | GOk c -> string_of_int (int_of_n c)
    | GPanic w -> if string_of_coq w = "out of fuel" then "model-out-of-fuel" else "panic")
