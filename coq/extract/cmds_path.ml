(* C13: path parameters (model/PathParams.v)
     pathparams <hexpath>        -> ok [<hexprefix>:<hexname>,...] | empty | dup <hexname> | panic
     pathparams_raw <hexpath>    -> ok [<hexprefix>:<hexname>,...] | panic      (pathParameters, unchecked)
     splitpath <hexpath>         -> <hexseg>,<hexseg>,...  ("" for none)
     similar <hexpath> <hexpath> ...  -> ok | reject <idx> <hexmsg> | panic
   (paths registered in order on an empty similarPaths map) *)
open Model
open Conv
let pairs l = Stdlib.String.concat "," (Stdlib.List.map (fun (a, b) -> hex_of_bytes a ^ ":" ^ hex_of_bytes b) l)
let okpairs l = if l = [] then "ok" else "ok " ^ pairs l
let () =
  let r = Registry.register in
  r "pathparams" (fun a ->
    gres (function POk l -> okpairs l | PEmptyParam -> "empty" | PDup n -> "dup " ^ hex_of_bytes n)
      (path_parameters_checked (bytes_of_hex (Stdlib.List.nth a 0))));
  r "pathparams_raw" (fun a -> gres okpairs (path_parameters (bytes_of_hex (Stdlib.List.nth a 0))));
  r "splitpath" (fun a ->
    Stdlib.String.concat "," (Stdlib.List.map hex_of_bytes (split_path (bytes_of_hex (Stdlib.List.nth a 0)))));
  r "similar" (fun a ->
    gres (function RegOk _ -> "ok" | RegReject (i, m) -> Printf.sprintf "reject %d %s" (int_of_nat i) (hex_of_bytes m))
      (register_paths [] O (Stdlib.List.map bytes_of_hex a)))
