(* Extraction of the executable model to OCaml for the correspondence check.
   Only ExtrOcamlBasic is used: N, positive, nat, lists stay the extracted datatypes. *)
From Coq Require Import Extraction ExtrOcamlBasic.
From Coq Require Import List NArith String.
From JV.lib Require Import Bytes Paths.
From JV.gen Require Import IncludeName TagName DirectiveTables ScannerTable.
From JV.gen Require Import ScannerTyping.
From JV.model Require Import TableCheck Core Catalog ScannerSem TagTitle Params Jerr PathParams OrderedMap RulesBuilder Description AllOf JsonString.
From JV.spec Require Import AllOfSpec.

Extraction Language OCaml.
Extraction "Model.ml"
  Bytes.bs Bytes.replace_all Bytes.replace_first Bytes.path_escape Bytes.contains Bytes.split_byte
  Bytes.join_byte Bytes.trim Bytes.trim_left Bytes.trim_right
  Paths.clean Paths.join2 Paths.dir
  IncludeName.validateIncludeFileName TagName.tagName
  TagTitle.pathTagTitle
  Params.unescape_parameter Params.quote_param Params.accepts_quoted Params.quoted_reject_pos Params.quoted_lexeme_len Params.append_parameter Params.append_parameter_idx
  Jerr.new_location Jerr.detect_nl
  Description.description Description.annotation Description.trim_space
  OrderedMap.omap_script OrderedMap.oset_script
  RulesBuilder.rules_script
  PathParams.split_path PathParams.path_parameters PathParams.path_parameters_checked PathParams.register_paths
  AllOf.run_observe AllOf.run AllOf.observe AllOfSpec.spec_schema AllOfSpec.lib_ok AllOfSpec.compare_env AllOfSpec.env_root_level AllOfSpec.env_skeleton AllOfSpec.env_skeleton2 AllOfSpec.env_no_array_allof AllOfSpec.env_no_rpc_allof AllOfSpec.spec_tree_owner AllOfSpec.spec_fuel
  JsonString.json_quote JsonString.json_unquote JsonString.valid_utf8 JsonString.decode_rune
  Core.scan_forest Core.scan_forest_with Core.expand Core.expand_full Core.named Catalog.build Catalog.iid_string
  TableCheck.find_bad TableCheck.table_ok ScannerTyping.gen_typing
  ScannerSem.scan_trace ScannerSem.scan ScannerTable.lexkind_idx ScannerTable.state_idx ScannerTable.state_name
  DirectiveTables.all_kinds DirectiveTables.kind_idx DirectiveTables.kind_keyword DirectiveTables.root_allowed_list DirectiveTables.http_method_list DirectiveTables.context_table DirectiveTables.adder_kinds DirectiveTables.response_code_lo DirectiveTables.response_code_hi.
