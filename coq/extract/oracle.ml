(* the schema library Len() oracle: served by `harness oracle` over a pipe *)
open Model
open Conv

let oracle : (in_channel * out_channel) option ref = ref None
let oracle_calls = ref 0

let get_oracle () =
  match !oracle with
  | Some p -> p
  | None ->
    let exe = try Sys.getenv "VERIF_HARNESS" with Not_found -> "/verif/tools/harness" in
    let p = Unix.open_process (exe ^ " oracle") in
    oracle := Some p; p

let ask kind (b : n list) : len_result =
  let (ic, oc) = get_oracle () in
  incr oracle_calls;
  output_string oc (kind ^ " " ^ hex_of_bytes b ^ "\n"); flush oc;
  let line = input_line ic in
  match Stdlib.String.split_on_char ' ' line with
  | ["ok"; n] -> LenOk (n_of_int (int_of_string n))
  | ["err"; p] -> LenErr (n_of_int (int_of_string p), [])
  | _ -> failwith ("oracle: " ^ line)


(* property names of a flat object schema (a Path body), decided by the schema library *)
let ask_props (b : n list) : n list list option =
  let (ic, oc) = get_oracle () in
  incr oracle_calls;
  output_string oc ("props " ^ hex_of_bytes b ^ "\n"); flush oc;
  let line = input_line ic in
  match Stdlib.String.split_on_char ' ' line with
  | ["ok"; ks] -> Some (Stdlib.List.map bytes_of_hex (Stdlib.String.split_on_char ',' ks))
  | _ -> None
