(* C12: the allOf heap model (model/AllOf.v) and its specification (spec/AllOfSpec.v) run on a
   project given as text.

   <types> := "-" | tdef (";" tdef)*      tdef := name "=" (tree | "~")     ("~" = a type that is not jsight)
   <uses>  := "-" | udef (";" udef)*      udef := kind "=" tree
              kind: path query reqh req resph resp rpcp rpcr
   tree    := "o" ["<" name ("," name)* ">"] "{" [key ":" tree ("," key ":" tree)*] "}"
            | "a" ["<" name ("," name)* ">"] "[" [tree ("," tree)*] "]"
            | "s" ["<" name ("," name)* ">"]
   names and keys: one or more of A-Z a-z 0-9 _ @

   allof     <types> <uses>   library acceptance (lib_ok), then the Go stage:
                              "rej" | "ok <rendering> used=<lists>" | "err ..." | "panic" | "fuel"
   allofunit <types> <uses>   the Go stage alone (what ProcessAllOf does to a hand-built catalog)
   allofspec <types> <uses>   spec_tree of every schema: "spec <rendering>" ("?" where undefined)
   allofcmp  <types> <uses>   compare_env: agree | rejected | modelfails | differs:<schema number>
                              followed by the classes: " rootlevel=0|1 skeleton=0|1 skeleton2=0|1 arrays=0|1 rpc=0|1"
   rendering := schema (";" schema)* "|" schema (";" schema)*       (types | use sites)
   schema    := name ":" body          body := "{" kid,... "}" | "[" kid,... "]" | "s" | "~" | "?"
   kid       := key "<" inheritedFrom ">" [ "{" kid,... "}" | "[" kid,... "]" ]      (key empty for array items) *)
open Model
open Conv

let bytes_of_str (s : Stdlib.String.t) : n list =
  Stdlib.List.init (Stdlib.String.length s) (fun i -> n_of_int (Char.code s.[i]))
let str_of_bytes (b : n list) : Stdlib.String.t =
  Stdlib.String.concat "" (Stdlib.List.map (fun x -> Stdlib.String.make 1 (Char.chr (int_of_n x))) b)

(* recursive-descent parser over a string with a cursor *)
let is_name_char c = (c >= 'a' && c <= 'z') || (c >= 'A' && c <= 'Z') || (c >= '0' && c <= '9') || c = '_' || c = '@'

let parse_name s pos =
  let st = !pos in
  while !pos < Stdlib.String.length s && is_name_char s.[!pos] do incr pos done;
  if !pos = st then failwith ("name expected at " ^ string_of_int st);
  Stdlib.String.sub s st (!pos - st)

let peek s pos = if !pos < Stdlib.String.length s then s.[!pos] else '\000'
let expect s pos c = if peek s pos = c then incr pos else failwith (Printf.sprintf "'%c' expected at %d" c !pos)

let parse_names s pos =
  if peek s pos = '<' then begin
    incr pos;
    let acc = ref [parse_name s pos] in
    while peek s pos = ',' do incr pos; acc := parse_name s pos :: !acc done;
    expect s pos '>';
    Stdlib.List.rev_map bytes_of_str !acc
  end else []

let rec parse_tree s pos =
  match peek s pos with
  | 'o' ->
    incr pos;
    let ao = parse_names s pos in
    expect s pos '{';
    let kids = ref [] in
    if peek s pos <> '}' then begin
      let one () =
        let k = parse_name s pos in
        expect s pos ':';
        let t = parse_tree s pos in
        kids := (Some (bytes_of_str k), t) :: !kids in
      one ();
      while peek s pos = ',' do incr pos; one () done
    end;
    expect s pos '}';
    Tree (TObject, ao, Stdlib.List.rev !kids)
  | 'a' ->
    incr pos;
    let ao = parse_names s pos in
    expect s pos '[';
    let kids = ref [] in
    if peek s pos <> ']' then begin
      kids := [(None, parse_tree s pos)];
      while peek s pos = ',' do incr pos; kids := (None, parse_tree s pos) :: !kids done
    end;
    expect s pos ']';
    Tree (TArray, ao, Stdlib.List.rev !kids)
  | 's' ->
    incr pos;
    let ao = parse_names s pos in
    Tree (TOther, ao, [])
  | _ -> failwith ("tree expected at " ^ string_of_int !pos)

let parse_whole f s =
  let pos = ref 0 in
  let r = f s pos in
  if !pos <> Stdlib.String.length s then failwith ("trailing input at " ^ string_of_int !pos);
  r

let split c s = Stdlib.String.split_on_char c s

let kind_of = function
  | "path" -> UPath | "query" -> UQuery | "reqh" -> UReqHeaders | "req" -> UReqBody
  | "resph" -> URespHeaders | "resp" -> URespBody | "rpcp" -> URpcParams | "rpcr" -> URpcResult
  | k -> failwith ("bad kind " ^ k)
let kind_s = function
  | UPath -> "path" | UQuery -> "query" | UReqHeaders -> "reqh" | UReqBody -> "req"
  | URespHeaders -> "resph" | URespBody -> "resp" | URpcParams -> "rpcp" | URpcResult -> "rpcr"

let cut_eq d =
  match Stdlib.String.index_opt d '=' with
  | Some i -> (Stdlib.String.sub d 0 i, Stdlib.String.sub d (i + 1) (Stdlib.String.length d - i - 1))
  | None -> failwith ("'=' expected in " ^ d)

let parse_env a =
  let ts = Stdlib.List.nth a 0 and us = (if Stdlib.List.length a > 1 then Stdlib.List.nth a 1 else "-") in
  let types =
    if ts = "-" || ts = "" then [] else
      Stdlib.List.map (fun d ->
          let (n, b) = cut_eq d in
          (bytes_of_str n, if b = "~" then None else Some (parse_whole parse_tree b))) (split ';' ts) in
  let uses =
    if us = "-" || us = "" then [] else
      Stdlib.List.map (fun d -> let (k, b) = cut_eq d in (kind_of k, parse_whole parse_tree b)) (split ';' us) in
  { e_types = types; e_uses = uses }

let rec kid_s (RNode (k, tk, inh, ks)) =
  (match k with Some k -> str_of_bytes k | None -> "") ^ "<" ^ str_of_bytes inh ^ ">" ^
  (match tk with TObject -> "{" ^ kids_s ks ^ "}" | TArray -> "[" ^ kids_s ks ^ "]" | TOther -> "")
and kids_s ks = Stdlib.String.concat "," (Stdlib.List.map kid_s ks)

let body_s = function
  | None -> "?"
  | Some (RNode (_, tk, _, ks)) ->
    (match tk with TObject -> "{" ^ kids_s ks ^ "}" | TArray -> "[" ^ kids_s ks ^ "]" | TOther -> "s")

let names_s l = if l = [] then "-" else Stdlib.String.concat "," (Stdlib.List.map str_of_bytes l)

let obs_s o =
  let ts = Stdlib.List.map (fun (n, r) -> str_of_bytes n ^ ":" ^ (match r with None -> "~" | Some r -> body_s r)) o.o_types in
  let us = Stdlib.List.map (fun (k, r) -> kind_s k ^ ":" ^ body_s r) o.o_uses in
  "ok " ^ Stdlib.String.concat ";" ts ^ "|" ^ Stdlib.String.concat ";" us ^
  " used=" ^ Stdlib.String.concat ";" (Stdlib.List.map names_s o.o_used_types)

let err_s = function
  | ENotFound n -> "err notfound " ^ str_of_bytes n
  | ENotObject n -> "err notobject " ^ str_of_bytes n
  | EOverride (k, n) -> "err override " ^ str_of_bytes k ^ " " ^ str_of_bytes n
  | EInternal -> "err internal"

let run_s e =
  match run_observe e with
  | ROk o -> obs_s o
  | RErr x -> err_s x
  | RPanic _ -> "panic"
  | RFuel -> "fuel"

let b01 b = if b then "1" else "0"

let () =
  Registry.register "allofunit" (fun a -> run_s (parse_env a));
  Registry.register "allof" (fun a -> let e = parse_env a in if lib_ok e then run_s e else "rej");
  Registry.register "allofspec" (fun a ->
    let e = parse_env a in
    let ts = Stdlib.List.map (fun (n, t) -> str_of_bytes n ^ ":" ^ (match t with None -> "~" | Some t -> body_s (spec_schema e t))) e.e_types in
    let us = Stdlib.List.map (fun (k, t) -> kind_s k ^ ":" ^ body_s (spec_schema e t)) e.e_uses in
    "spec " ^ Stdlib.String.concat ";" ts ^ "|" ^ Stdlib.String.concat ";" us);
  Registry.register "allofowner" (fun a ->
    let e = parse_env a in
    let sp t = spec_tree_owner (spec_fuel e) e.e_types None t in
    let ts = Stdlib.List.map (fun (n, t) -> str_of_bytes n ^ ":" ^ (match t with None -> "~" | Some t -> body_s (sp t))) e.e_types in
    let us = Stdlib.List.map (fun (k, t) -> kind_s k ^ ":" ^ body_s (sp t)) e.e_uses in
    "spec " ^ Stdlib.String.concat ";" ts ^ "|" ^ Stdlib.String.concat ";" us);
  Registry.register "allofcmp" (fun a ->
    let e = parse_env a in
    (match compare_env e with
     | VAgree -> "agree"
     | VRejectedBoth -> "rejected"
     | VModelFails -> "modelfails"
     | VDiffers n -> "differs:" ^ string_of_int (int_of_nat n))
    ^ " rootlevel=" ^ b01 (env_root_level e) ^ " skeleton=" ^ b01 (env_skeleton e) ^ " skeleton2=" ^ b01 (env_skeleton2 e) ^ " arrays=" ^ b01 (negb (env_no_array_allof e))
    ^ " rpc=" ^ b01 (negb (env_no_rpc_allof e)))
