(* C16: the model of catalog.RulesBuilder / catalog.Rules (model/RulesBuilder.v) run on a script of calls.
   rules <init> <ops>
     init = "-"                        the script runs on newRulesBuilder(..)
          | "n:" k=v/k=v/...           on NewRules([Rule{Key:k, value v}, ...])  ("n:" alone: NewRules of nothing)
     ops  = comma-separated calls over hex strings ("-" = the empty string; "-" alone = empty script):
              S:k:j:v  Set(k, Rule{Key:j, value v})     A:j:v  Append(Rule{Key:j, value v})
              G:k Get   H:k Has   L Len   E Each   M MarshalJSON
              X:k Each, callback fails at the first rule with Key k   W:v ... with value v
   Output: the observable result of every call, joined by ';'. *)
open Model
open Conv

let split c s = Stdlib.String.split_on_char c s

let pair_s (k, v) = hex_of_bytes k ^ "=" ^ hex_of_bytes v

let robs_s = function
  | RONone -> "."
  | ROGet (GOk None) -> "none"
  | ROGet (GOk (Some kv)) -> "some:" ^ pair_s kv
  | ROGet (GPanic _) -> "panic"
  | ROBool b -> bool_s b
  | ROLen n -> string_of_int (int_of_nat n)
  | ROVisit (kvs, st) -> (if st then "stop:" else "full:") ^ "[" ^ Stdlib.String.concat "|" (Stdlib.List.map pair_s kvs) ^ "]"
  | ROPairs kvs -> "[" ^ Stdlib.String.concat "|" (Stdlib.List.map pair_s kvs) ^ "]"

let parse_rcmd s =
  match split ':' s with
  | ["S"; k; j; v] -> RCSet (bytes_of_hex k, bytes_of_hex j, bytes_of_hex v)
  | ["A"; j; v] -> RCAppend (bytes_of_hex j, bytes_of_hex v)
  | ["G"; k] -> RCGet (bytes_of_hex k)
  | ["H"; k] -> RCHas (bytes_of_hex k)
  | ["L"] -> RCLen
  | ["E"] -> RCEach
  | ["X"; k] -> RCEachStopKey (bytes_of_hex k)
  | ["W"; v] -> RCEachStopVal (bytes_of_hex v)
  | ["M"] -> RCMarshal
  | _ -> failwith ("bad op " ^ s)

let parse_init a =
  if a = "-" then None
  else if Stdlib.String.length a >= 2 && Stdlib.String.sub a 0 2 = "n:" then begin
    let rest = Stdlib.String.sub a 2 (Stdlib.String.length a - 2) in
    if rest = "" then Some []
    else Some (Stdlib.List.map (fun kv ->
      match split '=' kv with
      | [k; v] -> (bytes_of_hex k, bytes_of_hex v)
      | _ -> failwith ("bad init " ^ kv)) (split '/' rest))
  end else failwith ("bad init " ^ a)

let () =
  Registry.register "rules" (fun a ->
    let ops = Stdlib.List.nth a 1 in
    let cs = if ops = "-" || ops = "" then [] else Stdlib.List.map parse_rcmd (split ',' ops) in
    Stdlib.String.concat ";" (Stdlib.List.map robs_s (rules_script (parse_init (Stdlib.List.nth a 0)) cs)))
