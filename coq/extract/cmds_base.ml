open Model
open Conv
let () =
  let r = Registry.register in
  r "includename" (fun a -> gres (function None -> "ok" | Some _ -> "err") (validateIncludeFileName (bytes_of_hex (Stdlib.List.nth a 0))));
  r "includemsg" (fun a -> gres (function None -> "ok" | Some m -> "err " ^ hex_of_bytes m) (validateIncludeFileName (bytes_of_hex (Stdlib.List.nth a 0))));
  r "tagname" (fun a -> gres hex_of_bytes (tagName (bytes_of_hex (Stdlib.List.nth a 0))));
  r "clean" (fun a -> hex_of_bytes (clean (bytes_of_hex (Stdlib.List.nth a 0))));
  r "dir" (fun a -> hex_of_bytes (dir (bytes_of_hex (Stdlib.List.nth a 0))));
  r "join2" (fun a -> hex_of_bytes (join2 (bytes_of_hex (Stdlib.List.nth a 0)) (bytes_of_hex (Stdlib.List.nth a 1))));
  r "replace_all" (fun a -> hex_of_bytes (replace_all (bytes_of_hex (Stdlib.List.nth a 0)) (bytes_of_hex (Stdlib.List.nth a 1)) (bytes_of_hex (Stdlib.List.nth a 2))));
  r "replace_first" (fun a -> hex_of_bytes (replace_first (bytes_of_hex (Stdlib.List.nth a 0)) (bytes_of_hex (Stdlib.List.nth a 1)) (bytes_of_hex (Stdlib.List.nth a 2))));
  r "contains" (fun a -> bool_s (contains (bytes_of_hex (Stdlib.List.nth a 0)) (bytes_of_hex (Stdlib.List.nth a 1))));
  r "path_escape" (fun a -> hex_of_bytes (path_escape (bytes_of_hex (Stdlib.List.nth a 0))));
  r "split47" (fun a -> Stdlib.String.concat "," (Stdlib.List.map hex_of_bytes (split_byte (n_of_int 47) (bytes_of_hex (Stdlib.List.nth a 0)))))
