(* C15: description / annotation model commands *)
open Model
open Conv
let () =
  let r = Registry.register in
  let arg a i = bytes_of_hex (Stdlib.List.nth a i) in
  r "description" (fun a -> match description (arg a 0) with
    | (d, None) -> "ok " ^ hex_of_bytes d
    | (d, Some _) -> "err " ^ hex_of_bytes d);
  r "descriptionmsg" (fun a -> match description (arg a 0) with
    | (d, None) -> "ok " ^ hex_of_bytes d
    | (d, Some m) -> "err " ^ hex_of_bytes d ^ " " ^ hex_of_bytes m);
  r "annotation" (fun a -> hex_of_bytes (annotation (arg a 0)));
  r "trimspace" (fun a -> hex_of_bytes (trim_space (arg a 0)))
