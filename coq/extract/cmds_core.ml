(* core model commands: project scan and macro expansion (model/Core.v) *)
open Model
open Conv

let ask = Oracle.ask

let rec pairs = function a :: b :: r -> (a, b) :: pairs r | _ -> []

let parse_opts (o : Stdlib.String.t) =
  let ban = ref [] and stage = ref "full" in
  Stdlib.List.iter (fun kv ->
      match Stdlib.String.index_opt kv '=' with
      | Some i ->
        let k = Stdlib.String.sub kv 0 i and v = Stdlib.String.sub kv (i + 1) (Stdlib.String.length kv - i - 1) in
        if k = "ban" then ban := Stdlib.List.filter_map (fun n -> if n = "" then None else Some (int_of_string n)) (Stdlib.String.split_on_char '+' v)
        else if k = "stage" then stage := v
      | None -> ()) (Stdlib.String.split_on_char ',' o);
  (!ban, !stage)

let ends_with_slash (b : n list) = match Stdlib.List.rev b with x :: _ -> int_of_n x = 47 | [] -> false
let drop_last l = Stdlib.List.rev (Stdlib.List.tl (Stdlib.List.rev l))

let mk_fs args : (n list * fsentry) list =
  Stdlib.List.map (fun (n, c) ->
      let nb = bytes_of_hex n in
      if ends_with_slash nb then (drop_last nb, FDir) else (nb, FFile (bytes_of_hex c))) (pairs args)

let content_of fs name =
  match Stdlib.List.find_opt (fun (n, _) -> n = name) fs with
  | Some (_, FFile c) -> Some c
  | _ -> None

let line_of fs name at =
  match content_of fs name with
  | None -> "?"
  | Some c -> (match new_location c at with GOk ((_, ln), _) -> string_of_int (int_of_n ln) | GPanic _ -> "panic")

let render_trace fs (tr : (n list * n) list) =
  Stdlib.String.concat ";" (Stdlib.List.map (fun (f, at) -> hex_of_bytes f ^ ":" ^ line_of fs f at) tr)

let bytes_cmp (a : n list) (b : n list) = compare (Stdlib.List.map int_of_n a) (Stdlib.List.map int_of_n b)

let rec render_tree fs (t : dtree) : Stdlib.String.t =
  let DNode (d, kids) = t in
  let np = Stdlib.List.sort (fun (a, _) (b, _) -> bytes_cmp a b) d.d_named in
  Printf.sprintf "(%d kw=%s f=%s kb=%d ke=%d np=%s up=%s ann=%s body=%s x=%d tr=%s [%s])"
    (int_of_n (kind_idx d.d_kind)) (hex_of_bytes d.d_keyword) (hex_of_bytes d.d_kw.c_file)
    (int_of_n d.d_kw.c_beg) (int_of_n d.d_kw.c_end)
    (Stdlib.String.concat "," (Stdlib.List.map (fun (k, v) -> hex_of_bytes k ^ ":" ^ hex_of_bytes v) np))
    (Stdlib.String.concat "," (Stdlib.List.map hex_of_bytes d.d_unnamed))
    (hex_of_bytes d.d_annot)
    (match d.d_body with None -> "-" | Some c -> Printf.sprintf "%s:%d:%d" (hex_of_bytes c.c_file) (int_of_n c.c_beg) (int_of_n c.c_end))
    (if d.d_explicit then 1 else 0)
    (* the probe error of the harness walks the tracer innermost first *)
    (render_trace fs (Stdlib.List.rev d.d_trace))
    (Stdlib.String.concat "" (Stdlib.List.map (render_tree fs) kids))

let rec kind_name = function
  | CEScan _ -> "scan" | CENoDirective -> "nodirective" | CEUnknownDirective -> "unknowndirective"
  | CEJsightInInclude -> "jsightininclude" | CENotAllowed _ -> "notallowed" | CEIncorrectParam -> "incorrectparam"
  | CEParamDup -> "paramdup" | CEIncorrectContext -> "incorrectcontext" | CEIncorrectContextPath -> "incorrectcontextpath"
  | CENoExplicitToClose -> "noexplicit" | CENotAllClosed -> "notallclosed" | CEUnknownLexeme -> "unknownlexeme"
  | CEIncludeNoParam -> "includenoparam" | CEIncludeBadName -> "includebadname" | CEIncludeIsDir -> "includeisdir"
  | CEIncludeNotExist -> "includenotexist" | CEIncludeRecursion -> "includerecursion" | CEAnnotForbidden -> "annotforbidden"
  | CENameRequired -> "namerequired" | CEEmptyMacro -> "emptymacro" | CEDupName -> "dupname" | CERecursion -> "recursion"
  | CEMacroNotFound -> "macronotfound" | CEWrapped k -> "wrapped:" ^ kind_name k
  | CEMsg s -> "msg:" ^ Stdlib.String.map (fun c -> if c = ' ' then '_' else c) (string_of_coq s)

let string_of_bytes (b : n list) = Stdlib.String.concat "" (Stdlib.List.map (fun x -> Stdlib.String.make 1 (Char.chr (int_of_n x))) b)
let bytes_of_string (s : Stdlib.String.t) = Stdlib.List.init (Stdlib.String.length s) (fun i -> n_of_int (Char.code s.[i]))
let render_trace_plain fs tr =
  Stdlib.String.concat ";" (Stdlib.List.map (fun (f, at) -> string_of_bytes f ^ ":" ^ line_of fs f at) tr)
let render_err fs (e : cerr) =
  Printf.sprintf "err file=%s idx=%d line=%s kind=%s trace=%s" (hex_of_bytes e.ce_file) (int_of_n e.ce_idx)
    (line_of fs e.ce_file e.ce_idx) (kind_name e.ce_kind) (hex_of_bytes (bytes_of_string (render_trace_plain fs e.ce_trace)))

(* an unbounded fuel: the cyclic value S (S (S ...)) *)
let rec infinite_fuel = S infinite_fuel

let () =
  Registry.register "run" (fun a ->
      match a with
      | opts :: rest ->
        let (ban, stage) = parse_opts opts in
        let fs = mk_fs rest in
        let root = fst (Stdlib.List.hd fs) in
        let banned = Stdlib.List.filter_map (fun i -> Stdlib.List.nth_opt all_kinds i) ban in
        let r = scan_forest_with infinite_fuel (ask "schema") (ask "enum") fs banned root in
        let r = if stage = "expand" then (match r with COk ts -> expand ts | x -> x) else r in
        (match r with
         | COk ts -> "ok tree=" ^ Stdlib.String.concat "" (Stdlib.List.map (render_tree fs) ts)
         | CErr e -> render_err fs e
         | CPanic _ -> "panic"
         | CFuel -> "fuel")
      | [] -> "bad-request")
