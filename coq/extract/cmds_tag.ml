open Model
open Conv
let () =
  let r = Registry.register in
  r "pathtagtitle" (fun a -> hex_of_bytes (pathTagTitle (bytes_of_hex (Stdlib.List.nth a 0))))
