(* Driver for the extracted model: one command per input line ("cmd arg arg ..."),
   one result line per command.  Byte strings travel as hex ("-" = empty string).
   Commands are registered by the cmds_*.ml files. *)
let () =
  try
    while true do
      let line = input_line stdin in
      match Stdlib.String.split_on_char ' ' line with
      | [] | [""] -> print_newline ()
      | cmd :: args ->
        (match Hashtbl.find_opt Registry.tbl cmd with
         | Some f -> print_endline (try f args with Stack_overflow -> "model-stack-overflow" | Not_found -> "model-not-found" | Failure m -> "model-failure " ^ m)
         | None -> print_endline "unknown-command")
    done
  with End_of_file -> ()
