(* catalog skeleton (model/Catalog.v): the full-pipeline command of the model runner *)
open Model
open Conv
open Cmds_core

let hx = hex_of_bytes
let opt f = function None -> "~" | Some x -> f x
let join sep l = Stdlib.String.concat sep l
let ids l = if l = [] then "." else join "|" (Stdlib.List.map (fun i -> hx (iid_string i)) l)
let names l = if l = [] then "." else join "|" (Stdlib.List.map hx l)
let flag = function None -> "0" | Some _ -> "1"

let render_catalog (c : catalog) : Stdlib.String.t =
  let b = Buffer.create 1024 in
  let line s = Buffer.add_string b s; Buffer.add_char b '\n' in
  line ("J " ^ hx c.c_jsight);
  (match c.c_info with
   | None -> ()
   | Some i -> line (Printf.sprintf "I %s %s %s" (hx i.in_title) (hx i.in_version) (opt hx i.in_desc)));
  Stdlib.List.iter (fun (n, s) -> line (Printf.sprintf "S %s %s %s" (hx n) (hx s.s_annot) (hx s.s_base))) c.c_servers;
  Stdlib.List.iter (fun (n, t) -> line (Printf.sprintf "T %s %s %s" (hx n) (hx t.ut_annot) (hx t.ut_notation))) c.c_types;
  Stdlib.List.iter (fun (n, a) -> line (Printf.sprintf "E %s %s" (hx n) (hx a))) c.c_enums;
  Stdlib.List.iter (fun (n, t) -> line (Printf.sprintf "G %s %s %s %s %s" (hx n) (hx t.t_title) (opt hx t.t_desc) (ids t.t_http) (ids t.t_rpc))) c.c_tags;
  Stdlib.List.iter (fun (i, x) ->
      match x with
      | IHttp h ->
        let q = opt (fun q -> hx q.qu_format ^ ":" ^ hx q.qu_example) h.hi_query in
        let r = opt (fun r -> opt (fun b -> hx b.b_format) r.q_body ^ ":" ^ flag r.q_headers) h.hi_request in
        let p = if h.hi_responses = [] then "." else
            join ";" (Stdlib.List.map (fun r -> Printf.sprintf "%s:%s:%s:%s" (hx r.r_code) (hx r.r_annot) (opt (fun b -> hx b.b_format) r.r_body) (flag r.r_headers)) h.hi_responses) in
        line (Printf.sprintf "H %s %s %s %s %s %s Q=%s R=%s P=%s V=%s" (hx (iid_string i)) (hx i.i_method) (hx i.i_path)
                (hx h.hi_annot) (opt hx h.hi_desc) (names h.hi_tags) q r p (names h.hi_pathvars))
      | IRpc r ->
        line (Printf.sprintf "R %s %s %s %s %s %s %s %s" (hx (iid_string i)) (hx i.i_method) (hx i.i_path)
                (hx r.ri_annot) (opt hx r.ri_desc) (names r.ri_tags) (flag r.ri_params) (flag r.ri_result))) c.c_inters;
  Buffer.contents b

let body_text fs (c : coords) : n list =
  match content_of fs c.c_file with
  | None -> []
  | Some data ->
    let b = int_of_n c.c_beg and e = int_of_n c.c_end in
    Stdlib.List.filteri (fun i _ -> i >= b && i <= e) data

let rec find_enum_annot (ts : dtree list) (n : n list) : n list option =
  match ts with
  | [] -> None
  | DNode (d, kids) :: r ->
    if int_of_n (kind_idx d.d_kind) = 20 && named d (bytes_of_string "Name") = n then Some d.d_annot
    else (match find_enum_annot kids n with Some a -> Some a | None -> find_enum_annot r n)

let () =
  let old = Hashtbl.find Registry.tbl "run" in
  Registry.register "run" (fun a ->
      match a with
      | opts :: rest ->
        let (ban, stage) = parse_opts opts in
        if stage <> "full" then old a else begin
          let fs = mk_fs rest in
          let root = fst (Stdlib.List.hd fs) in
          let banned = Stdlib.List.filter_map (fun i -> Stdlib.List.nth_opt all_kinds i) ban in
          match scan_forest_with infinite_fuel (ask "schema") (ask "enum") fs banned root with
          | CErr e -> render_err fs e
          | CPanic _ -> "panic"
          | CFuel -> "fuel"
          | COk ts ->
            (match expand_full ts with
             | CErr e -> render_err fs e
             | CPanic _ -> "panic"
             | CFuel -> "fuel"
             | COk ((pre, post), m) ->
               let props c = Oracle.ask_props (body_text fs c) in
               (match build props (body_text fs) banned post with
                | CErr e -> render_err fs e
                | CPanic _ -> "panic"
                | CFuel -> "fuel"
                | COk c -> "ok skel=" ^ hex_of_bytes (bytes_of_string (render_catalog c))))
        end
      | [] -> "bad-request")
