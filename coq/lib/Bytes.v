(* Byte strings and hand-written models of the few Go standard-library string
   functions the repository's code depends on byte-for-byte.  They are validated
   against the real functions by the harness (`harness fn stdlib`). *)
From Coq Require Import List NArith Bool String Ascii Lia.
Import ListNotations.
Open Scope N_scope.

Definition byte := N.
Definition bytes := list N.

Fixpoint bs (s : string) : bytes :=
  match s with
  | EmptyString => []
  | String a r => N_of_ascii a :: bs r
  end.

(* Result of a Go computation that may panic at run time. *)
Inductive gres (A : Type) : Type :=
| GOk (a : A)
| GPanic (why : string).
Arguments GOk {A} a.
Arguments GPanic {A} why.

Definition gbind {A B} (x : gres A) (f : A -> gres B) : gres B :=
  match x with GOk a => f a | GPanic w => GPanic w end.

Fixpoint beq (a b : bytes) : bool :=
  match a, b with
  | [], [] => true
  | x :: a', y :: b' => (x =? y) && beq a' b'
  | _, _ => false
  end.

Lemma beq_eq a b : beq a b = true <-> a = b.
Proof.
  revert b; induction a as [|x a IH]; intros [|y b]; simpl; split; intro H;
    try reflexivity; try discriminate.
  - apply andb_true_iff in H as [H1 H2]. apply N.eqb_eq in H1. apply IH in H2. congruence.
  - injection H as -> ->. rewrite N.eqb_refl. simpl. apply IH. reflexivity.
Qed.

Lemma beq_refl a : beq a a = true.
Proof. apply beq_eq; reflexivity. Qed.

(* s[i] with Go's bounds check *)
Definition gidx (s : bytes) (i : nat) : gres N :=
  match nth_error s i with
  | Some b => GOk b
  | None => GPanic "index out of range"
  end.

Fixpoint has_prefix (p s : bytes) : bool :=
  match p, s with
  | [], _ => true
  | x :: p', y :: s' => (x =? y) && has_prefix p' s'
  | _ :: _, [] => false
  end.

(* strings.Contains(s, sub) *)
Fixpoint contains (sub s : bytes) : bool :=
  has_prefix sub s ||
  match s with
  | [] => false
  | _ :: s' => contains sub s'
  end.

(* strings.ContainsRune(s, r) for r < 0x80 (a single byte) *)
Definition contains_byte (c : N) (s : bytes) : bool := existsb (N.eqb c) s.

(* strings.ReplaceAll(s, old, new) for non-empty old: skip counts the bytes of a
   match still to be dropped *)
Fixpoint replace_all_go (old new s : bytes) (skip : nat) : bytes :=
  match s with
  | [] => []
  | c :: s' =>
    match skip with
    | S k => replace_all_go old new s' k
    | O =>
      if has_prefix old s
      then new ++ replace_all_go old new s' (List.length old - 1)
      else c :: replace_all_go old new s' 0
    end
  end.
Definition replace_all (old new s : bytes) : bytes := replace_all_go old new s 0.

(* strings.Replace(s, old, new, 1) for non-empty old *)
Fixpoint replace_first (old new s : bytes) : bytes :=
  match s with
  | [] => []
  | c :: s' =>
    if has_prefix old s then new ++ skipn (List.length old) s
    else c :: replace_first old new s'
  end.

(* strings.Split(s, sep) for a one-byte separator: always at least one piece *)
Fixpoint split_byte (sep : N) (s : bytes) : list bytes :=
  match s with
  | [] => [[]]
  | c :: s' =>
    if c =? sep then [] :: split_byte sep s'
    else match split_byte sep s' with
         | [] => [[c]]          (* unreachable *)
         | p :: ps => (c :: p) :: ps
         end
  end.

Fixpoint join_byte (sep : N) (l : list bytes) : bytes :=
  match l with
  | [] => []
  | [p] => p
  | p :: ps => p ++ sep :: join_byte sep ps
  end.

(* url.PathEscape: everything except unreserved and $&+=:@ becomes %XX (upper hex) *)
Definition is_alnum (c : N) : bool :=
  ((48 <=? c) && (c <=? 57)) || ((65 <=? c) && (c <=? 90)) || ((97 <=? c) && (c <=? 122)).

Definition path_unescaped (c : N) : bool :=
  is_alnum c ||
  (c =? 45) || (c =? 95) || (c =? 46) || (c =? 126) ||             (* - _ . ~ *)
  (c =? 36) || (c =? 38) || (c =? 43) || (c =? 61) || (c =? 58) || (c =? 64).  (* $ & + = : @ *)

Definition hex_digit (n : N) : N := if n <? 10 then 48 + n else 55 + n.  (* 0-9 A-F *)

Fixpoint path_escape (s : bytes) : bytes :=
  match s with
  | [] => []
  | c :: s' =>
    if path_unescaped c then c :: path_escape s'
    else 37 :: hex_digit (c / 16) :: hex_digit (c mod 16) :: path_escape s'
  end.

Definition is_byte (c : N) : bool := c <? 256.
Definition all_bytes (s : bytes) : bool := forallb is_byte s.

(* bytes.TrimLeft / TrimRight / Trim with an ASCII cutset *)
Fixpoint trim_left (cut : N -> bool) (s : bytes) : bytes :=
  match s with
  | c :: s' => if cut c then trim_left cut s' else s
  | [] => []
  end.
Definition trim_right (cut : N -> bool) (s : bytes) : bytes := rev (trim_left cut (rev s)).
Definition trim (cut : N -> bool) (s : bytes) : bytes := trim_right cut (trim_left cut s).

Definition trim_prefix (p s : bytes) : bytes :=
  if has_prefix p s then skipn (List.length p) s else s.

Definition in_set (l : list N) (c : N) : bool := existsb (N.eqb c) l.

Definition lines_of := split_byte 10.
