(* Model of path/filepath on Unix ('/'-separated paths): Clean, Join of two
   elements, Dir.  Validated against the real functions by `harness fn paths`. *)
From Coq Require Import List NArith Bool String Lia.
From JV.lib Require Import Bytes.
Import ListNotations.
Open Scope N_scope.

Definition p_slash : N := 47.
Definition p_dot : bytes := [46].
Definition p_dotdot : bytes := [46; 46].

Definition is_rooted (p : bytes) : bool :=
  match p with c :: _ => c =? p_slash | [] => false end.

(* out is the reversed stack of components already emitted *)
Fixpoint clean_go (rooted : bool) (comps : list bytes) (out : list bytes) : list bytes :=
  match comps with
  | [] => rev out
  | c :: cs =>
    if beq c [] || beq c p_dot then clean_go rooted cs out
    else if beq c p_dotdot then
      match out with
      | o :: out' =>
        if beq o p_dotdot then clean_go rooted cs (p_dotdot :: out)
        else clean_go rooted cs out'
      | [] => if rooted then clean_go rooted cs [] else clean_go rooted cs [p_dotdot]
      end
    else clean_go rooted cs (c :: out)
  end.

Definition clean_components (p : bytes) : list bytes :=
  clean_go (is_rooted p) (split_byte p_slash p) [].

Definition render (rooted : bool) (cs : list bytes) : bytes :=
  if rooted then p_slash :: join_byte p_slash cs
  else match cs with [] => p_dot | _ => join_byte p_slash cs end.

(* filepath.Clean *)
Definition clean (p : bytes) : bytes :=
  match p with
  | [] => p_dot
  | _ => render (is_rooted p) (clean_components p)
  end.

(* filepath.Join(a, b) *)
Definition join2 (a b : bytes) : bytes :=
  match a, b with
  | [], [] => []
  | [], _ => clean b
  | _, [] => clean a
  | _, _ => clean (a ++ p_slash :: b)
  end.

(* filepath.Dir: Clean(path[:lastSlash+1]) *)
Fixpoint upto_last_slash (p : bytes) : bytes :=
  match p with
  | [] => []
  | c :: p' =>
    if contains_byte p_slash p' then c :: upto_last_slash p'
    else if c =? p_slash then [c] else []
  end.
Definition dir (p : bytes) : bytes := clean (upto_last_slash p).
