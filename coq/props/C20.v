(* C20 — Locality, on the catalog model (model/Catalog.v): appending a declaration at the END of the
   document changes the catalog by exactly that declaration.  Nothing but theorem statements, each closed by
   `exact` of a lemma of proofs/LocalityProofs.v, each followed by Print Assumptions.

   [build pp bt banned post]: the catalog construction over the expanded forest [post] (first tree: JSIGHT).
   The Core-level part of C20 (an unused MACRO is inert) is unused_macro_inert in props of the macro
   component; it is not repeated here.

   PARTIAL in two respects (see the comments at the theorems): (1) position: only the END position is
   treated; insertion at an arbitrary top-level position needs that add_directive steps of different "field
   classes" commute up to the order of the collections - not proved; (2) TAG and HTTP methods: only one
   direction / one stage. *)
From Coq Require Import List NArith Bool String.
From JV.lib Require Import Bytes.
From JV.gen Require Import DirectiveTables TagName.
From JV.model Require Import ScannerSem Core TagTitle Catalog.
From JV.proofs Require Import CatalogProofs FaithfulProofs FaithfulExamples LocalityProofs OrderProofs FrameProofs InsertProofs TagFrameProofs TagInsertProofs LocalityExamples.
Import ListNotations.
Open Scope N_scope.

(* the fold over an appended forest *)
Theorem add_all_over_app : forall bt banned a b s,
  add_all bt banned (a ++ b) s = add_all bt banned a s >>=c add_all bt banned b.
Proof. exact add_all_app. Qed.
Print Assumptions add_all_over_app.

(* SERVER (FULL, both directions): the project with a childless SERVER appended is accepted iff the project
   without it is, the name is given and no server has it; the catalog is the old one with exactly that
   server appended to the servers *)
Theorem server_appended : forall pp bt banned first rest t c',
  tree_kids t = [] -> dk t = KServer -> kind_in KServer banned = false ->
  let n := named (tree_dir t) (bs "Name") in
  (build pp bt banned ((first :: rest) ++ [t]) = COk c' <->
   exists c, build pp bt banned (first :: rest) = COk c /\ n <> [] /\ ~ In n (map fst (c_servers c)) /\
             c' = upd_servers c (c_servers c ++ [(n, {| s_annot := d_annot (tree_dir t); s_base := [] |})])).
Proof. exact server_appended_lemma. Qed.
Print Assumptions server_appended.

(* TYPE (FULL at skeleton level, both directions): name given and new, notation known, a body when the
   notation needs one (the schema library's verdict on the body is outside the skeleton) *)
Theorem type_appended : forall pp bt banned first rest t c',
  tree_kids t = [] -> dk t = KType -> kind_in KType banned = false ->
  let d := tree_dir t in let n := named d (bs "Name") in
  (build pp bt banned ((first :: rest) ++ [t]) = COk c' <->
   exists c nt, build pp bt banned (first :: rest) = COk c /\ n <> [] /\ ~ In n (map fst (c_types c)) /\
     norm_notation (named d (bs "SchemaNotation")) = Some nt /\
     ((beq nt (bs "jsight") || beq nt (bs "regex")) && (match d_body d with None => true | Some _ => false end)) = false /\
     c' = upd_types c (c_types c ++ [(n, {| ut_annot := d_annot d; ut_notation := nt; ut_schema := schema_of d |})])).
Proof. exact type_appended_lemma. Qed.
Print Assumptions type_appended.

(* a childless root-level GET/POST/.. (PARTIAL: one direction).  Accepted with it => accepted without it, and
   the catalog is the old one plus the interaction (annotation, the single automatic tag, nothing else) at the
   end of the interactions, plus its id in the automatic tag (appended as a new tag when the name is new).
   MISSING for the converse: acceptance also depends on the run-wide path sets (similar paths, path
   parameters), which the catalog does not show; stating it needs the state of the fold. *)
Theorem http_method_appended_partial : forall pp bt banned first rest t c',
  tree_kids t = [] -> is_http_method (dk t) = true ->
  build pp bt banned ((first :: rest) ++ [t]) = COk c' ->
  exists c p pv, build pp bt banned (first :: rest) = COk c /\ path_of (tree_dir t) [] = PathOk p /\
    let i := {| i_proto := PHttp; i_method := method_name (dk t); i_path := p |} in
    let n := auto_tag_name p in
    ~ In i (map fst (c_inters c)) /\
    c_inters c' = c_inters c ++ [(i, IHttp {| hi_annot := d_annot (tree_dir t); hi_desc := None; hi_tags := [n]; hi_query := None;
                                               hi_request := None; hi_responses := []; hi_pathvars := pv |})] /\
    c_tags c' = om_update beq (if om_has beq (c_tags c) n then c_tags c else c_tags c ++ [(n, auto_tag i)]) n
                          (fun tg => tag_add_iid tg i) /\
    c_servers c' = c_servers c /\ c_types c' = c_types c /\ c_enums c' = c_enums c /\
    c_info c' = c_info c /\ c_jsight c' = c_jsight c.
Proof. exact http_method_appended_partial_lemma. Qed.
Print Assumptions http_method_appended_partial.

(* TAG (PARTIAL: the collect stage only): the declared tags the fold starts from are the old ones plus the
   new one at their end.  MISSING: that the fold over the old forest behaves the same with one more, unused,
   declared tag (a simulation of every add_directive step under an extra key of the tag collection); note
   that a new TAG is NOT inert in general: it captures the automatic tag of the same name
   (C19 declared_tag_captures_automatic) and makes `Tags` directives naming it acceptable. *)
Theorem tag_appended_partial : forall ts t tg',
  dk t = KTAG ->
  (collect_tags (ts ++ [t]) [] = COk tg' <->
   exists tg, collect_tags ts [] = COk tg /\ named (tree_dir t) (bs "TagName") <> [] /\
              ~ In (named (tree_dir t) (bs "TagName")) (map fst tg) /\ tg' = tg ++ [tag_entry t]).
Proof. exact tag_appended_partial_lemma. Qed.
Print Assumptions tag_appended_partial.

(* the general step behind these: a childless node that no collect pass looks at, appended at the end *)
Theorem build_with_leaf_appended : forall pp bt banned first rest t c',
  plain_leaf t ->
  (build pp bt banned ((first :: rest) ++ [t]) = COk c' <->
   d_kind (tree_dir first) = KJsight /\
   exists en tg pvs b all b',
     stages pp bt banned (first :: rest) en tg pvs b all /\
     check_dup_types [t] (dup_seen (first :: rest) []) = COk tt /\
     add_directive bt banned t [] b = COk b' /\
     validate (set_pathvars (b_cat b') all) = COk c').
Proof. exact build_snoc_leaf. Qed.
Print Assumptions build_with_leaf_appended.

(* the hypotheses are satisfiable (the document of C04's example, with a SERVER / a TYPE / a GET appended) *)
Theorem locality_example :
  exists c c1 c2 c3,
    ex_build ex_full_forest = COk c /\
    ex_build (ex_full_forest ++ [ex_new_server]) = COk c1 /\
    c1 = upd_servers c (c_servers c ++ [(bs "@s2", {| s_annot := bs "second"; s_base := [] |})]) /\
    ex_build (ex_full_forest ++ [ex_new_type]) = COk c2 /\
    map fst (c_types c2) = map fst (c_types c) ++ [bs "@dog"] /\
    ex_build (ex_full_forest ++ [ex_new_get]) = COk c3 /\
    map fst (c_inters c3) = map fst (c_inters c) ++ [{| i_proto := PHttp; i_method := bs "GET"; i_path := bs "/birds/{id}" |}] /\
    map fst (c_tags c3) = map fst (c_tags c) ++ [bs "@birds"] /\
    (exists e, ex_build ((ex_full_forest ++ [ex_new_server]) ++ [ex_new_server]) = CErr e /\ ce_kind e = CEMsg "duplicate names"%string).
Proof. exact LocalityExamples.locality_example. Qed.
Print Assumptions locality_example.

(* ======================================================================================= *)
(* clause (b): a childless declaration at an ARBITRARY top-level position (proofs/FrameProofs.v,
   InsertProofs.v).  Each theorem is an equivalence; read from left to right it is INSERTION, read from right
   to left it is REMOVAL of a declaration: the project with the declaration is accepted iff the project
   without it is accepted (and the name is given and not used), and the two catalogs differ by exactly that
   entry, which stands where the declaration stands among the entries of its collection.

   The frame facts behind them (FrameProofs.v): no step except SERVER / BaseUrl reads or writes the servers;
   no step except TYPE reads or writes the user types; no step at all reads or writes the enums. *)

Theorem steps_do_not_touch_servers : forall bt banned S t anc b,
  dk t <> KServer -> dk t <> KBaseURL ->
  add_directive bt banned t anc (set_srv S b) = cmap (set_srv S) (add_directive bt banned t anc b).
Proof. exact add_directive_srv. Qed.
Print Assumptions steps_do_not_touch_servers.

Theorem steps_do_not_touch_types : forall bt banned S t anc b,
  dk t <> KType ->
  add_directive bt banned t anc (set_typ S b) = cmap (set_typ S) (add_directive bt banned t anc b).
Proof. exact add_directive_typ. Qed.
Print Assumptions steps_do_not_touch_types.

Theorem steps_do_not_touch_enums : forall bt banned S t anc b,
  add_directive bt banned t anc (set_enum S b) = cmap (set_enum S) (add_directive bt banned t anc b).
Proof. exact add_directive_enum. Qed.
Print Assumptions steps_do_not_touch_enums.

(* SERVER anywhere.  Hypothesis srv_step_ok n over the trees AFTER the position: no later SERVER is named n
   and no later BaseUrl stands under a directive named n; it is decidable, and in a forest that respects the
   context table it follows from n being new (a BaseUrl stands under a SERVER, and a second SERVER named n
   is rejected).  l1 = the servers declared before the position (their names: server_names of those trees). *)
Theorem server_inserted : forall pp bt banned first a t b c',
  tree_kids t = [] -> dk t = KServer -> kind_in KServer banned = false ->
  let n := named (tree_dir t) (bs "Name") in
  let e := (n, {| s_annot := d_annot (tree_dir t); s_base := [] |}) in
  (forall p, In p (positions_all b) -> srv_step_ok n (fst p) (snd p)) ->
  (build pp bt banned ((first :: a) ++ t :: b) = COk c' <->
   exists c l1 l2, build pp bt banned ((first :: a) ++ b) = COk c /\ n <> [] /\ ~ In n (map fst (c_servers c)) /\
     c_servers c = l1 ++ l2 /\ map fst l1 = server_names (positions_all (first :: a)) /\
     c' = upd_servers c (l1 ++ e :: l2)).
Proof. exact server_inserted_lemma. Qed.
Print Assumptions server_inserted.

(* TYPE anywhere (skeleton level).  typ_step_ok n: no later TYPE is named n (follows from n being new). *)
Theorem type_inserted : forall pp bt banned first a t b c',
  tree_kids t = [] -> dk t = KType -> kind_in KType banned = false ->
  let d := tree_dir t in let n := named d (bs "Name") in
  (forall p, In p (positions_all b) -> typ_step_ok n (fst p) (snd p)) ->
  (build pp bt banned ((first :: a) ++ t :: b) = COk c' <->
   exists c nt l1 l2, build pp bt banned ((first :: a) ++ b) = COk c /\ n <> [] /\ ~ In n (map fst (c_types c)) /\
     norm_notation (named d (bs "SchemaNotation")) = Some nt /\
     ((beq nt (bs "jsight") || beq nt (bs "regex")) && (match d_body d with None => true | Some _ => false end)) = false /\
     c_types c = l1 ++ l2 /\ map fst l1 = type_names (positions_all (first :: a)) /\
     c' = upd_types c (l1 ++ (n, {| ut_annot := d_annot d; ut_notation := nt; ut_schema := schema_of d |}) :: l2)).
Proof. exact type_inserted_lemma. Qed.
Print Assumptions type_inserted.

(* ENUM (with a body) anywhere: no side hypothesis at all *)
Theorem enum_inserted : forall pp bt banned first a t b c',
  tree_kids t = [] -> enum_node t = true -> kind_in KEnum banned = false ->
  let n := named (tree_dir t) (bs "Name") in
  (build pp bt banned ((first :: a) ++ t :: b) = COk c' <->
   exists c, build pp bt banned ((first :: a) ++ b) = COk c /\ n <> [] /\ ~ In n (map fst (c_enums c)) /\
     c' = upd_enums c (map enum_entry (filter enum_node ((first :: a) ++ t :: b)))).
Proof. exact enum_inserted_lemma. Qed.
Print Assumptions enum_inserted.

(* NOT DONE: TAG at an arbitrary position (under "no automatic tag and no Tags directive uses the name"): it
   needs the analogue of step_srel for the tag collection through tags_for / tags_from_directive / Description
   under TAG; the collect stage is tag_appended_partial. *)

Theorem insertion_example :
  exists c c1 c2 c3,
    ex_build ex_full_forest = COk c /\
    ex_build (ex_mid 2 ex_new_server) = COk c1 /\ map fst (c_servers c1) = [bs "@s2"; bs "@s"] /\
    c1 = upd_servers c (c_servers c1) /\
    ex_build (ex_mid 4 ex_new_type) = COk c2 /\ map fst (c_types c2) = [bs "@dog"; bs "@cat"] /\
    ex_build (ex_mid 7 ex_new_enum) = COk c3 /\ c_enums c3 = [(bs "@e", []); (bs "@e2", bs "two")] /\
    c3 = upd_enums c (c_enums c3).
Proof. exact LocalityExamples.insertion_example. Qed.
Print Assumptions insertion_example.

(* ======================================================================================= *)
(* clause (b), TAG (proofs/TagFrameProofs.v, TagInsertProofs.v).  Only GET/POST/../Method (tags_for), Tags
   (CheckTags) and Description read or write the tag collection: *)
Theorem steps_do_not_touch_tags : forall bt banned S t anc b,
  tag_kind (dk t) = false ->
  add_directive bt banned t anc (set_tag S b) = cmap (set_tag S) (add_directive bt banned t anc b).
Proof. exact add_directive_tag. Qed.
Print Assumptions steps_do_not_touch_tags.

(* TAG anywhere, under the hypothesis that NOTHING uses the name n (tag_step_ok n at every position of the
   forest; decidable): no Tags directive names n, no interaction without a deciding Tags directive has the
   automatic tag name n, no Description stands under a TAG named n.  Both directions (insertion / removal);
   l1 = the tags declared before the position. *)
Theorem tag_inserted : forall pp bt banned first a t b c',
  tree_kids t = [] -> tag_node t = true -> kind_in KTAG banned = false ->
  let n := named (tree_dir t) (bs "TagName") in
  (forall p, In p (positions_all ((first :: a) ++ b)) -> tag_step_ok n (fst p) (snd p)) ->
  (build pp bt banned ((first :: a) ++ t :: b) = COk c' <->
   exists c l1 l2, build pp bt banned ((first :: a) ++ b) = COk c /\ n <> [] /\
     ~ In n (map fst (map tag_entry (filter tag_node ((first :: a) ++ b)))) /\
     c_tags c = l1 ++ l2 /\ map fst l1 = map fst (map tag_entry (filter tag_node (first :: a))) /\
     c' = upd_tags c (l1 ++ tag_entry t :: l2)).
Proof. exact tag_inserted_lemma. Qed.
Print Assumptions tag_inserted.

Theorem tag_insertion_example :
  exists c c1, ex_build ex_full_forest = COk c /\ ex_build (ex_mid 2 ex_new_tag) = COk c1 /\
    map fst (c_tags c) = [bs "@pets"; bs "@dogs"; bs "@rpc"] /\
    map fst (c_tags c1) = [bs "@zz"; bs "@pets"; bs "@dogs"; bs "@rpc"] /\ c1 = upd_tags c (c_tags c1).
Proof. exact LocalityExamples.tag_insertion_example. Qed.
Print Assumptions tag_insertion_example.
