(* C09 — the catalog that is serialised is self-consistent (skeleton level).  Nothing but theorem
   statements, each closed by `exact` of a lemma proved in proofs/CatalogProofs.v, each followed by
   Print Assumptions.

   Model: model/Catalog.v (hand-written, skeleton level: schemas are opaque descriptors), tied to
   the implementation by the full-pipeline correspondence check (verifsys/checks/c09.py,
   verifsys/corecheck.py compare_full).  [build pp bt banned post = COk c]: c is the catalog of
   an accepted project whose expanded directive forest is [post].

   What is NOT covered here (decided by the schema library, outside the skeleton): validity of the
   UTF-8 / JSON text itself, equality of the indented and compact forms, the content of schemas and
   the usedUserTypes / usedUserEnums lists.  These are checked on the implementation's output by the
   dynamic part of the check. *)
From Coq Require Import List NArith Bool String.
From JV.lib Require Import Bytes.
From JV.gen Require Import DirectiveTables TagName.
From JV.model Require Import ScannerSem Core TagTitle Catalog JsonString.
From JV.proofs Require Import CatalogProofs JsonStringProofs JsonKeyProofs.
Import ListNotations.
Open Scope N_scope.

(* ---- no repeated key in any of the five ordered maps (keys compared as byte strings / as ids) ---- *)
Theorem keys_unique : forall pp bt banned post c,
  build pp bt banned post = COk c ->
  NoDup (map fst (c_servers c)) /\ NoDup (map fst (c_types c)) /\ NoDup (map fst (c_enums c)) /\
  NoDup (map fst (c_tags c)) /\ NoDup (map fst (c_inters c)).
Proof. exact keys_unique_lemma. Qed.
Print Assumptions keys_unique.

(* the enum collection the fold starts from (collectRules over the expanded forest) *)
Theorem enum_names_unique : forall ts en,
  collect_enums ts [] = COk en -> NoDup (map fst en).
Proof. exact enum_names_unique_lemma. Qed.
Print Assumptions enum_names_unique.

(* ---- the JSON key of an interaction: InteractionID.String() ---- *)

(* HTTP ids: the key determines protocol, method and path *)
Theorem http_id_string_injective : forall i1 i2,
  i_proto i1 = PHttp -> i_proto i2 = PHttp ->
  http_method_name (i_method i1) -> http_method_name (i_method i2) ->
  iid_string i1 = iid_string i2 -> i1 = i2.
Proof. exact http_id_string_injective_lemma. Qed.
Print Assumptions http_id_string_injective.

(* any two ids whose method part has no space *)
Theorem id_string_injective_without_space : forall i1 i2,
  ~ In 32 (i_method i1) -> ~ In 32 (i_method i2) ->
  iid_string i1 = iid_string i2 -> i1 = i2.
Proof. exact iid_string_injective_nospace. Qed.
Print Assumptions id_string_injective_without_space.

(* REFUTED for JSON-RPC ids: ("x /b", "/a") and ("x", "/b /a") are different ids (different keys of
   the Interactions map) with the same String() *)
Theorem rpc_id_string_not_injective_refuted :
  rpc_id_a <> rpc_id_b /\ iid_eqb rpc_id_a rpc_id_b = false /\ iid_string rpc_id_a = iid_string rpc_id_b.
Proof. exact rpc_id_string_collision. Qed.
Print Assumptions rpc_id_string_not_injective_refuted.

(* ... and the document  JSIGHT 0.3 / URL /a {Protocol json-rpc-2.0, Method "x /b"} /
   URL "/b /a" {Protocol json-rpc-2.0, Method x}  is accepted with two interactions under ONE JSON key.
   "no repeated key in any object" is false for the implementation (replayed: see c09.py). *)
Theorem json_keys_unique_refuted :
  exists c x1 x2, ex_build ex_rpc_forest = COk c /\
    c_inters c = [(rpc_id_a, x1); (rpc_id_b, x2)] /\
    map (fun e => iid_string (fst e)) (c_inters c) = [bs "json-rpc-2.0 x /b /a"; bs "json-rpc-2.0 x /b /a"].
Proof. exact rpc_json_key_repeated. Qed.
Print Assumptions json_keys_unique_refuted.

(* FULL statement (false, see above):
     forall ..., build ... = COk c -> NoDup (map (fun e => iid_string (fst e)) (c_inters c)).
   Strongest true statement: under the guard that no JSON-RPC method name contains a space.
   MISSING for the JSON text level: iid_string is the Go string; encoding/json then writes U+FFFD for
   every byte that is not valid UTF-8, which is not injective (GET /a\xff and GET /a\xfe become one
   key: found by the dynamic part, class invalid-utf8-key).  That encoder is modelled in
   model/JsonString.v and the statement is lifted to the JSON text, under the additional guard "the key
   is valid UTF-8", in the last part of this file (json_text_keys_unique_partial). *)
Theorem json_keys_unique_partial : forall pp bt banned post c,
  build pp bt banned post = COk c ->
  (forall i x, In (i, x) (c_inters c) -> i_proto i = PRpc -> ~ In 32 (i_method i)) ->
  NoDup (map (fun e => iid_string (fst e)) (c_inters c)).
Proof. exact json_keys_unique_partial_lemma. Qed.
Print Assumptions json_keys_unique_partial.

(* ---- every interaction's key is its id and encodes protocol, method and path ---- *)
Theorem ids_consistent : forall pp bt banned post c,
  build pp bt banned post = COk c ->
  forall i x, In (i, x) (c_inters c) ->
    iproto x = i_proto i /\ has_slash_prefix (i_path i) = true /\
    (i_proto i = PHttp -> http_method_name (i_method i) /\
                          iid_string i = bs "http " ++ i_method i ++ [32] ++ i_path i) /\
    (i_proto i = PRpc -> iid_string i = bs "json-rpc-2.0 " ++ i_method i ++ [32] ++ i_path i) /\
    exists t anc, occurs post t anc /\ made_by t anc i.
Proof. exact ids_consistent_lemma. Qed.
Print Assumptions ids_consistent.

(* ---- tags and interactions reference each other mutually ----
   tl p tg = the interaction list of tag tg for protocol p (t_http / t_rpc) *)
Theorem tags_mutual : forall pp bt banned post c,
  build pp bt banned post = COk c ->
  (forall i x n, In (i, x) (c_inters c) -> In n (itags x) ->
     exists tg, In (n, tg) (c_tags c) /\ In i (tl (i_proto i) tg)) /\
  (forall n tg p j, In (n, tg) (c_tags c) -> In j (tl p tg) ->
     i_proto j = p /\ exists x, In (j, x) (c_inters c) /\ In n (itags x)).
Proof. exact tags_mutual_lemma. Qed.
Print Assumptions tags_mutual.

(* ---- every request and every response has a body (validateRequestBody / validateResponseBody) ---- *)
Theorem bodies_present : forall pp bt banned post c,
  build pp bt banned post = COk c ->
  (forall i h rq, In (i, IHttp h) (c_inters c) -> hi_request h = Some rq -> exists b, q_body rq = Some b) /\
  (forall i h r, In (i, IHttp h) (c_inters c) -> In r (hi_responses h) -> exists b, r_body r = Some b).
Proof. exact bodies_present_lemma. Qed.
Print Assumptions bodies_present.

(* ---- ... whose format matches its notation ----
   body_ok b: b_format b = format_of n for a notation n in {jsight, regex, any, empty}
   (json <-> jsight, plainString <-> regex, binary <-> any/empty), where a body without schema text has
   n in {any, empty} and a body that is a type reference has n = jsight *)
Theorem format_matches_notation : forall pp bt banned post c,
  build pp bt banned post = COk c ->
  forall i h, In (i, IHttp h) (c_inters c) ->
    (forall rq b, hi_request h = Some rq -> q_body rq = Some b -> body_ok b) /\
    (forall r b, In r (hi_responses h) -> r_body r = Some b -> body_ok b).
Proof. exact format_matches_notation_lemma. Qed.
Print Assumptions format_matches_notation.

(* ---- Title() ---- *)
Theorem title_is_info_title : forall c,
  japi_title c = match c_info c with Some i => in_title i | None => [] end.
Proof. exact title_is_info_title_lemma. Qed.
Print Assumptions title_is_info_title.

(* ================= the JSON text level: keys as encoding/json writes them =================
   Model: model/JsonString.v.  json_quote s is what json.Marshal makes of the Go string s
   (appendString with escapeHTML = true: the two quotes; a backslash before a quote or a backslash;
   \n \r \t \b \f; \u00XX for the other control bytes and for < > &; \u2028 and \u2029 for these two code
   points; \ufffd for every byte that starts no valid UTF-8 sequence; everything
   else copied).  The generated ordered maps (catalog/*_gen.go MarshalJSON) write every key with
   json.Marshal(k); the model is compared on every run (c09.py stage_json_keys) with json.Marshal,
   utf8.Valid, json.Unmarshal, with the key texts of one-entry Servers / UserTypes / UserRules / Tags /
   Interactions collections inside Catalog.ToJson, and with the interaction keys of whole projects.
   Proofs: proofs/JsonStringProofs.v, proofs/JsonKeyProofs.v.

   Covered: the TEXT of every key of the five ordered maps.  NOT covered: the JSON text around the keys
   (values, nesting, the fixed member names of the structs), the equality of the indented and compact
   forms, schema contents; these stay with the dynamic part. *)
(* the reader gives back every valid UTF-8 string.  The byte-range hypothesis of lib/Bytes.v
   (all_bytes s = true) is not assumed: it follows from valid_utf8 (next theorem) *)
Theorem json_unquote_quote : forall s,
  valid_utf8 s = true -> json_unquote (json_quote s) = Some s.
Proof. exact unquote_quote. Qed.
Print Assumptions json_unquote_quote.

Theorem valid_utf8_is_bytes : forall s, valid_utf8 s = true -> all_bytes s = true.
Proof. exact valid_utf8_all_bytes. Qed.
Print Assumptions valid_utf8_is_bytes.

Theorem json_quote_injective_on_valid_utf8 : forall a b,
  valid_utf8 a = true -> valid_utf8 b = true -> json_quote a = json_quote b -> a = b.
Proof. exact JsonStringProofs.json_quote_injective_on_valid_utf8. Qed.
Print Assumptions json_quote_injective_on_valid_utf8.

(* REFUTED without "valid UTF-8": /a\xff and /a\xfe are different byte strings with one JSON text
   (the recorded finding C09/invalid-utf8-key-collapse) *)
Theorem json_quote_not_injective_refuted :
  collapse_a <> collapse_b /\ all_bytes collapse_a = true /\ all_bytes collapse_b = true /\
  valid_utf8 collapse_a = false /\ valid_utf8 collapse_b = false /\
  json_quote collapse_a = json_quote collapse_b /\
  json_quote collapse_a = [34; 47; 97; 92; 117; 102; 102; 102; 100; 34].
Proof. exact JsonStringProofs.json_quote_not_injective_refuted. Qed.
Print Assumptions json_quote_not_injective_refuted.

(* for EVERY byte string, valid or not: the text of a key holds no raw control byte and nothing that
   is no byte ... *)
Theorem json_key_text_printable : forall s, Forall (fun b => 32 <= b < 256) (json_quote s).
Proof. exact json_quote_printable. Qed.
Print Assumptions json_key_text_printable.

(* ... is valid UTF-8 ... *)
Theorem json_key_text_valid_utf8 : forall s, valid_utf8 (json_quote s) = true.
Proof. exact json_quote_valid_utf8. Qed.
Print Assumptions json_key_text_valid_utf8.

(* ... and cannot break out of its string: in any text that continues after it, a JSON string lexer
   that has consumed the opening quote (string_rest: a backslash hides the next byte, the first quote
   not hidden closes) stops exactly at the closing quote json_quote wrote *)
Theorem json_key_text_delimited : forall s t,
  exists o, json_quote s ++ t = 34 :: o ++ 34 :: t /\ string_rest (o ++ 34 :: t) = Some t.
Proof. exact json_quote_delimited. Qed.
Print Assumptions json_key_text_delimited.

Theorem json_key_text_length : forall s,
  (List.length s + 2 <= List.length (json_quote s) <= 6 * List.length s + 2)%nat.
Proof. exact json_quote_length. Qed.
Print Assumptions json_key_text_length.

(* ---- no repeated key in the JSON text of "interactions" ----
   FULL statement (false): forall ..., build ... = COk c ->
     NoDup (map (fun e => json_quote (iid_string (fst e))) (c_inters c)).
   It fails for two reasons, each with a witness: JSON-RPC method names with a space
   (json_keys_unique_refuted) and ids that are not valid UTF-8 (json_text_keys_unique_refuted below).
   Strongest true statement: under both guards.  What is missing for the whole property is not in
   this statement but around it (see the head of this part). *)
Theorem json_text_keys_unique_partial : forall pp bt banned post c,
  build pp bt banned post = COk c ->
  (forall i x, In (i, x) (c_inters c) -> i_proto i = PRpc -> ~ In 32 (i_method i)) ->
  (forall i x, In (i, x) (c_inters c) -> valid_utf8 (iid_string i) = true) ->
  NoDup (map (fun e => json_quote (iid_string (fst e))) (c_inters c)).
Proof. exact json_text_keys_unique_partial_lemma. Qed.
Print Assumptions json_text_keys_unique_partial.

(* the same with the guard on what the document says: method names and paths *)
Theorem json_text_keys_unique_by_parts_partial : forall pp bt banned post c,
  build pp bt banned post = COk c ->
  (forall i x, In (i, x) (c_inters c) -> i_proto i = PRpc -> ~ In 32 (i_method i)) ->
  (forall i x, In (i, x) (c_inters c) -> valid_utf8 (i_method i) = true /\ valid_utf8 (i_path i) = true) ->
  NoDup (map (fun e => json_quote (iid_string (fst e))) (c_inters c)).
Proof. exact json_text_keys_unique_by_parts_lemma. Qed.
Print Assumptions json_text_keys_unique_by_parts_partial.

(* REFUTED without the second guard: JSIGHT 0.3 / GET /a\xff {200 any} / GET /a\xfe {200 any} is accepted
   with two interactions, two different ids with two different String()s, and ONE JSON key *)
Theorem json_text_keys_unique_refuted :
  exists c x1 x2, ex_build ex_utf8_forest = COk c /\
    c_inters c = [(ex_id_ff, x1); (ex_id_fe, x2)] /\
    ex_id_ff <> ex_id_fe /\ iid_string ex_id_ff <> iid_string ex_id_fe /\
    map (fun e => json_quote (iid_string (fst e))) (c_inters c) =
      [bs """http GET /a\ufffd"""; bs """http GET /a\ufffd"""].
Proof. exact utf8_json_key_repeated. Qed.
Print Assumptions json_text_keys_unique_refuted.

(* ---- the other four maps: the key is the name itself ---- *)
Theorem json_text_server_keys_unique_partial : forall pp bt banned post c,
  build pp bt banned post = COk c ->
  (forall n x, In (n, x) (c_servers c) -> valid_utf8 n = true) ->
  NoDup (map (fun e => json_quote (fst e)) (c_servers c)).
Proof. exact json_text_server_keys_unique_lemma. Qed.
Print Assumptions json_text_server_keys_unique_partial.

Theorem json_text_type_keys_unique_partial : forall pp bt banned post c,
  build pp bt banned post = COk c ->
  (forall n x, In (n, x) (c_types c) -> valid_utf8 n = true) ->
  NoDup (map (fun e => json_quote (fst e)) (c_types c)).
Proof. exact json_text_type_keys_unique_lemma. Qed.
Print Assumptions json_text_type_keys_unique_partial.

Theorem json_text_enum_keys_unique_partial : forall pp bt banned post c,
  build pp bt banned post = COk c ->
  (forall n x, In (n, x) (c_enums c) -> valid_utf8 n = true) ->
  NoDup (map (fun e => json_quote (fst e)) (c_enums c)).
Proof. exact json_text_enum_keys_unique_lemma. Qed.
Print Assumptions json_text_enum_keys_unique_partial.

Theorem json_text_tag_keys_unique_partial : forall pp bt banned post c,
  build pp bt banned post = COk c ->
  (forall n x, In (n, x) (c_tags c) -> valid_utf8 n = true) ->
  NoDup (map (fun e => json_quote (fst e)) (c_tags c)).
Proof. exact json_text_tag_keys_unique_lemma. Qed.
Print Assumptions json_text_tag_keys_unique_partial.

(* ================= no response code and no request is exempt from having a body =================
   bodies_present (above) says it for every response r of an accepted catalog, with no condition on
   r_code r.  The same read at the last stage (validate = validateCatalog without the schema-content
   checks; build ends with it): a catalog under construction holding a response - of whatever code - or
   a request without body descriptor is not validated.  proofs/CatalogMoreProofs.v *)
From JV.proofs Require Import ContentProofs FaithfulExamples CatalogMoreProofs.

Theorem response_without_body_not_validated : forall c0 i h r,
  In (i, IHttp h) (c_inters c0) -> In r (hi_responses h) -> r_body r = None ->
  forall c, validate c0 <> COk c.
Proof. exact bodiless_response_not_validated. Qed.
Print Assumptions response_without_body_not_validated.

Theorem request_without_body_not_validated : forall c0 i h rq,
  In (i, IHttp h) (c_inters c0) -> hi_request h = Some rq -> q_body rq = None ->
  forall c, validate c0 <> COk c.
Proof. exact bodiless_request_not_validated. Qed.
Print Assumptions request_without_body_not_validated.

(* example: JSIGHT 0.3 / GET /x { 204 } - a no-content code with nothing said about the body - is rejected
   with "undefined response body" at the 204 directive (offset 22); "204 empty" is accepted *)
Theorem no_content_code_not_exempt_example :
  (exists e, ex_build (ex_204_forest []) = CErr e /\ ce_kind e = CEMsg "undefined response body"%string /\ ce_idx e = 22) /\
  (exists c, ex_build (ex_204_forest [("SchemaNotation", "empty")%string]) = COk c /\
     map (fun e => (iid_string (fst e), cview (snd e))) (c_inters c) =
       [(bs "http GET /x", cvx None None false [(bs "204", [])] false false)]).
Proof. exact no_content_code_example. Qed.
Print Assumptions no_content_code_not_exempt_example.
