(* C09 — the catalog that is serialised is self-consistent (skeleton level).  Nothing but theorem
   statements, each closed by `exact` of a lemma proved in proofs/CatalogProofs.v, each followed by
   Print Assumptions.

   Model: model/Catalog.v (hand-written, skeleton level: schemas are opaque descriptors), tied to
   the implementation by the full-pipeline correspondence check (verifsys/checks/c09.py,
   verifsys/corecheck.py compare_full).  [build pp bt banned post = COk c]: c is the catalog of
   an accepted project whose expanded directive forest is [post].

   What is NOT covered here (decided by the schema library, outside the skeleton): validity of the
   UTF-8 / JSON text itself, equality of the indented and compact forms, the content of schemas and
   the usedUserTypes / usedUserEnums lists.  These are checked on the implementation's output by the
   dynamic part of the check. *)
From Coq Require Import List NArith Bool String.
From JV.lib Require Import Bytes.
From JV.gen Require Import DirectiveTables TagName.
From JV.model Require Import ScannerSem Core TagTitle Catalog.
From JV.proofs Require Import CatalogProofs.
Import ListNotations.
Open Scope N_scope.

(* ---- no repeated key in any of the five ordered maps (keys compared as byte strings / as ids) ---- *)
Theorem keys_unique : forall pp bt banned post c,
  build pp bt banned post = COk c ->
  NoDup (map fst (c_servers c)) /\ NoDup (map fst (c_types c)) /\ NoDup (map fst (c_enums c)) /\
  NoDup (map fst (c_tags c)) /\ NoDup (map fst (c_inters c)).
Proof. exact keys_unique_lemma. Qed.
Print Assumptions keys_unique.

(* the enum collection the fold starts from (collectRules over the expanded forest) *)
Theorem enum_names_unique : forall ts en,
  collect_enums ts [] = COk en -> NoDup (map fst en).
Proof. exact enum_names_unique_lemma. Qed.
Print Assumptions enum_names_unique.

(* ---- the JSON key of an interaction: InteractionID.String() ---- *)

(* HTTP ids: the key determines protocol, method and path *)
Theorem http_id_string_injective : forall i1 i2,
  i_proto i1 = PHttp -> i_proto i2 = PHttp ->
  http_method_name (i_method i1) -> http_method_name (i_method i2) ->
  iid_string i1 = iid_string i2 -> i1 = i2.
Proof. exact http_id_string_injective_lemma. Qed.
Print Assumptions http_id_string_injective.

(* any two ids whose method part has no space *)
Theorem id_string_injective_without_space : forall i1 i2,
  ~ In 32 (i_method i1) -> ~ In 32 (i_method i2) ->
  iid_string i1 = iid_string i2 -> i1 = i2.
Proof. exact iid_string_injective_nospace. Qed.
Print Assumptions id_string_injective_without_space.

(* REFUTED for JSON-RPC ids: ("x /b", "/a") and ("x", "/b /a") are different ids (different keys of
   the Interactions map) with the same String() *)
Theorem rpc_id_string_not_injective_refuted :
  rpc_id_a <> rpc_id_b /\ iid_eqb rpc_id_a rpc_id_b = false /\ iid_string rpc_id_a = iid_string rpc_id_b.
Proof. exact rpc_id_string_collision. Qed.
Print Assumptions rpc_id_string_not_injective_refuted.

(* ... and the document  JSIGHT 0.3 / URL /a {Protocol json-rpc-2.0, Method "x /b"} /
   URL "/b /a" {Protocol json-rpc-2.0, Method x}  is accepted with two interactions under ONE JSON key.
   "no repeated key in any object" is false for the implementation (replayed: see c09.py). *)
Theorem json_keys_unique_refuted :
  exists c x1 x2, ex_build ex_rpc_forest = COk c /\
    c_inters c = [(rpc_id_a, x1); (rpc_id_b, x2)] /\
    map (fun e => iid_string (fst e)) (c_inters c) = [bs "json-rpc-2.0 x /b /a"; bs "json-rpc-2.0 x /b /a"].
Proof. exact rpc_json_key_repeated. Qed.
Print Assumptions json_keys_unique_refuted.

(* FULL statement (false, see above):
     forall ..., build ... = COk c -> NoDup (map (fun e => iid_string (fst e)) (c_inters c)).
   Strongest true statement: under the guard that no JSON-RPC method name contains a space.
   MISSING for the JSON text level: iid_string is the Go string; encoding/json then writes U+FFFD for
   every byte that is not valid UTF-8, which is not injective (GET /a\xff and GET /a\xfe become one
   key: found by the dynamic part, class invalid-utf8-key).  A model of that encoder plus the guard
   "paths and method names are valid UTF-8 without U+FFFD" would close the gap. *)
Theorem json_keys_unique_partial : forall pp bt banned post c,
  build pp bt banned post = COk c ->
  (forall i x, In (i, x) (c_inters c) -> i_proto i = PRpc -> ~ In 32 (i_method i)) ->
  NoDup (map (fun e => iid_string (fst e)) (c_inters c)).
Proof. exact json_keys_unique_partial_lemma. Qed.
Print Assumptions json_keys_unique_partial.

(* ---- every interaction's key is its id and encodes protocol, method and path ---- *)
Theorem ids_consistent : forall pp bt banned post c,
  build pp bt banned post = COk c ->
  forall i x, In (i, x) (c_inters c) ->
    iproto x = i_proto i /\ has_slash_prefix (i_path i) = true /\
    (i_proto i = PHttp -> http_method_name (i_method i) /\
                          iid_string i = bs "http " ++ i_method i ++ [32] ++ i_path i) /\
    (i_proto i = PRpc -> iid_string i = bs "json-rpc-2.0 " ++ i_method i ++ [32] ++ i_path i) /\
    exists t anc, occurs post t anc /\ made_by t anc i.
Proof. exact ids_consistent_lemma. Qed.
Print Assumptions ids_consistent.

(* ---- tags and interactions reference each other mutually ----
   tl p tg = the interaction list of tag tg for protocol p (t_http / t_rpc) *)
Theorem tags_mutual : forall pp bt banned post c,
  build pp bt banned post = COk c ->
  (forall i x n, In (i, x) (c_inters c) -> In n (itags x) ->
     exists tg, In (n, tg) (c_tags c) /\ In i (tl (i_proto i) tg)) /\
  (forall n tg p j, In (n, tg) (c_tags c) -> In j (tl p tg) ->
     i_proto j = p /\ exists x, In (j, x) (c_inters c) /\ In n (itags x)).
Proof. exact tags_mutual_lemma. Qed.
Print Assumptions tags_mutual.

(* ---- every request and every response has a body (validateRequestBody / validateResponseBody) ---- *)
Theorem bodies_present : forall pp bt banned post c,
  build pp bt banned post = COk c ->
  (forall i h rq, In (i, IHttp h) (c_inters c) -> hi_request h = Some rq -> exists b, q_body rq = Some b) /\
  (forall i h r, In (i, IHttp h) (c_inters c) -> In r (hi_responses h) -> exists b, r_body r = Some b).
Proof. exact bodies_present_lemma. Qed.
Print Assumptions bodies_present.

(* ---- ... whose format matches its notation ----
   body_ok b: b_format b = format_of n for a notation n in {jsight, regex, any, empty}
   (json <-> jsight, plainString <-> regex, binary <-> any/empty), where a body without schema text has
   n in {any, empty} and a body that is a type reference has n = jsight *)
Theorem format_matches_notation : forall pp bt banned post c,
  build pp bt banned post = COk c ->
  forall i h, In (i, IHttp h) (c_inters c) ->
    (forall rq b, hi_request h = Some rq -> q_body rq = Some b -> body_ok b) /\
    (forall r b, In r (hi_responses h) -> r_body r = Some b -> body_ok b).
Proof. exact format_matches_notation_lemma. Qed.
Print Assumptions format_matches_notation.

(* ---- Title() ---- *)
Theorem title_is_info_title : forall c,
  japi_title c = match c_info c with Some i => in_title i | None => [] end.
Proof. exact title_is_info_title_lemma. Qed.
Print Assumptions title_is_info_title.
