(* C02 — a JApiError's line number and quoted source line agree with its byte
   index, and computing them never panics for an index inside the file (0 <= index <= len).
   Nothing but theorem statements, each closed by `exact` of a lemma proved in
   proofs/JerrProofs.v, each followed by Print Assumptions.  The theorems hold for every list
   of N, in particular for every content with all_bytes content = true. *)
From Coq Require Import List NArith Bool.
From JV.lib Require Import Bytes.
From JV.model Require Import Jerr.
From JV.spec Require Import JerrSpec.
From JV.proofs Require Import JerrProofs.
Import ListNotations.
Open Scope N_scope.

(* NewLocation is total (no index-out-of-range / slice-bounds panic, no unsigned wrap-around,
   loops terminate) for every content and every index up to and including len(content). *)
Theorem location_total : forall content i, i <= glen content -> exists r, new_location content i = GOk r.
Proof. exact location_total_lemma. Qed.
Print Assumptions location_total.

(* ... and that is exactly its safe domain: for every index beyond the end the Go code panics
   (LineEnd reads content[position-1]). *)
Theorem location_panics_beyond_end : forall content i, glen content < i -> new_location content i = GPanic oob.
Proof. exact location_panics_lemma. Qed.
Print Assumptions location_panics_beyond_end.

Theorem location_domain : forall content i, (exists r, new_location content i = GOk r) <-> i <= glen content.
Proof. exact location_domain_lemma. Qed.
Print Assumptions location_domain.

(* witness: empty content, index 1 *)
Theorem location_total_unrestricted_refuted :
  exists content i, all_bytes content = true /\ new_location content i = GPanic oob.
Proof. exact location_total_unrestricted_refuted_lemma. Qed.
Print Assumptions location_total_unrestricted_refuted.

(* DetectNewLineSymbol: '\n' when there is no CR/LF byte, otherwise the last byte of the first
   maximal run of CR/LF bytes. *)
Theorem detect_nl_spec : forall content, exists nl, detect_nl content = GOk nl /\ is_detected_nl content nl.
Proof. exact detect_nl_spec_lemma. Qed.
Print Assumptions detect_nl_spec.

(* LineNumber, for every index (also beyond the end) and every newline byte:
   1 + the number of newline bytes among content[0 .. index)  (all of content when index > len);
   a newline byte AT the index is not counted. *)
Theorem line_number_spec : forall content i nl,
  line_number content i nl = GOk (1 + nl_before content nl i).
Proof. exact line_number_spec_lemma. Qed.
Print Assumptions line_number_spec.

(* LineBeginning, for every index: lb <= min(index, len), lb = 0 or content[lb-1] is the newline
   byte, no newline byte in [lb, min(index, len)). *)
Theorem line_beginning_spec : forall content i nl,
  exists lb, line_beginning content i nl = GOk lb /\ is_line_beginning content nl i lb.
Proof. exact line_beginning_spec_lemma. Qed.
Print Assumptions line_beginning_spec.

(* LineEnd, for every index <= len. *)
Theorem line_end_spec : forall content i nl, i <= glen content ->
  exists e, line_end content i nl = GOk e /\ is_line_end content nl i e.
Proof. exact line_end_spec_lemma. Qed.
Print Assumptions line_end_spec.

Theorem line_end_panics_beyond_end : forall content i nl, glen content < i -> line_end content i nl = GPanic oob.
Proof. exact line_end_panics. Qed.
Print Assumptions line_end_panics_beyond_end.

(* quote: `end - lineBeginning` never wraps, both slice expressions are in bounds, and the
   result is the (possibly truncated) left-trimmed line [lb, end). *)
Theorem quote_spec : forall content i nl lb, i <= glen content -> is_line_beginning content nl i lb ->
  exists e, line_end content i nl = GOk e /\ is_line_end content nl i e /\ lb <= e <= glen content /\
            quote content i lb nl = GOk (quote_of content lb e).
Proof. exact quote_spec_lemma. Qed.
Print Assumptions quote_spec.

(* a line of at most 200 bytes: the quote is a contiguous piece of the content that ends at the
   line end, is preceded within the line by blank bytes only, and contains no newline byte. *)
Theorem quote_short : forall content i nl lb e, i <= glen content ->
  is_line_beginning content nl i lb -> is_line_end content nl i e -> e - lb <= 200 ->
  exists blanks,
    content = (firstn (N.to_nat lb) content ++ blanks) ++ quote_of content lb e ++ skipn (N.to_nat e) content /\
    forallb is_blank blanks = true /\
    ~ In nl (quote_of content lb e).
Proof. exact quote_short_lemma. Qed.
Print Assumptions quote_short.

(* TrimSpacesFromLeft: drops a blank prefix; an all-blank input is returned unchanged. *)
Theorem trim_spaces_from_left_spec : forall b,
  exists pre, b = pre ++ trim_spaces_from_left b /\ forallb is_blank pre = true /\
    ((forallb is_blank b = true /\ pre = []) \/
     (exists c r, trim_spaces_from_left b = c :: r /\ is_blank c = false)).
Proof. exact tsfl_spec. Qed.
Print Assumptions trim_spaces_from_left_spec.

(* NewLocation as a whole: index unchanged, line and quote agree with the index. *)
Theorem location_spec : forall content i, i <= glen content ->
  exists nl lb e,
    detect_nl content = GOk nl /\ is_detected_nl content nl /\
    is_line_beginning content nl i lb /\ is_line_end content nl i e /\ lb <= e <= glen content /\
    new_location content i = GOk (i, 1 + nl_before content nl i, quote_of content lb e).
Proof. exact location_spec_lemma. Qed.
Print Assumptions location_spec.

(* PositionInLine: `position - lb` never wraps for an index inside the file. *)
Theorem position_in_line_spec : forall content i nl, i <= glen content ->
  exists lb, is_line_beginning content nl i lb /\ lb <= i /\ position_in_line content i nl = GOk (i - lb).
Proof. exact position_in_line_lemma. Qed.
Print Assumptions position_in_line_spec.

(* the model's unsigned subtraction is subtraction modulo 2^64 on the uint range *)
Theorem usub_is_mod_2_64 : forall a b, a < w64 -> b < w64 -> usub a b = (a + w64 - b) mod w64.
Proof. exact usub_mod. Qed.
Print Assumptions usub_is_mod_2_64.

(* ---- the core model (model/Core.v): where the errors of the project scan point, and what their
        include trace is.  Proofs in proofs/TraceProofs.v.  For EVERY len_sane scanner oracle pair,
        every file system whose regular files are made of bytes, every ban set, every fuel.
   Vocabulary (proofs/TraceProofs.v, proofs/IncludeProofs.v):
     fs_all_bytes files        every regular file of the file system consists of bytes (< 256)
     include_reachable root f  f = root, or f = Join(Dir(m), name) for a reachable m and a name the
                               regenerated validator accepts
     project_file files root f content
                               include_reachable root f /\ fs_stat files f = Some (FFile content):
                               a file the scan can open, with its content
     spells_at content off w   the bytes of content from offset off on begin with w
     kw_include                the keyword "INCLUDE"
     entry_real files root (f, off)
                               f is a project file and its bytes at off spell INCLUDE
     include_chain st          for a scanner stack [(x_k, off_k); ...; (x_0, off_0)] (top first; x_0 reads
                               the root): [(file of x_k, off_k); ...; (root, off_0)] -- defined by recursion,
                               independently of the model's stack_trace
     scan_reach .. s0 s        s is reached from s0 by iterations of scanProject's loops
     read_at .. s0 d           a state s reachable from s0 in which Next() delivers the Keyword lexeme
                               d_kw d points at, and d_trace d = rev (include_chain (cs_stack s))
     single_include_per_file files   (decidable) in no regular file do the bytes INCLUDE occur twice ---- *)
From Coq Require Import String.
From JV.lib Require Import Paths.
From JV.gen Require Import DirectiveTables ScannerTable IncludeName.
From JV.model Require Import ScannerSem Core.
From JV.proofs Require Import TM_Events IncludeProofs BanProofs TraceProofs.

(* (1) every error of the scan names a file of the project that was really opened -- the root or a
   regular file reached through INCLUDE -- and its byte index lies inside that file (0 <= idx <= len,
   the domain of jerr.NewLocation: location_total above) *)
Theorem scan_error_in_bounds : forall jsc_len enum_len files banned root fuel e,
  len_sane jsc_len -> len_sane enum_len -> fs_all_bytes files = true ->
  scan_forest_with fuel jsc_len enum_len files banned root = CErr e ->
  exists content, project_file files root (ce_file e) content /\ ce_idx e <= N.of_nat (List.length content).
Proof. intros jsc enum files banned root fuel e Hj He Hb. exact (scan_error_in_bounds_lemma jsc enum Hj He files Hb banned root fuel e). Qed.
Print Assumptions scan_error_in_bounds.

(* the model's trace of a scanner stack is its include chain, innermost includer first *)
Theorem stack_trace_is_include_chain : forall st, stack_trace st = include_chain st.
Proof. exact stack_trace_is_chain. Qed.
Print Assumptions stack_trace_is_include_chain.

(* (2) every error is raised in a state s reached by the scan (the iteration of scanProject's loop
   that starts in s ends with it: scan_project .. 1 s = CErr e); it lies in the file s reads, and
   - an error of the scan loop itself (scan_err) carries EXACTLY the include chain of the scanner
     stack of s;
   - an error about the pending directive d lies at d's keyword and carries d's own tracer
     (innermost first).  d was read from the file s reads, under the stack of s: since /repo c51680e
     the pending directive is placed before an INCLUDE is entered (and, as before, before a file is
     left).  [Before that repair an error about a directive read outside any include could carry the
     chain of an included file: TraceProofs.ex_root_directive_empty_trace.]
   and every entry of the trace is real: a project file, INCLUDE spelled at that offset *)
Theorem scan_error_trace : forall jsc_len enum_len files banned root fuel content e,
  len_sane jsc_len -> len_sane enum_len -> fs_all_bytes files = true ->
  fs_stat files root = Some (FFile content) ->
  scan_project jsc_len enum_len files banned fuel (init_state root content) = CErr e ->
  exists s, scan_reach jsc_len enum_len files banned (init_state root content) s /\
    scan_project jsc_len enum_len files banned 1 s = CErr e /\
    Forall (entry_real files root) (include_chain (cs_stack s)) /\
    ce_file e = sc_file (cs_sc s) /\
    (ce_trace e = include_chain (cs_stack s) \/
     (exists d, cs_cur s = Some d /\ ce_file e = c_file (d_kw d) /\ ce_idx e = c_beg (d_kw d) /\
                ce_trace e = rev (d_trace d))) /\
    Forall (entry_real files root) (ce_trace e).
Proof.
  intros jsc enum files banned root fuel content e Hj He Hb.
  exact (scan_error_trace_lemma jsc enum Hj He files Hb banned root fuel content e).
Qed.
Print Assumptions scan_error_trace.

(* ... for the whole scan: every "file:offset" entry of every trace names a project file and an
   INCLUDE that is really there *)
Theorem trace_entries_real : forall jsc_len enum_len files banned root fuel e,
  len_sane jsc_len -> len_sane enum_len -> fs_all_bytes files = true ->
  scan_forest_with fuel jsc_len enum_len files banned root = CErr e ->
  Forall (entry_real files root) (ce_trace e).
Proof. exact trace_entries_real_lemma. Qed.
Print Assumptions trace_entries_real.

(* every directive of the forest lies in a project file, its keyword inside the file, and every
   entry of its tracer is real (later stages locate their diagnostics with kw_err d: file and offset
   of the keyword, trace rev (d_trace d)) *)
Theorem directive_located : forall jsc_len enum_len files banned root fuel f,
  len_sane jsc_len -> len_sane enum_len -> fs_all_bytes files = true ->
  scan_forest_with fuel jsc_len enum_len files banned root = COk f ->
  forall d, In d (forest_dirs f) ->
    (exists content, project_file files root (c_file (d_kw d)) content /\ c_beg (d_kw d) <= N.of_nat (List.length content)) /\
    Forall (entry_real files root) (d_trace d).
Proof.
  intros jsc enum files banned root fuel f Hj He Hb.
  exact (directive_located_lemma jsc enum Hj He files Hb banned root fuel f).
Qed.
Print Assumptions directive_located.

(* (3) the tracer of a directive is cached per including file NAME (cs_tracers).  What the model
   really does: when no file holds two INCLUDEs, every directive of the forest carries the include
   chain of the scanner stack at the moment its keyword was read ... *)
Theorem directive_trace_is_chain : forall jsc_len enum_len files banned root fuel f,
  len_sane jsc_len -> len_sane enum_len -> fs_all_bytes files = true ->
  single_include_per_file files = true ->
  scan_forest_with fuel jsc_len enum_len files banned root = COk f ->
  exists content, fs_stat files root = Some (FFile content) /\
    forall d, In d (forest_dirs f) -> read_at jsc_len enum_len files banned (init_state root content) d.
Proof.
  intros jsc enum files banned root fuel f Hj He Hb Hs.
  exact (directive_trace_is_chain_lemma jsc enum Hj He files Hb banned root Hs fuel f).
Qed.
Print Assumptions directive_trace_is_chain.

(* ... and the trace of every error is the include chain of the stack of the state in which it is
   raised, and the error lies in the file that state reads.  (No exception any more: before /repo
   c51680e an error about a directive read in the root file carried the chain of the state in which
   it was raised, possibly inside an included file.) *)
Theorem trace_is_include_chain : forall jsc_len enum_len files banned root fuel content e,
  len_sane jsc_len -> len_sane enum_len -> fs_all_bytes files = true ->
  single_include_per_file files = true ->
  fs_stat files root = Some (FFile content) ->
  scan_project jsc_len enum_len files banned fuel (init_state root content) = CErr e ->
  exists s, scan_reach jsc_len enum_len files banned (init_state root content) s /\
    scan_project jsc_len enum_len files banned 1 s = CErr e /\
    ce_file e = sc_file (cs_sc s) /\ ce_trace e = include_chain (cs_stack s) /\
    Forall (entry_real files root) (ce_trace e).
Proof.
  intros jsc enum files banned root fuel content e Hj He Hb Hs.
  exact (trace_is_include_chain_lemma jsc enum Hj He files Hb banned root Hs fuel content e).
Qed.
Print Assumptions trace_is_include_chain.

(* two INCLUDEs in one file (finding C02/stale-include-tracer): r.jst = JSIGHT 0.3 / INCLUDE a.jst /
   INCLUDE b.jst.  The INCLUDEs are at offsets 11 and 25; the directive read from b.jst, and an error
   about a directive of b.jst, carry offset 11 -- the line of INCLUDE a.jst; an error of the scan
   loop in b.jst carries the chain of the stack, offset 25 *)
Theorem directive_trace_is_chain_two_includes_refuted :
  single_include_per_file (ex_two_includes []) = false /\
  include_offsets (ex_line "JSIGHT 0.3" ++ ex_line "INCLUDE a.jst" ++ ex_line "INCLUDE b.jst") = [11; 25] /\
  ex_dir_traces (scan_forest_with 1000 ex_len ex_len (ex_two_includes (ex_line "TAG @y")) [] (bs "r.jst")) =
  Some [(bs "r.jst", 0, []); (bs "a.jst", 0, [(bs "r.jst", 11)]); (bs "b.jst", 0, [(bs "r.jst", 11)])] /\
  ex_err (scan_forest_with 1000 ex_len ex_len (ex_two_includes (ex_line "Body")) [] (bs "r.jst")) =
  Some (bs "b.jst", 0, CEIncorrectContext, [(bs "r.jst", 11)]) /\
  ex_err (scan_forest_with 1000 ex_len ex_len (ex_two_includes (ex_line "JSIGHT 0.3")) [] (bs "r.jst")) =
  Some (bs "b.jst", 0, CEJsightInInclude, [(bs "r.jst", 25)]).
Proof. exact ex_stale_tracer_facts. Qed.
Print Assumptions directive_trace_is_chain_two_includes_refuted.

(* ... and a refutation proper: for that project (b.jst = "Body") the conclusion of
   trace_is_include_chain is false -- the error about b.jst carries [(r.jst, 11)], and no state
   reached by the scan reads b.jst with that include chain (the loop is deterministic: the reachable
   states are those of the computed run) *)
Theorem trace_is_include_chain_two_includes_refuted :
  exists files root fuel content e,
    fs_all_bytes files = true /\ single_include_per_file files = false /\
    fs_stat files root = Some (FFile content) /\
    scan_project ex_len ex_len files [] fuel (init_state root content) = CErr e /\
    ~ exists s, scan_reach ex_len ex_len files [] (init_state root content) s /\
        ce_file e = sc_file (cs_sc s) /\ ce_trace e = include_chain (cs_stack s).
Proof. exact trace_is_include_chain_two_includes_refuted_lemma. Qed.
Print Assumptions trace_is_include_chain_two_includes_refuted.

(* (4) r.jst -> a.jst -> sub/c.jst with the fault in sub/c.jst: innermost includer first *)
Theorem trace_nested_example :
  ex_err (scan_forest_with 1000 ex_len ex_len (ex_nested (ex_line "JSIGHT 0.3")) [] (bs "r.jst")) =
  Some (bs "sub/c.jst", 0, CEJsightInInclude, [(bs "a.jst", 7); (bs "r.jst", 11)]) /\
  ex_err (scan_forest_with 1000 ex_len ex_len (ex_nested (ex_line "TAG @y" ++ ex_line "Body")) [] (bs "r.jst")) =
  Some (bs "sub/c.jst", 7, CEIncorrectContext, [(bs "a.jst", 7); (bs "r.jst", 11)]).
Proof. split; [exact ex_trace_nested_loop|exact ex_trace_nested_directive]. Qed.
Print Assumptions trace_nested_example.

(* ---- the ORDER of the include trace (proofs/CoreMoreProofs.v) ----
   Vocabulary:
     included_from root f tr   tr is the chain by which f is included from root, innermost first:
                               [] for root itself; otherwise its head (g, off) is the file g that
                               DIRECTLY includes f (f = Join(Dir(g), name), name accepted by the
                               regenerated validator) and its tail is the chain of g *)
From JV.proofs Require Import CoreMoreProofs.

(* what included_from says: the direct includer first, the root file last *)
Theorem included_from_shape : forall root f tr,
  included_from root f tr ->
  (tr = [] /\ f = root) \/
  (exists g off tr' path,
     tr = (g, off) :: tr' /\ validateIncludeFileName path = GOk None /\ f = join2 (dir g) path /\
     included_from root g tr' /\
     exists pre off0, tr = pre ++ [(root, off0)]).
Proof. exact included_from_shape_lemma. Qed.
Print Assumptions included_from_shape.

(* in every state of the scan, the trace of the scanner stack (the trace every error of the scan
   loop gets: scan_err) is the chain of the file being read, in that order; that the offsets are
   those of the INCLUDE keywords is scan_error_trace (entry_real) above *)
Theorem stack_trace_order : forall jsc_len enum_len files banned root content s,
  scan_reach jsc_len enum_len files banned (init_state root content) s ->
  included_from root (sc_file (cs_sc s)) (stack_trace (cs_stack s)).
Proof. exact stack_trace_order_lemma. Qed.
Print Assumptions stack_trace_order.

(* (b) the end-of-file error (processEOF): when a file -- the root or an included one -- ends while
   a parenthesised context is open, the whole scan ends with 'not all explicit contexts are
   closed' located in THAT file (one before the final read position) with the chain of THAT file:
   the error is raised before the file is left.  Example: CoreMoreProofs.ex_eof_error_in_included. *)
Theorem eof_error_trace : forall jsc_len enum_len files banned root content s x1 s1,
  scan_reach jsc_len enum_len files banned (init_state root content) s ->
  sc_next jsc_len enum_len (cs_sc s) = Ok (x1, None) -> flush_cur (upd_sc s x1) = COk s1 ->
  has_unclosed_explicit (cs_frames s1) = true ->
  exists e,
    (exists n, forall fuel, (n < fuel)%nat ->
       scan_project jsc_len enum_len files banned fuel (init_state root content) = CErr e) /\
    ce_file e = sc_file (cs_sc s) /\ ce_idx e = pos (sc_cfg x1) - 1 /\ ce_kind e = CENotAllClosed /\
    ce_trace e = stack_trace (cs_stack s) /\
    included_from root (ce_file e) (ce_trace e).
Proof. exact eof_error_trace_lemma. Qed.
Print Assumptions eof_error_trace.

(* (a) every error of the scan, when no file holds two INCLUDEs: its trace is the chain of the file
   it lies in, direct includer first.  Example: CoreMoreProofs.ex_error_trace_order. *)
Theorem error_trace_order : forall jsc_len enum_len files banned root fuel content e,
  len_sane jsc_len -> len_sane enum_len -> fs_all_bytes files = true ->
  single_include_per_file files = true ->
  fs_stat files root = Some (FFile content) ->
  scan_project jsc_len enum_len files banned fuel (init_state root content) = CErr e ->
  included_from root (ce_file e) (ce_trace e).
Proof. exact error_trace_order_lemma. Qed.
Print Assumptions error_trace_order.

(* ... without that hypothesis: every error is either so, or is about the pending directive d of a
   reached state and carries d's own tracer (which the per-name cache may have made stale:
   directive_trace_is_chain_two_includes_refuted) *)
Theorem loop_error_trace_order : forall jsc_len enum_len files banned root fuel content e,
  len_sane jsc_len -> len_sane enum_len -> fs_all_bytes files = true ->
  fs_stat files root = Some (FFile content) ->
  scan_project jsc_len enum_len files banned fuel (init_state root content) = CErr e ->
  included_from root (ce_file e) (ce_trace e) \/
  (exists s d, scan_reach jsc_len enum_len files banned (init_state root content) s /\
               cs_cur s = Some d /\ ce_file e = c_file (d_kw d) /\ ce_idx e = c_beg (d_kw d) /\
               ce_trace e = rev (d_trace d)).
Proof. exact loop_error_trace_order_lemma. Qed.
Print Assumptions loop_error_trace_order.

(* (c) the tracer of every directive of the forest (kept outermost first; kw_err reverses it), when
   no file holds two INCLUDEs: innermost first it is the chain of the file the directive lies in.
   Example: CoreMoreProofs.ex_directive_trace_order. *)
Theorem directive_trace_order : forall jsc_len enum_len files banned root fuel f,
  len_sane jsc_len -> len_sane enum_len -> fs_all_bytes files = true ->
  single_include_per_file files = true ->
  scan_forest_with fuel jsc_len enum_len files banned root = COk f ->
  forall d, In d (forest_dirs f) -> included_from root (c_file (d_kw d)) (rev (d_trace d)).
Proof. exact directive_trace_order_lemma. Qed.
Print Assumptions directive_trace_order.
