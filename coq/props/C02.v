(* C02 — a JApiError's line number and quoted source line agree with its byte
   index, and computing them never panics for an index inside the file (0 <= index <= len).
   Nothing but theorem statements, each closed by `exact` of a lemma proved in
   proofs/JerrProofs.v, each followed by Print Assumptions.  The theorems hold for every list
   of N, in particular for every content with all_bytes content = true. *)
From Coq Require Import List NArith Bool.
From JV.lib Require Import Bytes.
From JV.model Require Import Jerr.
From JV.spec Require Import JerrSpec.
From JV.proofs Require Import JerrProofs.
Import ListNotations.
Open Scope N_scope.

(* NewLocation is total (no index-out-of-range / slice-bounds panic, no unsigned wrap-around,
   loops terminate) for every content and every index up to and including len(content). *)
Theorem location_total : forall content i, i <= glen content -> exists r, new_location content i = GOk r.
Proof. exact location_total_lemma. Qed.
Print Assumptions location_total.

(* ... and that is exactly its safe domain: for every index beyond the end the Go code panics
   (LineEnd reads content[position-1]). *)
Theorem location_panics_beyond_end : forall content i, glen content < i -> new_location content i = GPanic oob.
Proof. exact location_panics_lemma. Qed.
Print Assumptions location_panics_beyond_end.

Theorem location_domain : forall content i, (exists r, new_location content i = GOk r) <-> i <= glen content.
Proof. exact location_domain_lemma. Qed.
Print Assumptions location_domain.

(* witness: empty content, index 1 *)
Theorem location_total_unrestricted_refuted :
  exists content i, all_bytes content = true /\ new_location content i = GPanic oob.
Proof. exact location_total_unrestricted_refuted_lemma. Qed.
Print Assumptions location_total_unrestricted_refuted.

(* DetectNewLineSymbol: '\n' when there is no CR/LF byte, otherwise the last byte of the first
   maximal run of CR/LF bytes. *)
Theorem detect_nl_spec : forall content, exists nl, detect_nl content = GOk nl /\ is_detected_nl content nl.
Proof. exact detect_nl_spec_lemma. Qed.
Print Assumptions detect_nl_spec.

(* LineNumber, for every index (also beyond the end) and every newline byte:
   1 + the number of newline bytes among content[0 .. index)  (all of content when index > len);
   a newline byte AT the index is not counted. *)
Theorem line_number_spec : forall content i nl,
  line_number content i nl = GOk (1 + nl_before content nl i).
Proof. exact line_number_spec_lemma. Qed.
Print Assumptions line_number_spec.

(* LineBeginning, for every index: lb <= min(index, len), lb = 0 or content[lb-1] is the newline
   byte, no newline byte in [lb, min(index, len)). *)
Theorem line_beginning_spec : forall content i nl,
  exists lb, line_beginning content i nl = GOk lb /\ is_line_beginning content nl i lb.
Proof. exact line_beginning_spec_lemma. Qed.
Print Assumptions line_beginning_spec.

(* LineEnd, for every index <= len. *)
Theorem line_end_spec : forall content i nl, i <= glen content ->
  exists e, line_end content i nl = GOk e /\ is_line_end content nl i e.
Proof. exact line_end_spec_lemma. Qed.
Print Assumptions line_end_spec.

Theorem line_end_panics_beyond_end : forall content i nl, glen content < i -> line_end content i nl = GPanic oob.
Proof. exact line_end_panics. Qed.
Print Assumptions line_end_panics_beyond_end.

(* quote: `end - lineBeginning` never wraps, both slice expressions are in bounds, and the
   result is the (possibly truncated) left-trimmed line [lb, end). *)
Theorem quote_spec : forall content i nl lb, i <= glen content -> is_line_beginning content nl i lb ->
  exists e, line_end content i nl = GOk e /\ is_line_end content nl i e /\ lb <= e <= glen content /\
            quote content i lb nl = GOk (quote_of content lb e).
Proof. exact quote_spec_lemma. Qed.
Print Assumptions quote_spec.

(* a line of at most 200 bytes: the quote is a contiguous piece of the content that ends at the
   line end, is preceded within the line by blank bytes only, and contains no newline byte. *)
Theorem quote_short : forall content i nl lb e, i <= glen content ->
  is_line_beginning content nl i lb -> is_line_end content nl i e -> e - lb <= 200 ->
  exists blanks,
    content = (firstn (N.to_nat lb) content ++ blanks) ++ quote_of content lb e ++ skipn (N.to_nat e) content /\
    forallb is_blank blanks = true /\
    ~ In nl (quote_of content lb e).
Proof. exact quote_short_lemma. Qed.
Print Assumptions quote_short.

(* TrimSpacesFromLeft: drops a blank prefix; an all-blank input is returned unchanged. *)
Theorem trim_spaces_from_left_spec : forall b,
  exists pre, b = pre ++ trim_spaces_from_left b /\ forallb is_blank pre = true /\
    ((forallb is_blank b = true /\ pre = []) \/
     (exists c r, trim_spaces_from_left b = c :: r /\ is_blank c = false)).
Proof. exact tsfl_spec. Qed.
Print Assumptions trim_spaces_from_left_spec.

(* NewLocation as a whole: index unchanged, line and quote agree with the index. *)
Theorem location_spec : forall content i, i <= glen content ->
  exists nl lb e,
    detect_nl content = GOk nl /\ is_detected_nl content nl /\
    is_line_beginning content nl i lb /\ is_line_end content nl i e /\ lb <= e <= glen content /\
    new_location content i = GOk (i, 1 + nl_before content nl i, quote_of content lb e).
Proof. exact location_spec_lemma. Qed.
Print Assumptions location_spec.

(* PositionInLine: `position - lb` never wraps for an index inside the file. *)
Theorem position_in_line_spec : forall content i nl, i <= glen content ->
  exists lb, is_line_beginning content nl i lb /\ lb <= i /\ position_in_line content i nl = GOk (i - lb).
Proof. exact position_in_line_lemma. Qed.
Print Assumptions position_in_line_spec.

(* the model's unsigned subtraction is subtraction modulo 2^64 on the uint range *)
Theorem usub_is_mod_2_64 : forall a b, a < w64 -> b < w64 -> usub a b = (a + w64 - b) mod w64.
Proof. exact usub_mod. Qed.
Print Assumptions usub_is_mod_2_64.
