(* C10 — Declaration order is free, on the catalog model: the parts that do not need the schema library.
   Nothing but theorem statements, each closed by `exact` of a lemma of proofs/OrderProofs.v, each followed
   by Print Assumptions.

   is_ok r = r is COk _.  Permutation ts ts' over the TOP-LEVEL trees.
   PARTIAL.  FULL statement wanted (not proved):
     Permutation rest rest' -> build pp bt banned (first :: rest) = COk c ->
     exists c', build pp bt banned (first :: rest') = COk c' /\ Permutation (c_servers c) (c_servers c') /\
       Permutation (c_types c) (c_types c') /\ Permutation (c_enums c) (c_enums c') /\
       same set of interaction ids, each with equal content, tags up to order.
   Proved: (1) the three collect passes (enum names, declared tags, duplicate TYPE names) for arbitrary
   forests; (2) the fold add_all for forests of declarations (childless SERVER / TYPE / TAG / ENUM).
   (3) one declaration moved across trees of any kind (server_moved / type_moved / enum_moved / tag_moved);
   (4) two adjacent trees that make interactions exchanged, and a run of such trees permuted
   (inter_trees_swapped_partial, build_order_free_partial), under decidable side conditions.
   MISSING: the assembly of (3) and (4) into ONE statement about an arbitrary permutation of the forest;
   interaction trees under declared or shared tags, with path parameters, or with Path directives. *)
From Coq Require Import List NArith Bool String Permutation.
From JV.lib Require Import Bytes.
From JV.gen Require Import DirectiveTables TagName.
From JV.model Require Import ScannerSem Core PathParams TagTitle Catalog.
From JV.proofs Require Import CatalogProofs FaithfulProofs LocalityProofs OrderProofs PathVarProofs FrameProofs InsertProofs TagFrameProofs TagInsertProofs FaithfulExamples LocalityExamples SwapListProofs SwapProofs SwapTreeProofs SwapExamples.
From JV.model Require AllOf.
From JV.spec Require AllOfSpec MacroSpec.
From JV.proofs Require AllOfProofs MacroProofs.
Import ListNotations.
Open Scope N_scope.

(* (1) collect passes: same verdict for every order; the collected enums / declared tags are the same up to
   order *)
Theorem collect_passes_order_free_partial : forall ts ts',
  Permutation ts ts' ->
  is_ok (collect_enums ts []) = is_ok (collect_enums ts' []) /\
  is_ok (collect_tags ts []) = is_ok (collect_tags ts' []) /\
  is_ok (check_dup_types ts []) = is_ok (check_dup_types ts' []) /\
  (forall en en', collect_enums ts [] = COk en -> collect_enums ts' [] = COk en' -> Permutation en en') /\
  (forall tg tg', collect_tags ts [] = COk tg -> collect_tags ts' [] = COk tg' -> Permutation tg tg').
Proof. exact collect_passes_order_free_lemma. Qed.
Print Assumptions collect_passes_order_free_partial.

(* when a name-collecting pass succeeds: no bad node, the names pairwise different and not seen before *)
Theorem name_pass_verdict : forall f ts seen,
  gcoll f ts seen = true <->
  (forall t, In t ts -> f t <> Bad) /\ NoDup (gnames f ts) /\ (forall n, In n (gnames f ts) -> ~ In n seen).
Proof. exact gcoll_ok. Qed.
Print Assumptions name_pass_verdict.

(* (2) the fold over declarations: same verdict for every order, same servers and types up to order,
   everything else equal *)
Theorem decl_fold_order_free_partial : forall bt banned ts ts' b b',
  Forall decl_leaf ts -> Permutation ts ts' ->
  add_all bt banned ts b = COk b' ->
  exists b'', add_all bt banned ts' b = COk b'' /\
    Permutation (c_servers (b_cat b')) (c_servers (b_cat b'')) /\
    Permutation (c_types (b_cat b')) (c_types (b_cat b'')) /\
    c_jsight (b_cat b'') = c_jsight (b_cat b') /\ c_info (b_cat b'') = c_info (b_cat b') /\
    c_enums (b_cat b'') = c_enums (b_cat b') /\ c_tags (b_cat b'') = c_tags (b_cat b') /\
    c_inters (b_cat b'') = c_inters (b_cat b').
Proof. exact decl_fold_order_free_lemma. Qed.
Print Assumptions decl_fold_order_free_partial.

(* verdict and effect of that fold in closed form *)
Theorem decl_fold_closed_form : forall bt banned ts, Forall decl_leaf ts -> forall b,
  is_ok (add_all bt banned ts b) =
    gcoll (f_srv banned) ts (map fst (c_servers (b_cat b))) && gcoll (f_typ banned) ts (map fst (c_types (b_cat b))) /\
  forall b', add_all bt banned ts b = COk b' ->
    c_servers (b_cat b') = c_servers (b_cat b) ++ map srv_entry (filter is_srv ts) /\
    c_types (b_cat b') = c_types (b_cat b) ++ map typ_entry (filter is_typ ts) /\
    c_jsight (b_cat b') = c_jsight (b_cat b) /\ c_info (b_cat b') = c_info (b_cat b) /\
    c_enums (b_cat b') = c_enums (b_cat b) /\ c_tags (b_cat b') = c_tags (b_cat b) /\
    c_inters (b_cat b') = c_inters (b_cat b).
Proof. exact decl_fold. Qed.
Print Assumptions decl_fold_closed_form.

(* the hypotheses are satisfiable: five declarations and their reversal *)
Theorem order_example :
  Forall decl_leaf ex_decls /\ Permutation ex_decls ex_decls_rev /\
  exists c c', ex_build (ex_jsight :: ex_decls) = COk c /\ ex_build (ex_jsight :: ex_decls_rev) = COk c' /\
    map fst (c_servers c) = [bs "@a"; bs "@b"] /\ map fst (c_servers c') = [bs "@b"; bs "@a"] /\
    c_types c = c_types c' /\ c_enums c = c_enums c' /\ c_tags c = c_tags c'.
Proof. exact LocalityExamples.order_example. Qed.
Print Assumptions order_example.

(* ---- the stages that have their own models ------------------------------------------------------------- *)

(* allOf inheritance (core/compile_catalog.go ProcessAllOf, heap model coq/model/AllOf.v): the inherited properties of
   every user type are the same under ANY permutation of the TYPE directives and for any set of use sites (class
   env_skeleton, see props/C12.v) - "the content of every entry, including inherited properties, stays the same" *)
Theorem inherited_properties_order_free :
  forall e1 e2,
  AllOfSpec.lib_ok e1 = true -> AllOfSpec.lib_ok e2 = true -> AllOfSpec.env_skeleton e1 = true -> AllOfSpec.env_skeleton e2 = true ->
  Permutation (AllOf.e_types e1) (AllOf.e_types e2) ->
  exists w1 w2, AllOf.run e1 = AllOf.ROk w1 /\ AllOf.run e2 = AllOf.ROk w2 /\
    forall name t r1 r2 fuel,
      In (name, Some t) (AllOf.e_types e1) -> In (name, Some r1) (AllOf.w_types w1) -> In (name, Some r2) (AllOf.w_types w2) ->
      (2 * (AllOf.env_size e1 + AllOf.env_size e2) + 3 <= fuel)%nat ->
      AllOf.render fuel (AllOf.w_state w1) r1 = AllOf.render fuel (AllOf.w_state w2) r2 /\ AllOf.render fuel (AllOf.w_state w1) r1 <> None.
Proof. exact AllOfProofs.order_independent_lemma. Qed.
Print Assumptions inherited_properties_order_free.

(* ... but "the lists of used types" do NOT stay the same: the usedUserTypes of a type that inherits through a chain
   of depth 2 contain the transitive base exactly when the type is declared before its base.  The witness, replayed
   on the implementation, is the recorded finding C10/allof-chain-usedUserTypes-order. *)
Theorem used_types_lists_order_free_refuted :
  AllOfProofs.used_of {| AllOf.e_types := AllOf.e_types AllOfProofs.ex_chain3; AllOf.e_uses := [] |} = AllOf.ROk [[bs "@b"; bs "@a"]; [bs "@a"]; []] /\
  AllOfProofs.used_of AllOfProofs.ex_chain3_rev = AllOf.ROk [[]; [bs "@a"]; [bs "@b"]].
Proof. exact AllOfProofs.used_types_order_dependent_lemma. Qed.
Print Assumptions used_types_lists_order_free_refuted.

(* macros may be defined before or after use: the recursion check accepts exactly the tables without a cycle and
   without a nameless PASTE - a criterion in which the order of the MACRO definitions does not occur *)
Theorem macro_check_verdict_is_a_property_of_the_paste_graph :
  forall m, MacroSpec.table_ok m = true -> forall fuel, (MacroSpec.check_fuel_needed m <= fuel)%nat ->
  (check_all_macros fuel m (map fst m) [] = COk tt <-> MacroSpec.has_cycle m = false /\ MacroSpec.nameless_paste m = false).
Proof. exact MacroProofs.check_passed_iff. Qed.
Print Assumptions macro_check_verdict_is_a_property_of_the_paste_graph.

(* ======================================================================================= *)
(* a declaration moved among trees of ANY kind (URL / method trees included): build level.
   PARTIAL: proved for SERVER; the same argument (remove, then insert: C20 type_inserted / enum_inserted, both
   equivalences) gives it for TYPE and ENUM - not written out.  srv_step_ok: see C20 server_inserted.
   STILL MISSING for the full statement (permutation of ARBITRARY top-level trees): the two-state simulation of
   the fold for trees that make interactions (interaction / tag collections, run-wide path sets) and the
   path-variable stage. *)
Theorem server_moved_partial : forall pp bt banned first a t b1 b2 c,
  tree_kids t = [] -> dk t = KServer -> kind_in KServer banned = false ->
  let n := named (tree_dir t) (bs "Name") in
  (forall p, In p (positions_all (b1 ++ b2)) -> srv_step_ok n (fst p) (snd p)) ->
  build pp bt banned ((first :: a) ++ t :: b1 ++ b2) = COk c ->
  exists c', build pp bt banned ((first :: a ++ b1) ++ t :: b2) = COk c' /\
    Permutation (c_servers c) (c_servers c') /\
    c_types c' = c_types c /\ c_enums c' = c_enums c /\ c_tags c' = c_tags c /\ c_inters c' = c_inters c /\
    c_info c' = c_info c /\ c_jsight c' = c_jsight c.
Proof. exact server_moved_lemma. Qed.
Print Assumptions server_moved_partial.

(* ... and TYPE, ENUM (written out from C20 type_inserted / enum_inserted) *)
Theorem type_moved_partial : forall pp bt banned first a t b1 b2 c,
  tree_kids t = [] -> dk t = KType -> kind_in KType banned = false ->
  let n := named (tree_dir t) (bs "Name") in
  (forall p, In p (positions_all (b1 ++ b2)) -> typ_step_ok n (fst p) (snd p)) ->
  build pp bt banned ((first :: a) ++ t :: b1 ++ b2) = COk c ->
  exists c', build pp bt banned ((first :: a ++ b1) ++ t :: b2) = COk c' /\
    Permutation (c_types c) (c_types c') /\
    c_servers c' = c_servers c /\ c_enums c' = c_enums c /\ c_tags c' = c_tags c /\ c_inters c' = c_inters c /\
    c_info c' = c_info c /\ c_jsight c' = c_jsight c.
Proof. exact type_moved_lemma. Qed.
Print Assumptions type_moved_partial.

Theorem enum_moved_partial : forall pp bt banned first a t b1 b2 c,
  tree_kids t = [] -> enum_node t = true -> kind_in KEnum banned = false ->
  build pp bt banned ((first :: a) ++ t :: b1 ++ b2) = COk c ->
  exists c', build pp bt banned ((first :: a ++ b1) ++ t :: b2) = COk c' /\
    Permutation (c_enums c) (c_enums c') /\
    c_servers c' = c_servers c /\ c_types c' = c_types c /\ c_tags c' = c_tags c /\ c_inters c' = c_inters c /\
    c_info c' = c_info c /\ c_jsight c' = c_jsight c.
Proof. exact enum_moved_lemma. Qed.
Print Assumptions enum_moved_partial.

(* an unused TAG declaration moved (from C20 tag_inserted; tag_step_ok: nothing uses the name) *)
Theorem tag_moved_partial : forall pp bt banned first a t b1 b2 c,
  tree_kids t = [] -> tag_node t = true -> kind_in KTAG banned = false ->
  let n := named (tree_dir t) (bs "TagName") in
  (forall p, In p (positions_all ((first :: a) ++ b1 ++ b2)) -> tag_step_ok n (fst p) (snd p)) ->
  build pp bt banned ((first :: a) ++ t :: b1 ++ b2) = COk c ->
  exists c', build pp bt banned ((first :: a ++ b1) ++ t :: b2) = COk c' /\
    Permutation (c_tags c) (c_tags c') /\
    c_servers c' = c_servers c /\ c_types c' = c_types c /\ c_enums c' = c_enums c /\ c_inters c' = c_inters c /\
    c_info c' = c_info c /\ c_jsight c' = c_jsight c.
Proof. exact tag_moved_lemma. Qed.
Print Assumptions tag_moved_partial.

(* ======================================================================================= *)
(* two ADJACENT top-level trees that make interactions, exchanged (proofs/GenFrameProofs.v: the generic frame
   lemma  add_directive t anc (G s) = cmap G (add_directive t anc s)  for a transformer G of the interaction / tag
   collections and the run-wide URL / protocol lists; proofs/SwapProofs.v, SwapTreeProofs.v: its two instances
   "a base in front" and "two adjacent blocks exchanged").

   swappable t1 t2 (a boolean, decidable on the two trees alone) = for both trees: every node is URL / GET / POST /
   PUT / PATCH / DELETE / Query / Request / response code / Body / Headers / Description / Protocol / Method /
   Params / Result (no Tags, no Path directive), no path has a {parameter}, every directive inside resolves to an
   interaction the tree itself makes; and the automatic tag names of t1 and of t2 are different.
   fresh_tags a t1 t2 b (a boolean on the forest) = those automatic tag names are neither declared by a TAG of the
   forest nor already made by a tree of a.
   swapmid n m1 m2 l = l with the block of m1 entries after the first n exchanged with the next m2 entries
   (swap_blocks_reading).  By C04 catalog_keys the entries at those offsets are the interactions of t1 / t2, and
   the automatic tags they create.

   PARTIAL.  Not covered: trees whose interactions go under a declared tag (Tags directive, or an automatic
   name that is declared or made earlier: the tag ENTRY is then shared with other trees and only the order of the
   ids inside it changes - needs the insertion instance instead of "a base in front"), paths with parameters
   (similar-path state: PathVarProofs.sp_equiv is the relation to carry), Path directives (path-variable stage:
   bind_all_order_free below). *)
Theorem inter_trees_swapped_partial : forall pp bt banned a t1 t2 b c,
  swappable t1 t2 = true -> fresh_tags a t1 t2 b = true ->
  build pp bt banned (a ++ t1 :: t2 :: b) = COk c ->
  exists c', build pp bt banned (a ++ t2 :: t1 :: b) = COk c' /\
    c_jsight c' = c_jsight c /\ c_info c' = c_info c /\ c_servers c' = c_servers c /\
    c_types c' = c_types c /\ c_enums c' = c_enums c /\
    c_inters c' = swapmid (List.length (method_ids (positions_all a))) (List.length (method_ids (positions t1 [])))
                          (List.length (method_ids (positions t2 []))) (c_inters c) /\
    c_tags c' = swapmid (List.length (fold_left add_new (auto_uses (positions_all a)) (declared_tag_names (a ++ t1 :: t2 :: b))))
                        (List.length (fold_left add_new (auto_uses (positions t1 [])) []))
                        (List.length (fold_left add_new (auto_uses (positions t2 [])) [])) (c_tags c).
Proof. exact inter_trees_swapped_lemma. Qed.
Print Assumptions inter_trees_swapped_partial.

Theorem swap_blocks_reading : forall (A : Type) (a b c d : list A),
  swapmid (List.length a) (List.length b) (List.length c) (a ++ b ++ c ++ d) = a ++ c ++ b ++ d.
Proof. exact @swapmid_blocks. Qed.
Print Assumptions swap_blocks_reading.

(* the hypotheses hold for two URL blocks with different first segments (one HTTP, one JSON-RPC), among other
   trees; a later GET /cats/all joins the automatic tag @cats in both orders *)
Theorem swappable_example :
  swappable ex_url_cats ex_url_rpc = true /\ swappable ex_url_rpc ex_url_cats = true /\
  fresh_tags ex_head ex_url_cats ex_url_rpc ex_tail = true /\
  exists c c',
    ex_build (ex_head ++ ex_url_cats :: ex_url_rpc :: ex_tail) = COk c /\
    ex_build (ex_head ++ ex_url_rpc :: ex_url_cats :: ex_tail) = COk c' /\
    map (fun e => iid_string (fst e)) (c_inters c) =
      [bs "http GET /dogs"; bs "http GET /cats"; bs "http POST /cats"; bs "json-rpc-2.0 foo /rpc"; bs "http GET /cats/all"] /\
    map (fun e => iid_string (fst e)) (c_inters c') =
      [bs "http GET /dogs"; bs "json-rpc-2.0 foo /rpc"; bs "http GET /cats"; bs "http POST /cats"; bs "http GET /cats/all"] /\
    map fst (c_tags c) = [bs "@pets"; bs "@dogs"; bs "@cats"; bs "@rpc"] /\
    map fst (c_tags c') = [bs "@pets"; bs "@dogs"; bs "@rpc"; bs "@cats"] /\
    c_inters c' = swapmid 1 2 1 (c_inters c) /\ c_tags c' = swapmid 2 1 1 (c_tags c).
Proof. exact SwapExamples.swappable_example. Qed.
Print Assumptions swappable_example.

(* not swappable: a tree under a declared tag; two trees with the same first segment (each fine by itself) *)
Theorem not_swappable_example :
  swappable ex_url_tagged ex_url_rpc = false /\ swappable ex_url_cats ex_get_cats_id = false /\
  tree_ok ex_get_cats_id = true.
Proof. exact SwapExamples.not_swappable_example. Qed.
Print Assumptions not_swappable_example.

(* iterated (Permutation_ind_transp: adjacent transpositions generate the permutations): a RUN of such trees,
   standing together, in any order.  seg_ok a decl seg (a boolean) = every tree of seg passes the one-tree part of
   swappable, its automatic tag names are not in decl and not made by a tree of a, and no two trees of seg share
   an automatic tag name.  cat_equiv c c' = same JSIGHT / INFO / servers / types / enums, interactions and tags
   equal up to the order of the entries.
   PARTIAL with respect to the full statement at the top of this file: the permuted trees must stand together
   (the declarations in a and b stay where they are; they can be moved one at a time by server_moved /
   type_moved / enum_moved / tag_moved above, whose side conditions are about the other trees - the two families
   are not assembled into one theorem about an arbitrary permutation of the whole forest), plus the
   restrictions of inter_trees_swapped_partial. *)
Theorem build_order_free_partial : forall pp bt banned a seg seg' b,
  Permutation seg seg' -> seg_ok a (declared_tag_names (a ++ b)) seg = true ->
  forall c, build pp bt banned (a ++ seg ++ b) = COk c ->
  exists c', build pp bt banned (a ++ seg' ++ b) = COk c' /\ cat_equiv c c'.
Proof. exact inter_trees_permuted_lemma. Qed.
Print Assumptions build_order_free_partial.

Theorem permuted_example :
  seg_ok ex_head (declared_tag_names (ex_head ++ ex_tail2)) ex_seg = true /\ Permutation ex_seg (rev ex_seg) /\
  exists c c',
    ex_build (ex_head ++ ex_seg ++ ex_tail2) = COk c /\ ex_build (ex_head ++ rev ex_seg ++ ex_tail2) = COk c' /\
    map fst (c_tags c) = [bs "@pets"; bs "@dogs"; bs "@cats"; bs "@rpc"; bs "@fish"] /\
    map fst (c_tags c') = [bs "@pets"; bs "@dogs"; bs "@fish"; bs "@rpc"; bs "@cats"].
Proof. exact SwapExamples.permuted_example. Qed.
Print Assumptions permuted_example.

(* ======================================================================================= *)
(* the order-sensitive stages the swap theorem does not go through (trees with Path directives or with
   {parameters} in their paths): order independence of the path-variable stage and of the similar-path state
   (proofs/PathVarProofs.v) *)

(* when the binding of path variables succeeds, and with what (pv_bound v = the (prefix, name) pairs the Path
   directive v binds, pv_left v = its properties that no parameter takes) *)
Theorem bind_all_verdict : forall pvs all all',
  bind_all pvs all = COk all' <->
  (forall v, In v pvs -> pv_left v = []) /\ NoDup (map fst (bounds pvs)) /\
  (forall x, In x (map fst (bounds pvs)) -> ~ In x (map fst all)) /\ all' = all ++ bounds pvs.
Proof. exact bind_all_ok. Qed.
Print Assumptions bind_all_verdict.

(* the 'has already been defined earlier' check is symmetric, and path_vars_of only tests membership *)
Theorem bind_all_order_free : forall pvs pvs' all,
  Permutation pvs pvs' -> bind_all pvs [] = COk all ->
  exists all', bind_all pvs' [] = COk all' /\ Permutation all all' /\
               forall p, path_vars_of all p = path_vars_of all' p.
Proof. exact bind_all_order_free_lemma. Qed.
Print Assumptions bind_all_order_free.

(* the similar-path check sees the run-wide state only through its lookups (sp_equiv: same binding for every key) *)
Theorem similar_paths_state_order_free : forall pp st st',
  sp_equiv st st' -> sp_sim (check_similar_paths st pp) (check_similar_paths st' pp).
Proof. exact check_similar_paths_equiv. Qed.
Print Assumptions similar_paths_state_order_free.
