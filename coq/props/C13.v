(* C13 — path parameters, string level (core/path_parameter.go) and the similar-paths check
   (core/simular_paths.go).  Nothing but theorem statements, each closed by `exact` of a
   lemma proved in proofs/PathParamsProofs.v, each followed by Print Assumptions.
   Model: model/PathParams.v.  Specification vocabulary (proofs/PathParamsProofs.v):
     segments p                  the non-empty '/'-separated components of p
     param_positions segs        the (index, inner) of the segments "{" ++ inner ++ "}"
     path_parameters_spec_of     (join "/" (first i+1 segments), inner) for those, in order
     params_of p                 path_parameters_spec_of (segments p)
     names l                     map snd l
     conflict s1 s2, nf          see the similar-paths theorems below *)
From Coq Require Import List NArith Bool Permutation String.
From JV.lib Require Import Bytes.
From JV.gen Require Import DirectiveTables.
From JV.model Require Import PathParams Core Catalog.
From JV.proofs Require Import PathParamsProofs StaticChecksProofs PathBindingProofs.
Import ListNotations.
Open Scope N_scope.

(* segment[0], segment[len-1], s[0:i+1] and segment[1:len-1] never panic *)
Theorem path_parameters_total : forall p, exists l, path_parameters p = GOk l.
Proof. exact path_parameters_total_lemma. Qed.
Print Assumptions path_parameters_total.

(* strings.Trim in splitPath is redundant: splitPath = non-empty components *)
Theorem split_path_is_segments : forall p, split_path p = filter nonempty_b (split_byte 47 p).
Proof. exact split_path_segments. Qed.
Print Assumptions split_path_is_segments.

(* segments are non-empty and contain no '/' *)
Theorem segments_are_good : forall p seg, In seg (segments p) -> seg <> [] /\ ~ In 47 seg.
Proof. exact segments_good_in. Qed.
Print Assumptions segments_are_good.

(* the result is exactly, in order, (join "/" (firstn (i+1) segs), inner) for the indices i
   whose segment is "{" ++ inner ++ "}" *)
Theorem path_parameters_spec : forall p,
  path_parameters p =
  GOk (map (fun x => (join_byte 47 (firstn (S (fst x)) (segments p)), snd x))
           (param_positions (segments p))).
Proof. exact path_parameters_spec_lemma. Qed.
Print Assumptions path_parameters_spec.

(* what param_positions means *)
Theorem param_positions_spec : forall segs i inner,
  In (i, inner) (param_positions segs) <-> nth_error segs i = Some (123 :: inner ++ [125]).
Proof. exact param_positions_in. Qed.
Print Assumptions param_positions_spec.

Theorem param_positions_increasing : forall segs, NoDup (map fst (param_positions segs)).
Proof. exact param_positions_nodup. Qed.
Print Assumptions param_positions_increasing.

(* membership form *)
Theorem path_parameters_in : forall p l pre n,
  path_parameters p = GOk l ->
  (In (pre, n) l <->
   exists i, nth_error (segments p) i = Some (123 :: n ++ [125]) /\
             pre = join_byte 47 (firstn (S i) (segments p))).
Proof. exact path_parameters_in_lemma. Qed.
Print Assumptions path_parameters_in.

(* within one path the prefixes of different parameter positions are different strings *)
Theorem prefixes_distinct : forall p l, path_parameters p = GOk l -> NoDup (map fst l).
Proof. exact prefixes_distinct_lemma. Qed.
Print Assumptions prefixes_distinct.

(* a prefix string determines its position: it re-splits into the first i+1 segments *)
Theorem prefix_resplit : forall p i,
  (i < List.length (segments p))%nat ->
  split_path (join_byte 47 (firstn (S i) (segments p))) = firstn (S i) (segments p).
Proof. exact prefix_resplit_lemma. Qed.
Print Assumptions prefix_resplit.

(* PathParameters *)
Theorem checked_total : forall p, exists r, path_parameters_checked p = GOk r.
Proof. exact checked_total_lemma. Qed.
Print Assumptions checked_total.

Theorem checked_accepts : forall p l,
  path_parameters_checked p = GOk (POk l) <->
  l = params_of p /\ ~ In [] (names l) /\ NoDup (names l).
Proof. exact checked_ok_lemma. Qed.
Print Assumptions checked_accepts.

Theorem checked_rejects_empty : forall p,
  path_parameters_checked p = GOk PEmptyParam <-> In [] (names (params_of p)).
Proof. exact checked_rejects_empty_lemma. Qed.
Print Assumptions checked_rejects_empty.

(* the reported name is the first one that repeats an earlier name *)
Theorem checked_rejects_dup : forall p n,
  path_parameters_checked p = GOk (PDup n) <->
  ~ In [] (names (params_of p)) /\
  exists l1 l2, names (params_of p) = l1 ++ n :: l2 /\ NoDup l1 /\ In n l1.
Proof. exact checked_rejects_dup_lemma. Qed.
Print Assumptions checked_rejects_dup.

Theorem checked_trichotomy : forall p,
  (In [] (names (params_of p)) /\ path_parameters_checked p = GOk PEmptyParam) \/
  (~ In [] (names (params_of p)) /\ ~ NoDup (names (params_of p)) /\
     exists n, path_parameters_checked p = GOk (PDup n)) \/
  (~ In [] (names (params_of p)) /\ NoDup (names (params_of p)) /\
     path_parameters_checked p = GOk (POk (params_of p))).
Proof. exact checked_trichotomy_lemma. Qed.
Print Assumptions checked_trichotomy.

(* checkSimilarPaths.  Two paths registered one after the other on an empty map: the second
   is rejected iff at some index both have a parameter, with different names, after
   literally identical leading segments. *)
Theorem similar_two_iff : forall p1 p2,
  (exists msg, register_paths [] 0 [p1; p2] = GOk (RegReject 1 msg)) <->
  exists i n1 n2,
    nth_error (segments p1) i = Some (123 :: n1 ++ [125]) /\
    nth_error (segments p2) i = Some (123 :: n2 ++ [125]) /\
    firstn i (segments p1) = firstn i (segments p2) /\ n1 <> n2.
Proof. exact similar_two_iff_lemma. Qed.
Print Assumptions similar_two_iff.

(* the same, as a normal form (nf replaces every {name} segment by {}): rejected iff for some
   k the first k segments have equal normal forms but are not equal *)
Theorem similar_two_nf_iff : forall p1 p2,
  (exists msg, register_paths [] 0 [p1; p2] = GOk (RegReject 1 msg)) <->
  exists k, nf (firstn k (segments p1)) = nf (firstn k (segments p2)) /\
            firstn k (segments p1) <> firstn k (segments p2).
Proof. exact similar_two_nf_iff_lemma. Qed.
Print Assumptions similar_two_nf_iff.

(* the intended reading: paths that differ only in parameter names are rejected *)
Theorem similar_same_nf_rejected : forall p1 p2,
  nf (segments p1) = nf (segments p2) -> segments p1 <> segments p2 ->
  exists msg, register_paths [] 0 [p1; p2] = GOk (RegReject 1 msg).
Proof. exact same_nf_rejected_lemma. Qed.
Print Assumptions similar_same_nf_rejected.

(* the converse does not hold: /{x}/a and /{y}/b are rejected *)
Theorem similar_rejects_more_than_nf :
  exists p1 p2, nf (segments p1) <> nf (segments p2) /\
                exists msg, register_paths [] 0 [p1; p2] = GOk (RegReject 1 msg).
Proof. exact similar_rejects_beyond_nf. Qed.
Print Assumptions similar_rejects_more_than_nf.

Theorem similar_two_symmetric : forall p1 p2,
  (exists msg, register_paths [] 0 [p1; p2] = GOk (RegReject 1 msg)) <->
  (exists msg, register_paths [] 0 [p2; p1] = GOk (RegReject 1 msg)).
Proof. exact similar_two_symmetric_lemma. Qed.
Print Assumptions similar_two_symmetric.

(* any number of paths: all are accepted iff no two of them conflict *)
Theorem similar_all_accepted_iff : forall paths,
  (exists st, register_paths [] 0 paths = GOk (RegOk st)) <->
  (forall p q, In p paths -> In q paths -> ~ conflict (segments p) (segments q)).
Proof. exact register_all_lemma. Qed.
Print Assumptions similar_all_accepted_iff.

(* hence acceptance does not depend on the order of the directives *)
Theorem similar_order_independent : forall ps1 ps2,
  Permutation ps1 ps2 ->
  ((exists st, register_paths [] 0 ps1 = GOk (RegOk st)) <->
   (exists st, register_paths [] 0 ps2 = GOk (RegOk st))).
Proof. exact register_order_independent_lemma. Qed.
Print Assumptions similar_order_independent.

Theorem similar_total : forall st idx paths, exists r, register_paths st idx paths = GOk r.
Proof. exact register_total_lemma. Qed.
Print Assumptions similar_total.

(* ------------------------------------------------------------------------------------------ *)
(* binding: model/Catalog.v collect_paths_all, bind_all, path_vars_of, set_pathvars, build
   (proofs/PathBindingProofs.v).  pnodes_all post = the nodes collectPaths visits (pre-order, MACRO
   subtrees skipped) with ancestors and the flag "an earlier sibling is a Path"; declares pp post
   prefix name = some Path directive of the project has (prefix, name) among the parameters of its
   path and a property called name in its body (oracle pp); node_declares: the same for one node. *)
Theorem collect_paths_all_is_the_fold :
  forall (pp : coords -> option (list bytes)) ts acc,
  collect_paths_all pp ts acc = cp_run pp (pnodes_all ts) acc.
Proof. exact collect_paths_all_run. Qed.
Print Assumptions collect_paths_all_is_the_fold.

Theorem visited_nodes_are_nodes :
  forall post x,
  In x (pnodes_all post) ->
  In (pn_tree x, pn_anc x) (preorder_all post).
Proof. exact pnodes_all_preorder. Qed.
Print Assumptions visited_nodes_are_nodes.

(* what the Path directives contribute: one rawpv per Path node, in order (path_decl) *)
Theorem collect_paths_all_spec :
  forall (pp : coords -> option (list bytes)) post pvs,
  collect_paths_all pp post [] = COk pvs ->
  Forall2 (path_decl pp) (filter is_path_node (pnodes_all post)) pvs.
Proof. exact collect_paths_all_spec. Qed.
Print Assumptions collect_paths_all_spec.

(* bind_all spelled out: a prefix is bound iff it was bound before or some rawpv declares it *)
Theorem bind_all_spec :
  forall pvs,
  forall all r, Forall pv_wf pvs ->
  bind_all pvs all = COk r ->
  forall prefix, om_has beq r prefix = true <-> (om_has beq all prefix = true \/ exists v name, In v pvs /\ pv_declares v prefix name).
Proof. exact bind_all_has. Qed.
Print Assumptions bind_all_spec.

(* binding_correct: for an accepted build, pathVariables of every HTTP interaction = the names of those {name} segments of its path (params_of, in path order) whose prefix some Path directive of the project declares *)
Theorem binding_correct :
  forall (pp : coords -> option (list bytes)) (bt : coords -> bytes) post c,
  build pp bt [] post = COk c ->
  exists bound : bytes -> bool, (forall prefix, bound prefix = true <-> exists name, declares pp post prefix name) /\ forall i h, In (i, IHttp h) (c_inters c) ->
  hi_pathvars h = map snd (filter (fun x => bound (fst x)) (params_of (i_path i))).
Proof. exact binding_correct_lemma. Qed.
Print Assumptions binding_correct.

(* the prefix ends in the {name} segment itself: the property bound at a prefix has the name of the segment *)
Theorem prefix_determines_name :
  forall p q prefix n m,
  In (prefix, n) (params_of p) ->
  In (prefix, m) (params_of q) ->
  n = m.
Proof. exact prefix_determines_name. Qed.
Print Assumptions prefix_determines_name.

Theorem no_declaration_no_pathvars :
  forall (pp : coords -> option (list bytes)) (bt : coords -> bytes) post c,
  (forall x, In x (preorder_all post) -> d_kind (ndir x) <> KPath) ->
  build pp bt [] post = COk c ->
  forall i h, In (i, IHttp h) (c_inters c) ->
  hi_pathvars h = [].
Proof. exact no_declaration_lemma. Qed.
Print Assumptions no_declaration_no_pathvars.

(* "Has unused parameters": a Path property matching no {name} segment of the path *)
Theorem unmatched_property_rejected :
  forall (pp : coords -> option (list bytes)) (bt : coords -> bytes) post x p bc props n,
  In x (pnodes_all post) ->
  d_kind (pn_dir x) = KPath ->
  d_body (pn_dir x) = Some bc ->
  pp bc = Some props ->
  path_of (pn_dir x) (pn_anc x) = PathOk p ->
  In n props ->
  ~ In n (names (params_of p)) ->
  not_ok (build pp bt [] post).
Proof. exact unmatched_property_lemma. Qed.
Print Assumptions unmatched_property_rejected.

(* "has already been defined earlier": a parameter declared twice for one prefix *)
Theorem duplicate_prefix_rejected :
  forall (pp : coords -> option (list bytes)) (bt : coords -> bytes) post x y prefix n1 n2,
  occurs_before x y (pnodes_all post) ->
  node_declares pp x prefix n1 ->
  node_declares pp y prefix n2 ->
  not_ok (build pp bt [] post).
Proof. exact duplicate_prefix_lemma. Qed.
Print Assumptions duplicate_prefix_rejected.

(* empty or repeated {name} (checked_rejects_empty / checked_rejects_dup: bad_path p <-> path_parameters_checked p is PEmptyParam or PDup) at URL and HTTP-method directives *)
Theorem bad_path_of_url_or_method_rejected :
  forall (pp : coords -> option (list bytes)) (bt : coords -> bytes) post x p,
  In x (preorder_all post) ->
  registers_path x p ->
  bad_path p ->
  not_ok (build pp bt [] post).
Proof. exact bad_path_url_or_method_lemma. Qed.
Print Assumptions bad_path_of_url_or_method_rejected.

(* ... and at Path directives *)
Theorem bad_path_of_path_directive_rejected :
  forall (pp : coords -> option (list bytes)) (bt : coords -> bytes) post x p,
  In x (pnodes_all post) ->
  d_kind (pn_dir x) = KPath ->
  path_of (pn_dir x) (pn_anc x) = PathOk p ->
  bad_path p ->
  not_ok (build pp bt [] post).
Proof. exact bad_path_path_directive_lemma. Qed.
Print Assumptions bad_path_of_path_directive_rejected.

(* a Path body that is not a flat object (the oracle answers None) *)
Theorem path_body_not_flat_rejected :
  forall (pp : coords -> option (list bytes)) (bt : coords -> bytes) post x bc,
  In x (pnodes_all post) ->
  d_kind (pn_dir x) = KPath ->
  d_body (pn_dir x) = Some bc ->
  pp bc = None ->
  not_ok (build pp bt [] post).
Proof. exact path_body_not_flat_lemma. Qed.
Print Assumptions path_body_not_flat_rejected.

Theorem path_without_body_rejected :
  forall (pp : coords -> option (list bytes)) (bt : coords -> bytes) post x,
  In x (pnodes_all post) ->
  d_kind (pn_dir x) = KPath ->
  d_body (pn_dir x) = None ->
  not_ok (build pp bt [] post).
Proof. exact path_without_body_lemma. Qed.
Print Assumptions path_without_body_rejected.

(* bad_path in the vocabulary of checked_rejects_empty / checked_rejects_dup *)
Theorem bad_path_iff : forall p,
  bad_path p <-> (path_parameters_checked p = GOk PEmptyParam \/ exists n, path_parameters_checked p = GOk (PDup n)).
Proof. exact bad_path_iff_lemma. Qed.
Print Assumptions bad_path_iff.

(* examples, by computation (proofs/PathBindingProofs.v, Module C13Examples) *)
Theorem binding_example :
  C13Examples.pathvars (C13Examples.go13 C13Examples.f1) =
  [(bs "http GET /a/{id}"%string, [bs "id"%string]); (bs "http GET /a/{id}/b/{sub}"%string, [bs "id"%string; bs "sub"%string]);
   (bs "http POST /a/{id}/c"%string, [bs "id"%string]); (bs "http GET /x/{q}"%string, [])].
Proof. exact C13Examples.ex_binding. Qed.
Print Assumptions binding_example.
