(* C13 — path parameters, string level (core/path_parameter.go) and the similar-paths check
   (core/simular_paths.go).  Nothing but theorem statements, each closed by `exact` of a
   lemma proved in proofs/PathParamsProofs.v, each followed by Print Assumptions.
   Model: model/PathParams.v.  Specification vocabulary (proofs/PathParamsProofs.v):
     segments p                  the non-empty '/'-separated components of p
     param_positions segs        the (index, inner) of the segments "{" ++ inner ++ "}"
     path_parameters_spec_of     (join "/" (first i+1 segments), inner) for those, in order
     params_of p                 path_parameters_spec_of (segments p)
     names l                     map snd l
     conflict s1 s2, nf          see the similar-paths theorems below *)
From Coq Require Import List NArith Bool Permutation.
From JV.lib Require Import Bytes.
From JV.model Require Import PathParams.
From JV.proofs Require Import PathParamsProofs.
Import ListNotations.
Open Scope N_scope.

(* segment[0], segment[len-1], s[0:i+1] and segment[1:len-1] never panic *)
Theorem path_parameters_total : forall p, exists l, path_parameters p = GOk l.
Proof. exact path_parameters_total_lemma. Qed.
Print Assumptions path_parameters_total.

(* strings.Trim in splitPath is redundant: splitPath = non-empty components *)
Theorem split_path_is_segments : forall p, split_path p = filter nonempty_b (split_byte 47 p).
Proof. exact split_path_segments. Qed.
Print Assumptions split_path_is_segments.

(* segments are non-empty and contain no '/' *)
Theorem segments_are_good : forall p seg, In seg (segments p) -> seg <> [] /\ ~ In 47 seg.
Proof. exact segments_good_in. Qed.
Print Assumptions segments_are_good.

(* the result is exactly, in order, (join "/" (firstn (i+1) segs), inner) for the indices i
   whose segment is "{" ++ inner ++ "}" *)
Theorem path_parameters_spec : forall p,
  path_parameters p =
  GOk (map (fun x => (join_byte 47 (firstn (S (fst x)) (segments p)), snd x))
           (param_positions (segments p))).
Proof. exact path_parameters_spec_lemma. Qed.
Print Assumptions path_parameters_spec.

(* what param_positions means *)
Theorem param_positions_spec : forall segs i inner,
  In (i, inner) (param_positions segs) <-> nth_error segs i = Some (123 :: inner ++ [125]).
Proof. exact param_positions_in. Qed.
Print Assumptions param_positions_spec.

Theorem param_positions_increasing : forall segs, NoDup (map fst (param_positions segs)).
Proof. exact param_positions_nodup. Qed.
Print Assumptions param_positions_increasing.

(* membership form *)
Theorem path_parameters_in : forall p l pre n,
  path_parameters p = GOk l ->
  (In (pre, n) l <->
   exists i, nth_error (segments p) i = Some (123 :: n ++ [125]) /\
             pre = join_byte 47 (firstn (S i) (segments p))).
Proof. exact path_parameters_in_lemma. Qed.
Print Assumptions path_parameters_in.

(* within one path the prefixes of different parameter positions are different strings *)
Theorem prefixes_distinct : forall p l, path_parameters p = GOk l -> NoDup (map fst l).
Proof. exact prefixes_distinct_lemma. Qed.
Print Assumptions prefixes_distinct.

(* a prefix string determines its position: it re-splits into the first i+1 segments *)
Theorem prefix_resplit : forall p i,
  (i < List.length (segments p))%nat ->
  split_path (join_byte 47 (firstn (S i) (segments p))) = firstn (S i) (segments p).
Proof. exact prefix_resplit_lemma. Qed.
Print Assumptions prefix_resplit.

(* PathParameters *)
Theorem checked_total : forall p, exists r, path_parameters_checked p = GOk r.
Proof. exact checked_total_lemma. Qed.
Print Assumptions checked_total.

Theorem checked_accepts : forall p l,
  path_parameters_checked p = GOk (POk l) <->
  l = params_of p /\ ~ In [] (names l) /\ NoDup (names l).
Proof. exact checked_ok_lemma. Qed.
Print Assumptions checked_accepts.

Theorem checked_rejects_empty : forall p,
  path_parameters_checked p = GOk PEmptyParam <-> In [] (names (params_of p)).
Proof. exact checked_rejects_empty_lemma. Qed.
Print Assumptions checked_rejects_empty.

(* the reported name is the first one that repeats an earlier name *)
Theorem checked_rejects_dup : forall p n,
  path_parameters_checked p = GOk (PDup n) <->
  ~ In [] (names (params_of p)) /\
  exists l1 l2, names (params_of p) = l1 ++ n :: l2 /\ NoDup l1 /\ In n l1.
Proof. exact checked_rejects_dup_lemma. Qed.
Print Assumptions checked_rejects_dup.

Theorem checked_trichotomy : forall p,
  (In [] (names (params_of p)) /\ path_parameters_checked p = GOk PEmptyParam) \/
  (~ In [] (names (params_of p)) /\ ~ NoDup (names (params_of p)) /\
     exists n, path_parameters_checked p = GOk (PDup n)) \/
  (~ In [] (names (params_of p)) /\ NoDup (names (params_of p)) /\
     path_parameters_checked p = GOk (POk (params_of p))).
Proof. exact checked_trichotomy_lemma. Qed.
Print Assumptions checked_trichotomy.

(* checkSimilarPaths.  Two paths registered one after the other on an empty map: the second
   is rejected iff at some index both have a parameter, with different names, after
   literally identical leading segments. *)
Theorem similar_two_iff : forall p1 p2,
  (exists msg, register_paths [] 0 [p1; p2] = GOk (RegReject 1 msg)) <->
  exists i n1 n2,
    nth_error (segments p1) i = Some (123 :: n1 ++ [125]) /\
    nth_error (segments p2) i = Some (123 :: n2 ++ [125]) /\
    firstn i (segments p1) = firstn i (segments p2) /\ n1 <> n2.
Proof. exact similar_two_iff_lemma. Qed.
Print Assumptions similar_two_iff.

(* the same, as a normal form (nf replaces every {name} segment by {}): rejected iff for some
   k the first k segments have equal normal forms but are not equal *)
Theorem similar_two_nf_iff : forall p1 p2,
  (exists msg, register_paths [] 0 [p1; p2] = GOk (RegReject 1 msg)) <->
  exists k, nf (firstn k (segments p1)) = nf (firstn k (segments p2)) /\
            firstn k (segments p1) <> firstn k (segments p2).
Proof. exact similar_two_nf_iff_lemma. Qed.
Print Assumptions similar_two_nf_iff.

(* the intended reading: paths that differ only in parameter names are rejected *)
Theorem similar_same_nf_rejected : forall p1 p2,
  nf (segments p1) = nf (segments p2) -> segments p1 <> segments p2 ->
  exists msg, register_paths [] 0 [p1; p2] = GOk (RegReject 1 msg).
Proof. exact same_nf_rejected_lemma. Qed.
Print Assumptions similar_same_nf_rejected.

(* the converse does not hold: /{x}/a and /{y}/b are rejected *)
Theorem similar_rejects_more_than_nf :
  exists p1 p2, nf (segments p1) <> nf (segments p2) /\
                exists msg, register_paths [] 0 [p1; p2] = GOk (RegReject 1 msg).
Proof. exact similar_rejects_beyond_nf. Qed.
Print Assumptions similar_rejects_more_than_nf.

Theorem similar_two_symmetric : forall p1 p2,
  (exists msg, register_paths [] 0 [p1; p2] = GOk (RegReject 1 msg)) <->
  (exists msg, register_paths [] 0 [p2; p1] = GOk (RegReject 1 msg)).
Proof. exact similar_two_symmetric_lemma. Qed.
Print Assumptions similar_two_symmetric.

(* any number of paths: all are accepted iff no two of them conflict *)
Theorem similar_all_accepted_iff : forall paths,
  (exists st, register_paths [] 0 paths = GOk (RegOk st)) <->
  (forall p q, In p paths -> In q paths -> ~ conflict (segments p) (segments q)).
Proof. exact register_all_lemma. Qed.
Print Assumptions similar_all_accepted_iff.

(* hence acceptance does not depend on the order of the directives *)
Theorem similar_order_independent : forall ps1 ps2,
  Permutation ps1 ps2 ->
  ((exists st, register_paths [] 0 ps1 = GOk (RegOk st)) <->
   (exists st, register_paths [] 0 ps2 = GOk (RegOk st))).
Proof. exact register_order_independent_lemma. Qed.
Print Assumptions similar_order_independent.

Theorem similar_total : forall st idx paths, exists r, register_paths st idx paths = GOk r.
Proof. exact register_total_lemma. Qed.
Print Assumptions similar_total.
