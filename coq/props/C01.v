(* C01 — Totality.  (a) the scanner, on the table REGENERATED from /repo/scanner. *)
From Coq Require Import List NArith Bool.
From JV.lib Require Import Bytes.
From JV.gen Require Import ScannerTable ScannerTyping.
From JV.model Require Import ScannerSem TableCheck.
From JV.proofs Require Import TM_Events TM_Loop ScanTheorems.
Import ListNotations.

(* For all byte strings and all len-sane libraries the scan ends with end-of-file or with a
   diagnostic positioned inside the file: no Pop of an empty step/event stack, no unsigned
   underflow of curIndex, no out-of-range index or slice, no unbounded re-dispatch, no loop. *)
Theorem scan_total : forall jsc_len enum_len data,
  len_sane jsc_len -> len_sane enum_len -> Forall isb data ->
  match scan_result jsc_len enum_len data with
  | SEof => True
  | SErr p _ => (p <= N.of_nat (List.length data))%N
  | SPanic _ => False
  | SFuel => False
  end.
Proof. exact scan_total_lemma. Qed.
Print Assumptions scan_total.
