(* C01 — Totality.  (a) the scanner, on the table REGENERATED from /repo/scanner. *)
From Coq Require Import List NArith Bool.
From JV.lib Require Import Bytes.
From JV.gen Require Import ScannerTable ScannerTyping.
From JV.model Require Import ScannerSem TableCheck.
From JV.proofs Require Import TM_Events TM_Loop ScanTheorems.
Import ListNotations.

(* For all byte strings and all len-sane libraries the scan ends with end-of-file or with a
   diagnostic positioned inside the file: no Pop of an empty step/event stack, no unsigned
   underflow of curIndex, no out-of-range index or slice, no unbounded re-dispatch, no loop. *)
Theorem scan_total : forall jsc_len enum_len data,
  len_sane jsc_len -> len_sane enum_len -> Forall isb data ->
  match scan_result jsc_len enum_len data with
  | SEof => True
  | SErr p _ => (p <= N.of_nat (List.length data))%N
  | SPanic _ => False
  | SFuel => False
  end.
Proof. exact scan_total_lemma. Qed.
Print Assumptions scan_total.

(* (b) the catalog stage, on the model (model/Catalog.v, model/Core.v; proofs/CatalogTotalProofs.v).
   ok_err r  =  r is COk _ or CErr _  (never CPanic, never CFuel).
   admissible f  =  the conclusion of C06.resolve_admissible: every root is root-admissible and every
   parent -> child edge is allowed by the regenerated context table;  macro_free_roots f  =  no root
   is a MACRO directive (collect_macro takes them all; no directive admits a MACRO child). *)
From Coq Require Import String.
From JV.gen Require Import DirectiveTables.
From JV.model Require Import Core Catalog.
From JV.spec Require Import ContextSpec MacroSpec.
From JV.proofs Require Import MacroProofs CatalogTotalProofs.

(* every CPanic of Catalog.v - "nil Parent", "nil Info", the GPanic of PathParameters - is unreachable:
   for every oracle, body text and set of banned directives *)
Theorem build_never_panics : forall pp bt banned post,
  admissible post -> macro_free_roots post -> ok_err (build pp bt banned post).
Proof. exact build_never_panics_lemma. Qed.
Print Assumptions build_never_panics.

(* the hypothesis about MACRO roots is needed on the model (no stage produces such a forest) *)
Theorem build_panics_with_a_macro_root :
  exists post, admissible post /\ build (fun _ => None) (fun _ => []) [] post = CPanic "nil Info"%string.
Proof. exact macro_root_panics_example. Qed.
Print Assumptions build_panics_with_a_macro_root.

(* macro expansion preserves admissibility and leaves no MACRO *)
Theorem expand_preserves_admissibility : forall ts f,
  admissible ts -> expand ts = COk f -> admissible f /\ macro_free_roots f.
Proof. exact expand_preserves_admissibility_lemma. Qed.
Print Assumptions expand_preserves_admissibility.

Theorem expanded_forest_never_panics : forall pp bt banned f post,
  admissible f -> expand f = COk post -> ok_err (build pp bt banned post).
Proof. exact expanded_forest_never_panics_lemma. Qed.
Print Assumptions expanded_forest_never_panics.

(* context resolution >>= macro expansion >>= catalog construction, for EVERY item sequence
   (pipeline pp bt banned l = resolve_all l >>=c fun f => expand f >>=c build pp bt banned):
   with C06.resolve_never_panics_or_runs_out and C07.expand_total *)
Theorem pipeline_total : forall pp bt banned l, ok_err (pipeline pp bt banned l).
Proof. exact pipeline_total_lemma. Qed.
Print Assumptions pipeline_total.
