(* C16 — Concurrency, the part a proof can carry.  Nothing but theorem statements, each closed
   by `exact` of a lemma proved in proofs/OrderedMapProofs.v, each followed by Print Assumptions.

   Reading: every method of a safe generated collection runs under the collection's mutex
   (locks_ok, on the facts REGENERATED from the *_gen.go files), hence is one atomic transition of
   model/OrderedMap.v, hence every concurrent history is one of the sequences `ops` below.
   K, V and the key equality are arbitrary (keq_spec: keq decides equality, as Go's == does on
   string, TagName, InteractionID keys).

   NOT covered here (runtime exploration in verifsys/checks/c16.py): the Go memory model,
   sync.RWMutex itself, races inside values and in the schema library, the unsafe variant
   UserSchemas (excluded by name in LockDiscipline.unsafe_excluded), callbacks that re-enter the
   same collection (would deadlock: sync.RWMutex is not re-entrant). *)
From Coq Require Import List NArith Bool.
From JV.lib Require Import Bytes.
From JV.gen Require Import Collections.
From JV.model Require Import OrderedMap LockDiscipline.
From JV.proofs Require Import OrderedMapProofs.
Import ListNotations.

(* Atomicity premise, on the regenerated facts: in every safe collection every writer holds
   Lock, every reader RLock or Lock, the unlocked helper `has` is unexported and only called
   with a sufficient lock held, no locked method calls a locking one, the seven collections the
   property is about are present as safe variants, UserSchemas is the only unsafe one. *)
Theorem locks_ok : locks_check collections = true.
Proof. exact locks_ok_lemma. Qed.
Print Assumptions locks_ok.

(* every method body denotes the operation of the model that carries its name *)
Theorem ops_ok : ops_check collections = true.
Proof. exact ops_ok_lemma. Qed.
Print Assumptions ops_ok.

Theorem om_invariant :
  forall (K V : Type) (keq : K -> K -> bool), (forall a b, keq a b = true <-> a = b) ->
  forall (vzero : V) (ops : list (mop K V)),
  let m := om_run K V keq vzero ops in
  NoDup (order m) /\
  (forall k, In k (order m) <-> In k (map fst (data m))) /\
  NoDup (map fst (data m)).
Proof. exact om_invariant_lemma. Qed.
Print Assumptions om_invariant.

Theorem no_lost_update :
  forall (K V : Type) (keq : K -> K -> bool), (forall a b, keq a b = true <-> a = b) ->
  forall (vzero : V) (ops : list (mop K V)) (k : K),
  maps_succeed K V keq vzero ops = true ->
  om_get K V keq (om_run K V keq vzero ops) k = key_history K V keq k ops.
Proof. exact no_lost_update_lemma. Qed.
Print Assumptions no_lost_update.

Theorem last_set_wins :
  forall (K V : Type) (keq : K -> K -> bool), (forall a b, keq a b = true <-> a = b) ->
  forall (vzero : V) (ops : list (mop K V)) (k : K) (v : V),
  om_get K V keq (om_run K V keq vzero (ops ++ [OSet k v])) k = Some v.
Proof. exact last_set_wins_lemma. Qed.
Print Assumptions last_set_wins.

Theorem marshal_each_key_once :
  forall (K V : Type) (keq : K -> K -> bool), (forall a b, keq a b = true <-> a = b) ->
  forall (vzero : V) (ops : list (mop K V)),
  let m := om_run K V keq vzero ops in
  map fst (om_marshal K V keq vzero m) = order m /\
  NoDup (map fst (om_marshal K V keq vzero m)) /\
  (forall k v, In (k, v) (om_marshal K V keq vzero m) <-> om_get K V keq m k = Some v) /\
  List.length (om_marshal K V keq vzero m) = om_len K V m.
Proof. exact marshal_each_key_once_lemma. Qed.
Print Assumptions marshal_each_key_once.

Theorem has_iff_in_order :
  forall (K V : Type) (keq : K -> K -> bool), (forall a b, keq a b = true <-> a = b) ->
  forall (vzero : V) (ops : list (mop K V)) (k : K),
  om_has K V keq (om_run K V keq vzero ops) k = true <-> In k (order (om_run K V keq vzero ops)).
Proof. exact has_iff_in_order_lemma. Qed.
Print Assumptions has_iff_in_order.

(* the order is a function of the Set/SetToTop calls alone *)
Theorem order_is_order_history :
  forall (K V : Type) (keq : K -> K -> bool), (forall a b, keq a b = true <-> a = b) ->
  forall (vzero : V) (ops : list (mop K V)),
  order (om_run K V keq vzero ops) = order_history K V keq ops.
Proof. exact order_is_order_history_lemma. Qed.
Print Assumptions order_is_order_history.

(* "source order": keys in order of first insertion *)
Theorem first_insertion_order :
  forall (K V : Type) (keq : K -> K -> bool), (forall a b, keq a b = true <-> a = b) ->
  forall (vzero : V) (ops : list (mop K V)),
  no_set_to_top K V ops = true ->
  order (om_run K V keq vzero ops) = first_occ K keq [] (set_keys K V ops).
Proof. exact first_insertion_order_lemma. Qed.
Print Assumptions first_insertion_order.

Theorem set_keeps_position :
  forall (K V : Type) (keq : K -> K -> bool), (forall a b, keq a b = true <-> a = b) ->
  forall (vzero : V) (ops : list (mop K V)) (k : K) (v : V),
  In k (order (om_run K V keq vzero ops)) ->
  order (om_run K V keq vzero (ops ++ [OSet k v])) = order (om_run K V keq vzero ops) /\
  order (om_run K V keq vzero (ops ++ [OSetToTop k v])) = order (om_run K V keq vzero ops).
Proof. exact set_keeps_position_lemma. Qed.
Print Assumptions set_keeps_position.

Theorem update_missing_noop :
  forall (K V : Type) (keq : K -> K -> bool) (vzero : V) (ops : list (mop K V)) (k : K) (f : V -> V),
  om_get K V keq (om_run K V keq vzero ops) k = None ->
  om_run K V keq vzero (ops ++ [OUpdate k f]) = om_run K V keq vzero ops.
Proof. exact update_missing_noop_lemma. Qed.
Print Assumptions update_missing_noop.

(* the Set variant (catalog.StringSet) under any sequence of Add from the zero value *)
Theorem set_add_each_once :
  forall (K : Type) (keq : K -> K -> bool), (forall a b, keq a b = true <-> a = b) ->
  forall ks : list K,
  let s := os_run_from K keq os_empty ks in
  os_data K s = first_occ K keq [] ks /\ NoDup (os_data K s) /\
  os_len K s = List.length (os_data K s) /\
  (forall k, os_has K keq s k = true <-> In k ks).
Proof. exact set_add_each_once_lemma. Qed.
Print Assumptions set_add_each_once.

(* FINDING, stated as proved: the constructor NewStringSet(vv...) keeps duplicates of vv in the
   order (Data() lists a key twice, Len() disagrees with len(Data())).  It is used by tests only;
   no concurrent history of Add reaches such a state (set_add_each_once). *)
Theorem new_set_keeps_duplicates :
  exists vv : list bytes,
    ~ NoDup (os_data _ (os_new _ beq vv)) /\
    os_len _ (os_new _ beq vv) <> List.length (os_data _ (os_new _ beq vv)).
Proof. exact new_set_keeps_duplicates_lemma. Qed.
Print Assumptions new_set_keeps_duplicates.
