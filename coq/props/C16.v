(* C16 — Concurrency, the part a proof can carry.  Nothing but theorem statements, each closed
   by `exact` of a lemma proved in proofs/OrderedMapProofs.v, each followed by Print Assumptions.

   Reading: every method of a safe generated collection runs under the collection's mutex
   (locks_ok, on the facts REGENERATED from the *_gen.go files), hence is one atomic transition of
   model/OrderedMap.v, hence every concurrent history is one of the sequences `ops` below.
   K, V and the key equality are arbitrary (keq_spec: keq decides equality, as Go's == does on
   string, TagName, InteractionID keys).

   NOT covered here (runtime exploration in verifsys/checks/c16.py): the Go memory model,
   sync.RWMutex itself, races inside values and in the schema library, the unsafe variant
   UserSchemas (excluded by name in LockDiscipline.unsafe_excluded), callbacks that re-enter the
   same collection (would deadlock: sync.RWMutex is not re-entrant). *)
From Coq Require Import String.
From Coq Require Import List NArith Bool Permutation.
From JV.lib Require Import Bytes.
From JV.gen Require Import Collections RulesFacts.
From JV.model Require Import OrderedMap LockDiscipline RulesBuilder RulesLocks.
From JV.proofs Require Import OrderedMapProofs OrderedMapEachProofs RulesBuilderProofs RulesEachProofs.
Import ListNotations.

(* Atomicity premise, on the regenerated facts: in every safe collection every writer holds
   Lock, every reader RLock or Lock, the unlocked helper `has` is unexported and only called
   with a sufficient lock held, no locked method calls a locking one, the seven collections the
   property is about are present as safe variants, UserSchemas is the only unsafe one. *)
Theorem locks_ok : locks_check collections = true.
Proof. exact locks_ok_lemma. Qed.
Print Assumptions locks_ok.

(* every method body denotes the operation of the model that carries its name *)
Theorem ops_ok : ops_check collections = true.
Proof. exact ops_ok_lemma. Qed.
Print Assumptions ops_ok.

Theorem om_invariant :
  forall (K V : Type) (keq : K -> K -> bool), (forall a b, keq a b = true <-> a = b) ->
  forall (vzero : V) (ops : list (mop K V)),
  let m := om_run K V keq vzero ops in
  NoDup (order m) /\
  (forall k, In k (order m) <-> In k (map fst (data m))) /\
  NoDup (map fst (data m)).
Proof. exact om_invariant_lemma. Qed.
Print Assumptions om_invariant.

Theorem no_lost_update :
  forall (K V : Type) (keq : K -> K -> bool), (forall a b, keq a b = true <-> a = b) ->
  forall (vzero : V) (ops : list (mop K V)) (k : K),
  maps_succeed K V keq vzero ops = true ->
  om_get K V keq (om_run K V keq vzero ops) k = key_history K V keq k ops.
Proof. exact no_lost_update_lemma. Qed.
Print Assumptions no_lost_update.

Theorem last_set_wins :
  forall (K V : Type) (keq : K -> K -> bool), (forall a b, keq a b = true <-> a = b) ->
  forall (vzero : V) (ops : list (mop K V)) (k : K) (v : V),
  om_get K V keq (om_run K V keq vzero (ops ++ [OSet k v])) k = Some v.
Proof. exact last_set_wins_lemma. Qed.
Print Assumptions last_set_wins.

Theorem marshal_each_key_once :
  forall (K V : Type) (keq : K -> K -> bool), (forall a b, keq a b = true <-> a = b) ->
  forall (vzero : V) (ops : list (mop K V)),
  let m := om_run K V keq vzero ops in
  map fst (om_marshal K V keq vzero m) = order m /\
  NoDup (map fst (om_marshal K V keq vzero m)) /\
  (forall k v, In (k, v) (om_marshal K V keq vzero m) <-> om_get K V keq m k = Some v) /\
  List.length (om_marshal K V keq vzero m) = om_len K V m.
Proof. exact marshal_each_key_once_lemma. Qed.
Print Assumptions marshal_each_key_once.

Theorem has_iff_in_order :
  forall (K V : Type) (keq : K -> K -> bool), (forall a b, keq a b = true <-> a = b) ->
  forall (vzero : V) (ops : list (mop K V)) (k : K),
  om_has K V keq (om_run K V keq vzero ops) k = true <-> In k (order (om_run K V keq vzero ops)).
Proof. exact has_iff_in_order_lemma. Qed.
Print Assumptions has_iff_in_order.

(* the order is a function of the Set/SetToTop calls alone *)
Theorem order_is_order_history :
  forall (K V : Type) (keq : K -> K -> bool), (forall a b, keq a b = true <-> a = b) ->
  forall (vzero : V) (ops : list (mop K V)),
  order (om_run K V keq vzero ops) = order_history K V keq ops.
Proof. exact order_is_order_history_lemma. Qed.
Print Assumptions order_is_order_history.

(* "source order": keys in order of first insertion *)
Theorem first_insertion_order :
  forall (K V : Type) (keq : K -> K -> bool), (forall a b, keq a b = true <-> a = b) ->
  forall (vzero : V) (ops : list (mop K V)),
  no_set_to_top K V ops = true ->
  order (om_run K V keq vzero ops) = first_occ K keq [] (set_keys K V ops).
Proof. exact first_insertion_order_lemma. Qed.
Print Assumptions first_insertion_order.

Theorem set_keeps_position :
  forall (K V : Type) (keq : K -> K -> bool), (forall a b, keq a b = true <-> a = b) ->
  forall (vzero : V) (ops : list (mop K V)) (k : K) (v : V),
  In k (order (om_run K V keq vzero ops)) ->
  order (om_run K V keq vzero (ops ++ [OSet k v])) = order (om_run K V keq vzero ops) /\
  order (om_run K V keq vzero (ops ++ [OSetToTop k v])) = order (om_run K V keq vzero ops).
Proof. exact set_keeps_position_lemma. Qed.
Print Assumptions set_keeps_position.

Theorem update_missing_noop :
  forall (K V : Type) (keq : K -> K -> bool) (vzero : V) (ops : list (mop K V)) (k : K) (f : V -> V),
  om_get K V keq (om_run K V keq vzero ops) k = None ->
  om_run K V keq vzero (ops ++ [OUpdate k f]) = om_run K V keq vzero ops.
Proof. exact update_missing_noop_lemma. Qed.
Print Assumptions update_missing_noop.

(* Each / EachReverse when the callback returns an error (how the library stops at the first match, and how
   every diagnostic produced inside a callback leaves the loop), for EVERY collection state and EVERY callback:
   the callback was called on a prefix of the listing (of the reversed listing), an error is returned exactly
   when some entry makes the callback fail, the entry it stopped at is the FIRST such entry, and without an
   error every entry was visited.  The state is not changed (bcmd_step returns the collection it was given). *)
Theorem each_stops_at_first_error :
  forall (K V : Type) (keq : K -> K -> bool) (vzero : V) (stop : K -> V -> bool) (m : omap K V),
  let r := om_each_until K V keq vzero stop m in
  (exists rest, om_each K V keq vzero m = fst r ++ rest) /\
  snd r = existsb (stops K V stop) (om_each K V keq vzero m) /\
  (snd r = true -> exists pre kv, fst r = pre ++ [kv] /\ stops K V stop kv = true /\
  forallb (fun x => negb (stops K V stop x)) pre = true) /\
  (snd r = false -> fst r = om_each K V keq vzero m).
Proof. exact each_until_spec_lemma. Qed.
Print Assumptions each_stops_at_first_error.

Theorem each_reverse_stops_at_first_error :
  forall (K V : Type) (keq : K -> K -> bool) (vzero : V) (stop : K -> V -> bool) (m : omap K V),
  let r := om_each_reverse_until K V keq vzero stop m in
  (exists rest, rev (om_each K V keq vzero m) = fst r ++ rest) /\
  snd r = existsb (stops K V stop) (om_each K V keq vzero m) /\
  (snd r = true -> exists pre kv, fst r = pre ++ [kv] /\ stops K V stop kv = true /\
  forallb (fun x => negb (stops K V stop x)) pre = true) /\
  (snd r = false -> fst r = rev (om_each K V keq vzero m)).
Proof. exact each_reverse_until_spec_lemma. Qed.
Print Assumptions each_reverse_stops_at_first_error.

(* a callback that never fails is the plain listing: the early-return model and the listing model agree *)
Theorem each_never_fails_is_listing :
  forall (K V : Type) (keq : K -> K -> bool) (vzero : V) (m : omap K V),
  om_each_until K V keq vzero (fun _ _ => false) m = (om_each K V keq vzero m, false) /\
  om_each_reverse_until K V keq vzero (fun _ _ => false) m = (rev (om_each K V keq vzero m), false).
Proof. exact each_never_fails_is_listing_lemma. Qed.
Print Assumptions each_never_fails_is_listing.

(* Find returns the first entry of the listing that satisfies the predicate, none only when none does *)
Theorem find_first_match :
  forall (K V : Type) (keq : K -> K -> bool) (vzero : V) (p : K -> V -> bool) (m : omap K V),
  match om_find K V keq vzero p m with
  | Some kv => exists pre post, om_each K V keq vzero m = pre ++ kv :: post /\ stops K V p kv = true /\
  forallb (fun x => negb (stops K V p x)) pre = true
  | None => forallb (fun x => negb (stops K V p x)) (om_each K V keq vzero m) = true
  end.
Proof. exact find_first_match_lemma. Qed.
Print Assumptions find_first_match.

(* ... and is the entry an Each with the predicate as its failure condition stops at *)
Theorem find_is_each_until :
  forall (K V : Type) (keq : K -> K -> bool) (vzero : V) (p : K -> V -> bool) (m : omap K V),
  match om_find K V keq vzero p m with
  | Some kv => exists pre, fst (om_each_until K V keq vzero p m) = pre ++ [kv] /\
  snd (om_each_until K V keq vzero p m) = true
  | None => om_each_until K V keq vzero p m = (om_each K V keq vzero m, false)
  end.
Proof. exact find_is_each_until_lemma. Qed.
Print Assumptions find_is_each_until.

(* in every reachable state (every linearised history) a stopped Each has seen every key at most once and every
   value it saw is the value Get returns for that key *)
Theorem each_until_reachable :
  forall (K V : Type) (keq : K -> K -> bool), (forall a b, keq a b = true <-> a = b) ->
  forall (vzero : V) (ops : list (mop K V)) (stop : K -> V -> bool),
  let m := om_run K V keq vzero ops in
  let r := om_each_until K V keq vzero stop m in
  NoDup (map fst (fst r)) /\
  (forall k v, In (k, v) (fst r) -> om_get K V keq m k = Some v).
Proof. exact each_until_reachable_lemma. Qed.
Print Assumptions each_until_reachable.

(* the Set variant (catalog.StringSet) under any sequence of Add from the zero value *)
Theorem set_add_each_once :
  forall (K : Type) (keq : K -> K -> bool), (forall a b, keq a b = true <-> a = b) ->
  forall ks : list K,
  let s := os_run_from K keq os_empty ks in
  os_data K s = first_occ K keq [] ks /\ NoDup (os_data K s) /\
  os_len K s = List.length (os_data K s) /\
  (forall k, os_has K keq s k = true <-> In k ks).
Proof. exact set_add_each_once_lemma. Qed.
Print Assumptions set_add_each_once.

(* FINDING, stated as proved: the constructor NewStringSet(vv...) keeps duplicates of vv in the
   order (Data() lists a key twice, Len() disagrees with len(Data())).  It is used by tests only;
   no concurrent history of Add reaches such a state (set_add_each_once). *)
Theorem new_set_keeps_duplicates :
  exists vv : list bytes,
    ~ NoDup (os_data _ (os_new _ beq vv)) /\
    os_len _ (os_new _ beq vv) <> List.length (os_data _ (os_new _ beq vv)).
Proof. exact new_set_keeps_duplicates_lemma. Qed.
Print Assumptions new_set_keeps_duplicates.


(* ====================================================================================================
   The hand-written pair catalog.RulesBuilder / catalog.Rules (catalog/rules_builder.go, catalog/rules.go),
   model/RulesBuilder.v, lemmas in proofs/RulesBuilderProofs.v.

   WHAT IS MODELLED.  One struct {data []Rule; index map[string]int} reached through b.rules.
     Set(k, r)   one atomic step  [rb_set]:    r.Key = k; index[k] = len(data); data = append(data, r).
                 The lock is held for the whole body (rules_builder.go:20-21 are Lock / defer Unlock).  A second
                 Set of a key APPENDS a second rule with that key and re-points the index: nothing is overwritten.
     Append(r)   one atomic step  [rb_append]: data = append(data, r)  (rules_builder.go:30-31 lock prefix);
                 the rule keeps the Key the caller left in it and is not indexed.
     Rules()     [rb_rules] = identity: it returns the pointer b.rules (an alias, not a copy) WITHOUT locking.
     Len/Has/Get/Each/MarshalJSON of *Rules: functions of the state, NO lock (the struct has no mutex).
     NewRules(d) [rs_new].
   ATOMICITY.  "Set and Append are atomic steps" is justified by rules_locks_ok / rules_ops_ok below, computed on
   gen/RulesFacts.v, which go2coq regenerates from the two files on every run: the lock prefix must be the first
   two statements, the mutex may be mentioned nowhere else, the rest of the body must match the normal form of the
   operation statement by statement (so a statement moved in front of Lock(), a dropped defer, an early Unlock, a
   new statement all make the generator or these obligations fail), no field of the two structs is written
   outside the two files.  Hence every concurrent history of writers is one of the sequences [ops], schedules [sc]
   (lists of (goroutine, call) in the order the lock was granted) or interleavings [l] quantified below.
   READERS.  They take no lock (rules_readers_take_no_lock records it from the source), so they are NOT atomic with
   respect to a running Set: unlocked_get_during_set_panics is what an unlocked reader can hit.  The theorems
   about Get/Has/Len therefore speak about a state no writer is working on (writers joined), which is the only
   way the library uses the pair: newRulesBuilder is unexported and the builder never leaves the function that
   created it (catalog/schema.go:53, catalog/schema_jsight.go:125); concurrent readers alone are harmless (they
   write nothing).  The Go memory model and sync.RWMutex itself are outside the proof (c16.py: race detector).
   K, V arbitrary; keq decides equality (Go's == on string). *)

Theorem rules_locks_ok : rules_locks_check = true.
Proof. exact rules_locks_ok_lemma. Qed.
Print Assumptions rules_locks_ok.

(* every function of the two files denotes the operation of the model that carries its name; none is missing *)
Theorem rules_ops_ok : rules_ops_check = true.
Proof. exact rules_ops_ok_lemma. Qed.
Print Assumptions rules_ops_ok.

(* recorded from the source, not a safety condition: Rules() and every method of *Rules take no lock *)
Theorem rules_readers_take_no_lock : rules_readers_unlocked = true.
Proof. exact rules_readers_unlocked_lemma. Qed.
Print Assumptions rules_readers_take_no_lock.

(* INVARIANT: every index entry points inside data, at a rule that carries the key.  It holds initially and
   every atomic step preserves it, hence it holds in every reachable state. *)
Theorem rules_index_sound_initially :
  forall (K V : Type) (keq : K -> K -> bool), rb_inv K V keq rb_new.
Proof. exact inv_new. Qed.
Print Assumptions rules_index_sound_initially.

Theorem rules_index_sound_preserved :
  forall (K V : Type) (keq : K -> K -> bool), (forall a b, keq a b = true <-> a = b) ->
  forall (s : rstate K V) (o : wop K V), rb_inv K V keq s -> rb_inv K V keq (rb_step K V keq s o).
Proof. exact inv_step. Qed.
Print Assumptions rules_index_sound_preserved.

Theorem rules_index_sound :
  forall (K V : Type) (keq : K -> K -> bool), (forall a b, keq a b = true <-> a = b) ->
  forall (ops : list (wop K V)) (k : K) (i : nat),
  idx_get K keq k (rindex (rb_run K V keq ops)) = Some i ->
  (i < List.length (rdata (rb_run K V keq ops)))%nat /\
  exists r, nth_error (rdata (rb_run K V keq ops)) i = Some r /\ rkey r = k.
Proof. exact inv_run_lemma. Qed.
Print Assumptions rules_index_sound.

(* under the invariant Get never indexes out of range and returns a rule carrying the key asked for *)
Theorem rules_get_never_panics :
  forall (K V : Type) (keq : K -> K -> bool) (s : rstate K V) (k : K),
  rb_inv K V keq s -> exists o, rs_get K V keq s k = GOk o.
Proof. exact get_no_panic. Qed.
Print Assumptions rules_get_never_panics.

Theorem rules_get_returns_its_key :
  forall (K V : Type) (keq : K -> K -> bool) (s : rstate K V) (k : K) (r : rule K V),
  rb_inv K V keq s -> rs_get K V keq s k = GOk (Some r) -> rkey r = k.
Proof. exact get_returns_its_key. Qed.
Print Assumptions rules_get_returns_its_key.

(* THE STATE IS THE HISTORY: data lists one rule per call, in call order; the index of k is the position of the
   last Set of k.  "Every appended rule is present exactly once": position p of data is the rule of call p. *)
Theorem rules_data_is_history :
  forall (K V : Type) (keq : K -> K -> bool) (ops : list (wop K V)),
  rdata (rb_run K V keq ops) = map (entry_of K V) ops.
Proof. exact run_data_lemma. Qed.
Print Assumptions rules_data_is_history.

Theorem rules_index_is_last_set :
  forall (K V : Type) (keq : K -> K -> bool), (forall a b, keq a b = true <-> a = b) ->
  forall (ops : list (wop K V)) (k : K),
  idx_get K keq k (rindex (rb_run K V keq ops)) = last_set_pos K V keq k 0 ops.
Proof. exact run_index_lemma. Qed.
Print Assumptions rules_index_is_last_set.

Theorem rules_every_call_stored :
  forall (K V : Type) (keq : K -> K -> bool) (ops : list (wop K V)) (p : nat) (o : wop K V),
  nth_error ops p = Some o -> nth_error (rdata (rb_run K V keq ops)) p = Some (entry_of K V o).
Proof. exact every_call_stored_lemma. Qed.
Print Assumptions rules_every_call_stored.

Theorem rules_len_counts_calls :
  forall (K V : Type) (keq : K -> K -> bool) (ops : list (wop K V)),
  rs_len K V (rb_run K V keq ops) = List.length ops.
Proof. exact len_counts_calls_lemma. Qed.
Print Assumptions rules_len_counts_calls.

(* NO UPDATE IS LOST: Get k returns the rule {Key: k, value of the LAST Set of k in the history} *)
Theorem rules_no_lost_update :
  forall (K V : Type) (keq : K -> K -> bool), (forall a b, keq a b = true <-> a = b) ->
  forall (ops : list (wop K V)) (k : K),
  rs_get K V keq (rb_run K V keq ops) k =
  GOk (option_map (fun v => {| rkey := k; rval := v |}) (last_set K V keq k ops)).
Proof. exact get_last_set_lemma. Qed.
Print Assumptions rules_no_lost_update.

Theorem rules_last_set_wins :
  forall (K V : Type) (keq : K -> K -> bool), (forall a b, keq a b = true <-> a = b) ->
  forall (ops : list (wop K V)) (k : K) (x : rule K V),
  rs_get K V keq (rb_run K V keq (ops ++ [WSet k x])) k = GOk (Some {| rkey := k; rval := rval x |}).
Proof. exact rb_last_set_wins_lemma. Qed.
Print Assumptions rules_last_set_wins.

Theorem rules_has_iff_set :
  forall (K V : Type) (keq : K -> K -> bool), (forall a b, keq a b = true <-> a = b) ->
  forall (ops : list (wop K V)) (k : K),
  rs_has K V keq (rb_run K V keq ops) k = true <-> In k (rb_set_keys K V ops).
Proof. exact has_iff_set_lemma. Qed.
Print Assumptions rules_has_iff_set.

(* every Set is reachable through the index: its key resolves to its own position or to a later Set of that key *)
Theorem rules_every_set_indexed :
  forall (K V : Type) (keq : K -> K -> bool), (forall a b, keq a b = true <-> a = b) ->
  forall (ops : list (wop K V)) (p : nat) (k : K) (x : rule K V),
  nth_error ops p = Some (WSet k x) ->
  exists j y, idx_get K keq k (rindex (rb_run K V keq ops)) = Some j /\ (p <= j)%nat /\
              nth_error ops j = Some (WSet k y) /\
              rs_get K V keq (rb_run K V keq ops) k = GOk (Some {| rkey := k; rval := rval y |}).
Proof. exact every_set_indexed_lemma. Qed.
Print Assumptions rules_every_set_indexed.

(* EVERY KEY ONCE.  In ANY state the rules Get can reach carry pairwise different keys ... *)
Theorem rules_indexed_keys_once :
  forall (K V : Type) (keq : K -> K -> bool) (s : rstate K V),
  NoDup (map rkey (rs_indexed K V keq s)).
Proof. exact indexed_keys_nodup_lemma. Qed.
Print Assumptions rules_indexed_keys_once.

(* ... and when no key is Set twice they are exactly the rules the Set calls left, in call order: the order of
   first insertion is the order in data. *)
Theorem rules_first_insertion_order :
  forall (K V : Type) (keq : K -> K -> bool), (forall a b, keq a b = true <-> a = b) ->
  forall ops : list (wop K V),
  NoDup (rb_set_keys K V ops) ->
  rs_indexed K V keq (rb_run K V keq ops) = map (entry_of K V) (filter (is_set K V) ops) /\
  map rkey (rs_indexed K V keq (rb_run K V keq ops)) = rb_set_keys K V ops.
Proof.
  exact (fun K V keq Hk ops Hnd =>
           conj (indexed_when_keys_once_lemma K V keq Hk ops Hnd) (rb_first_insertion_order_lemma K V keq Hk ops Hnd)).
Qed.
Print Assumptions rules_first_insertion_order.

(* FINDING, stated as proved: Set does not overwrite.  After Set(k,x); Set(k,y) data holds BOTH rules under the
   key k (Each and MarshalJSON list the key twice, Len is 2) while Get reaches the second only.  "Every key
   appears exactly once in the order" therefore holds for a RulesBuilder only when no key is Set twice
   (rules_first_insertion_order); the library's two call sites Set the keys of an ordered map of the schema
   library, which are distinct. *)
Theorem rules_set_twice_keeps_both :
  forall (K V : Type) (keq : K -> K -> bool), (forall a b, keq a b = true <-> a = b) ->
  forall (k : K) (x y : rule K V),
  let s := rb_run K V keq [WSet k x; WSet k y] in
  rdata s = [{| rkey := k; rval := rval x |}; {| rkey := k; rval := rval y |}] /\
  ~ NoDup (map rkey (rdata s)) /\
  rs_get K V keq s k = GOk (Some {| rkey := k; rval := rval y |}) /\
  rs_indexed K V keq s = [{| rkey := k; rval := rval y |}] /\
  rs_len K V s = 2%nat.
Proof. exact set_twice_keeps_both_lemma. Qed.
Print Assumptions rules_set_twice_keeps_both.

(* ---- concurrency: schedules (lists of (goroutine, call)) ---- *)

(* everything above for an arbitrary schedule of any number of goroutines *)
Theorem rules_any_schedule :
  forall (K V : Type) (keq : K -> K -> bool), (forall a b, keq a b = true <-> a = b) ->
  forall sc : rb_sched K V,
  rb_inv K V keq (rb_run_sched K V keq sc) /\
  rdata (rb_run_sched K V keq sc) = map (entry_of K V) (rb_sched_ops K V sc) /\
  (forall k, rs_get K V keq (rb_run_sched K V keq sc) k =
             GOk (option_map (fun v => {| rkey := k; rval := v |}) (last_set K V keq k (rb_sched_ops K V sc)))) /\
  (forall k, rs_has K V keq (rb_run_sched K V keq sc) k = true <-> exists t x, In (t, WSet k x) sc) /\
  rs_len K V (rb_run_sched K V keq sc) = List.length sc.
Proof. exact any_schedule_lemma. Qed.
Print Assumptions rules_any_schedule.

(* determinism: the final state is a function of the order in which the lock was granted, nothing else *)
Theorem rules_sched_deterministic :
  forall (K V : Type) (keq : K -> K -> bool) (sc1 sc2 : rb_sched K V),
  rb_sched_ops K V sc1 = rb_sched_ops K V sc2 -> rb_run_sched K V keq sc1 = rb_run_sched K V keq sc2.
Proof. exact sched_deterministic_lemma. Qed.
Print Assumptions rules_sched_deterministic.

(* two schedules of the same per-goroutine programs store the same rules (as a multiset) and as many; if
   moreover every key is Set by one goroutine only, every Get and Has answers alike *)
Theorem rules_sched_content_independent :
  forall (K V : Type) (keq : K -> K -> bool), (forall a b, keq a b = true <-> a = b) ->
  forall sc1 sc2 : rb_sched K V,
  (forall t, rb_proj K V t sc1 = rb_proj K V t sc2) ->
  Permutation (rdata (rb_run_sched K V keq sc1)) (rdata (rb_run_sched K V keq sc2)) /\
  rs_len K V (rb_run_sched K V keq sc1) = rs_len K V (rb_run_sched K V keq sc2) /\
  (keys_owned K V sc1 ->
   forall k, rs_get K V keq (rb_run_sched K V keq sc1) k = rs_get K V keq (rb_run_sched K V keq sc2) k /\
             rs_has K V keq (rb_run_sched K V keq sc1) k = rs_has K V keq (rb_run_sched K V keq sc2) k).
Proof. exact sched_content_independent_lemma. Qed.
Print Assumptions rules_sched_content_independent.

(* ---- concurrency: interleavings of per-goroutine call lists ---- *)

(* the two formulations describe the same histories *)
Theorem rules_interleaving_is_schedule :
  forall (K V : Type) (ths : list (list (wop K V))) (l : list (wop K V)),
  interleaves ths l ->
  exists sc : rb_sched K V, rb_sched_ops K V sc = l /\ forall t, rb_proj K V t sc = nth t ths [].
Proof. exact interleaves_to_sched. Qed.
Print Assumptions rules_interleaving_is_schedule.

Theorem rules_schedule_is_interleaving :
  forall (K V : Type) (n : nat) (sc : rb_sched K V),
  (forall x, In x sc -> (fst x < n)%nat) ->
  interleaves (map (fun t => rb_proj K V t sc) (seq 0 n)) (rb_sched_ops K V sc).
Proof. exact (fun K V => @sched_interleaves (wop K V)). Qed.
Print Assumptions rules_schedule_is_interleaving.

(* for EVERY interleaving of any number of goroutines' calls: the invariant; data is itself an interleaving of
   what each goroutine stored (nothing lost, nothing twice, each goroutine's order kept); Get is the last Set *)
Theorem rules_any_interleaving :
  forall (K V : Type) (keq : K -> K -> bool), (forall a b, keq a b = true <-> a = b) ->
  forall (ths : list (list (wop K V))) (l : list (wop K V)),
  interleaves ths l ->
  rb_inv K V keq (rb_run K V keq l) /\
  interleaves (map (map (entry_of K V)) ths) (rdata (rb_run K V keq l)) /\
  (forall k, rs_get K V keq (rb_run K V keq l) k =
             GOk (option_map (fun v => {| rkey := k; rval := v |}) (last_set K V keq k l))) /\
  (forall k, rs_has K V keq (rb_run K V keq l) k = true <-> exists th, In th ths /\ In k (rb_set_keys K V th)) /\
  rs_len K V (rb_run K V keq l) = List.length (List.concat ths).
Proof. exact any_interleaving_lemma. Qed.
Print Assumptions rules_any_interleaving.

(* the content is independent of the interleaving: same rules as a multiset, same Len; with disjoint per-goroutine
   key sets also the same answer of Get and Has for every key *)
Theorem rules_interleaving_content_independent :
  forall (K V : Type) (keq : K -> K -> bool), (forall a b, keq a b = true <-> a = b) ->
  forall (ths : list (list (wop K V))) (l1 l2 : list (wop K V)),
  interleaves ths l1 -> interleaves ths l2 ->
  Permutation (rdata (rb_run K V keq l1)) (rdata (rb_run K V keq l2)) /\
  rs_len K V (rb_run K V keq l1) = rs_len K V (rb_run K V keq l2) /\
  (keys_disjoint K V ths ->
   forall k, rs_get K V keq (rb_run K V keq l1) k = rs_get K V keq (rb_run K V keq l2) k /\
             rs_has K V keq (rb_run K V keq l1) k = rs_has K V keq (rb_run K V keq l2) k).
Proof. exact interleaving_content_independent_lemma. Qed.
Print Assumptions rules_interleaving_content_independent.

(* Get returns what the key's only writer wrote last, whatever the other goroutines did in between *)
Theorem rules_get_own_writer :
  forall (K V : Type) (keq : K -> K -> bool), (forall a b, keq a b = true <-> a = b) ->
  forall (ths : list (list (wop K V))) (l : list (wop K V)) (t : nat) (k : K),
  interleaves ths l -> keys_disjoint K V ths -> In k (rb_set_keys K V (nth t ths [])) ->
  rs_get K V keq (rb_run K V keq l) k = rs_get K V keq (rb_run K V keq (nth t ths [])) k.
Proof. exact get_own_writer_lemma. Qed.
Print Assumptions rules_get_own_writer.

(* disjoint key sets and no goroutine Sets a key twice: every key once in the whole history, hence
   (rules_first_insertion_order) once among the rules Get can reach, in insertion order *)
Theorem rules_disjoint_keys_once :
  forall (K V : Type) (ths : list (list (wop K V))) (l : list (wop K V)),
  interleaves ths l -> keys_disjoint K V ths -> (forall th, In th ths -> NoDup (rb_set_keys K V th)) ->
  NoDup (rb_set_keys K V l).
Proof. exact disjoint_keys_once_lemma. Qed.
Print Assumptions rules_disjoint_keys_once.

(* the disjointness hypothesis is needed: a key Set from two goroutines ends with the value of whoever came last *)
Theorem rules_shared_key_depends_on_interleaving :
  forall (K V : Type) (keq : K -> K -> bool), (forall a b, keq a b = true <-> a = b) ->
  forall (k : K) (x y : rule K V),
  rval x <> rval y ->
  let ths := [[WSet k x]; [WSet k y]] in
  interleaves ths [WSet k x; WSet k y] /\ interleaves ths [WSet k y; WSet k x] /\
  rs_get K V keq (rb_run K V keq [WSet k x; WSet k y]) k <> rs_get K V keq (rb_run K V keq [WSet k y; WSet k x]) k.
Proof. exact shared_key_depends_on_interleaving_lemma. Qed.
Print Assumptions rules_shared_key_depends_on_interleaving.

(* the hypotheses are satisfiable: three goroutines, five keys, three anonymous rules, a mixed schedule *)
Theorem rules_hypotheses_satisfiable :
  interleaves rex_threads rex_l /\ interleaves rex_threads rex_l2 /\ rex_l <> rex_l2 /\
  keys_disjoint bytes bytes rex_threads /\
  (forall th, In th rex_threads -> NoDup (rb_set_keys bytes bytes th)).
Proof.
  exact (conj rex_interleaves (conj rex_interleaves2 (conj rex_differ (conj rex_keys_disjoint rex_each_goroutine_sets_its_keys_once)))).
Qed.
Print Assumptions rules_hypotheses_satisfiable.

(* FINDING, stated as proved: the readers are not protected.  Set is  index[k] = len(data)  THEN
   data = append(data, r)  (rb_set = rb_push after rb_set_index, by definition); a Get(k) that runs between the two
   statements - possible because Get takes no lock (rules_readers_take_no_lock) - finds index[k] = len(data) and
   indexes data out of range, in EVERY state.  Not reachable through the exported API today (see the header). *)
Theorem unlocked_get_during_set_panics :
  forall (K V : Type) (keq : K -> K -> bool), (forall a b, keq a b = true <-> a = b) ->
  forall (s : rstate K V) (k : K),
  rs_get K V keq (rb_set_index K V keq k s) k = GPanic "index out of range"%string.
Proof. exact torn_set_get_panics_lemma. Qed.
Print Assumptions unlocked_get_during_set_panics.

(* why the lock has to cover BOTH statements of Set (what rules_locks_ok protects): were the index write and the
   append two critical sections, two Sets could run  index(k1); index(k2); append(r2); append(r1)  and k1 would
   resolve to the rule stored for k2; the invariant is lost. *)
Theorem split_set_breaks_the_index :
  forall (K V : Type) (keq : K -> K -> bool), (forall a b, keq a b = true <-> a = b) ->
  forall (k1 k2 : K) (x1 x2 : rule K V),
  k1 <> k2 ->
  let s := rb_push K V {| rkey := k1; rval := rval x1 |}
             (rb_push K V {| rkey := k2; rval := rval x2 |}
                (rb_set_index K V keq k2 (rb_set_index K V keq k1 rb_new))) in
  rs_get K V keq s k1 = GOk (Some {| rkey := k2; rval := rval x2 |}) /\ ~ rb_inv K V keq s.
Proof. exact split_set_breaks_index_lemma. Qed.
Print Assumptions split_set_breaks_the_index.

(* NewRules(d) is Set(r.Key, r) for r in d: every theorem above applies to it *)
Theorem rules_new_rules_is_sets :
  forall (K V : Type) (keq : K -> K -> bool) (d : list (rule K V)),
  rs_new K V keq d = rb_run K V keq (map (fun r => WSet (rkey r) r) d).
Proof. exact new_rules_is_sets_lemma. Qed.
Print Assumptions rules_new_rules_is_sets.

(* Each of catalog.Rules when the callback returns an error (rules.go: the loop returns the first error), for EVERY
   state and EVERY callback: the callback was called on a prefix of the rules in data order, an error comes back
   exactly when some rule makes the callback fail, the rule it stopped at is the FIRST such rule, and without an
   error every rule was visited. *)
Theorem rules_each_stops_at_first_error :
  forall (K V : Type) (stop : K -> rule K V -> bool) (s : rstate K V),
  let r := rs_each_until K V stop s in
  (exists rest, rs_each K V s = fst r ++ rest) /\
  snd r = existsb (stops K (rule K V) stop) (rs_each K V s) /\
  (snd r = true -> exists pre kv, fst r = pre ++ [kv] /\ stops K (rule K V) stop kv = true /\
                                  forallb (fun x => negb (stops K (rule K V) stop x)) pre = true) /\
  (snd r = false -> fst r = rs_each K V s).
Proof. exact rules_each_until_spec_lemma. Qed.
Print Assumptions rules_each_stops_at_first_error.

Theorem rules_each_never_fails_is_listing :
  forall (K V : Type) (s : rstate K V),
  rs_each_until K V (fun _ _ => false) s = (rs_each K V s, false).
Proof. exact rules_each_never_fails_lemma. Qed.
Print Assumptions rules_each_never_fails_is_listing.

(* after ANY history of writers the callback is shown the calls made so far, oldest first, each under the key it
   was stored with, up to the first one it fails at *)
Theorem rules_each_until_is_history_prefix :
  forall (K V : Type) (keq : K -> K -> bool) (ops : list (wop K V)) (stop : K -> rule K V -> bool),
  let r := rs_each_until K V stop (rb_run K V keq ops) in
  exists rest, map (fun e => (@rkey K V e, e)) (map (entry_of K V) ops) = fst r ++ rest.
Proof. exact rules_each_until_history_lemma. Qed.
Print Assumptions rules_each_until_is_history_prefix.
