(* C08 — INCLUDE: confined to the project directory.  Nothing but theorem statements,
   each closed by `exact` of a lemma proved elsewhere, each followed by Print Assumptions. *)
From Coq Require Import List NArith Bool.
From JV.lib Require Import Bytes Paths.
From JV.gen Require Import IncludeName.
From JV.gen Require Import DirectiveTables ScannerTable.
From JV.model Require Import ScannerSem Core.
From JV.proofs Require Import IncludeNameProofs PathsProofs IncludeProofs.
Import ListNotations.

(* On the validator REGENERATED from core/include.go: every accepted name is non-empty,
   relative, backslash-free, and is "." or ".." or has no "." / ".." path component. *)
Theorem include_name_safe : forall s, validateIncludeFileName s = GOk None -> name_safe s.
Proof. exact include_name_safe_lemma. Qed.
Print Assumptions include_name_safe.

(* The only input on which the Go function panics (s[0] on the empty string).  The scanner never
   produces an empty Parameter lexeme (C14/C17), but the file name may be written in quotes and
   is unquoted first, so INCLUDE "" yields the empty name: processInclude refuses it before the
   validator is called (include_empty_name_rejected / include_no_validator_panic below). *)
Theorem include_name_total_nonempty : forall s, s <> [] -> exists r, validateIncludeFileName s = GOk r.
Proof. exact IncludeNameProofs.include_name_total_nonempty. Qed.
Print Assumptions include_name_total_nonempty.

(* filepath.Join(filepath.Dir(f), name) for a name whose components are all plain keeps the
   cleaned directory as a component-wise prefix: the included file lies under the includer's
   directory. *)
Theorem join_confined : forall d name,
  d <> [] ->
  (forall c, In c (split_byte p_slash name) -> plain c) ->
  clean_components (d ++ p_slash :: name) =
  clean_components d ++ filter nonempty (split_byte p_slash name).
Proof. exact join_components. Qed.
Print Assumptions join_confined.

(* ---- INCLUDE in the core model (model/Core.v), for EVERY scanner oracle, file system, ban set ----
   Vocabulary (proofs/IncludeProofs.v):
     include_param jsc enum banned s x1 path
                              INCLUDE is not banned, the next lexeme of the current scanner is a
                              Parameter with text `raw` and path = lib_unquote raw: the file name,
                              which may be written in quotes (x1 = the scanner after it)
     include_error s l k      {file of the current scanner; begin of the INCLUDE keyword l; k;
                              include trace of the (unchanged) scanner stack}
     stack_names s            the file names of the suspended scanners
     scan_step / scan_reach   one iteration of scanProject's loops / their closure
     names_within U s         the current and the suspended scanners carry names in U
     project_names files root the distinct names among root and the entries of the file system *)

(* an absolute name, a '.' or '..' component, a backslash: rejected at the INCLUDE keyword *)
Theorem include_bad_name_rejected : forall jsc_len enum_len files banned s l x1 path msg,
  include_param jsc_len enum_len banned s x1 path ->
  validateIncludeFileName path = GOk (Some msg) ->
  process_include jsc_len enum_len files banned s l = CErr (include_error s l CEIncludeBadName).
Proof. exact include_bad_name_rejected_lemma. Qed.
Print Assumptions include_bad_name_rejected.

(* the empty name (INCLUDE "": the name may be quoted) is refused like a missing parameter ... *)
Theorem include_empty_name_rejected : forall jsc_len enum_len files banned s l x1,
  include_param jsc_len enum_len banned s x1 [] ->
  process_include jsc_len enum_len files banned s l = CErr (include_error s l CEIncludeNoParam).
Proof. exact include_empty_name_rejected_lemma. Qed.
Print Assumptions include_empty_name_rejected.

(* ... so validateIncludeFileName is only ever called on a non-empty name, where it is total
   (include_name_total_nonempty): processInclude never panics in the validator; a panic can only be
   the scanner's (Next) or that of taking the text of the parameter lexeme *)
Theorem include_no_validator_panic : forall jsc_len enum_len files banned s l w,
  process_include jsc_len enum_len files banned s l = CPanic w ->
  sc_next jsc_len enum_len (cs_sc s) = Panic w \/
  exists x1 pl, sc_next jsc_len enum_len (cs_sc s) = Ok (x1, Some pl) /\ value_of x1 pl = CPanic w.
Proof. exact include_no_validator_panic_lemma. Qed.
Print Assumptions include_no_validator_panic.

Theorem include_missing_rejected : forall jsc_len enum_len files banned s l x1 path,
  include_param jsc_len enum_len banned s x1 path ->
  validateIncludeFileName path = GOk None ->
  fs_stat files (join2 (dir (sc_file (cs_sc s))) path) = None ->
  process_include jsc_len enum_len files banned s l = CErr (include_error s l CEIncludeNotExist).
Proof. exact include_missing_rejected_lemma. Qed.
Print Assumptions include_missing_rejected.

Theorem include_directory_rejected : forall jsc_len enum_len files banned s l x1 path,
  include_param jsc_len enum_len banned s x1 path ->
  validateIncludeFileName path = GOk None ->
  fs_stat files (join2 (dir (sc_file (cs_sc s))) path) = Some FDir ->
  process_include jsc_len enum_len files banned s l = CErr (include_error s l CEIncludeIsDir).
Proof. exact include_directory_rejected_lemma. Qed.
Print Assumptions include_directory_rejected.

(* a JSIGHT keyword while a scanner is suspended (= inside an included file) is never accepted:
   'not allowed in included file' at the keyword, unless the directive read before it was
   already misplaced (then that error, at that directive, comes first) *)
Theorem jsight_in_include_rejected : forall banned s l,
  cs_stack s <> [] ->
  exists e, process_keyword banned s l (kind_keyword KJsight) = CErr e /\
            (flush_cur s = CErr e \/ e = include_error s l CEJsightInInclude).
Proof. exact jsight_in_include_rejected_lemma. Qed.
Print Assumptions jsight_in_include_rejected.

(* Stack.Push refuses a scanner whose file name is already on the stack *)
Theorem include_cycle_rejected : forall jsc_len enum_len files banned s l x1 path content,
  include_param jsc_len enum_len banned s x1 path ->
  validateIncludeFileName path = GOk None ->
  fs_stat files (join2 (dir (sc_file (cs_sc s))) path) = Some (FFile content) ->
  In (sc_file (cs_sc s)) (stack_names s) ->
  process_include jsc_len enum_len files banned s l = CErr (include_error s l CEIncludeRecursion).
Proof. exact include_cycle_rejected_lemma. Qed.
Print Assumptions include_cycle_rejected.

(* a refused INCLUDE ends the scan with that diagnostic -- once the directive read before it has
   been placed (drainCurrentScanner calls processCurrentDirective before processInclude; s0 = the
   state after that; a misplaced directive is diagnosed first and the INCLUDE is not looked at:
   IncludeProofs.include_after_misplaced_directive) *)
Theorem include_rejection_ends_scan : forall jsc_len enum_len files banned f s x1 l k s0,
  sc_next jsc_len enum_len (cs_sc s) = Ok (x1, Some l) ->
  lexkind_eqb (lk l) LKeyword = true ->
  value_of x1 l = COk (kind_keyword KInclude) ->
  flush_cur (upd_sc s x1) = COk s0 ->
  process_include jsc_len enum_len files banned s0 l = CErr (include_error s0 l k) ->
  scan_project jsc_len enum_len files banned (S f) s = CErr (include_error s l k).
Proof. exact include_rejection_stops_scan. Qed.
Print Assumptions include_rejection_ends_scan.

(* no file name is ever twice on the scanner stack *)
Theorem include_stack_nodup : forall jsc_len enum_len files banned s s',
  NoDup (stack_names s) -> scan_step jsc_len enum_len files banned s s' -> NoDup (stack_names s').
Proof. exact scan_step_nodup. Qed.
Print Assumptions include_stack_nodup.

(* so include chains are never deeper than the number of distinct file names of the project *)
Theorem include_depth_bounded : forall jsc_len enum_len files banned root s s',
  NoDup (stack_names s) -> names_within (root :: map fst files) s ->
  scan_reach jsc_len enum_len files banned s s' ->
  NoDup (stack_names s') /\
  (List.length (cs_stack s') <= List.length (project_names files root))%nat.
Proof. exact include_depth_bounded_lemma. Qed.
Print Assumptions include_depth_bounded.

(* and at that depth every INCLUDE of a regular file is refused as a recursion: a cyclic chain is
   cut after at most that many levels *)
Theorem include_full_stack_rejected : forall jsc_len enum_len files banned root s l x1 path content,
  NoDup (stack_names s) -> names_within (root :: map fst files) s ->
  (List.length (project_names files root) <= List.length (cs_stack s))%nat ->
  include_param jsc_len enum_len banned s x1 path ->
  validateIncludeFileName path = GOk None ->
  fs_stat files (join2 (dir (sc_file (cs_sc s))) path) = Some (FFile content) ->
  process_include jsc_len enum_len files banned s l = CErr (include_error s l CEIncludeRecursion).
Proof. exact include_full_stack_rejected_lemma. Qed.
Print Assumptions include_full_stack_rejected.

(* the answers of the scan do not depend on the fuel *)
Theorem scan_project_fuel_irrelevant : forall jsc_len enum_len files banned f f' s r,
  (f <= f')%nat -> scan_project jsc_len enum_len files banned f s = r -> r <> CFuel ->
  scan_project jsc_len enum_len files banned f' s = r.
Proof. exact scan_project_fuel_le. Qed.
Print Assumptions scan_project_fuel_irrelevant.

(* ... also of the whole scan with the fuel as a parameter (scan_fuel_project, the fuel of
   scan_forest, is too small for projects that include a file many times: see
   IncludeProofs.scan_fuel_project_insufficient) *)
Theorem scan_forest_with_fuel_irrelevant : forall jsc_len enum_len files banned root f f' r,
  (f <= f')%nat -> scan_forest_with f jsc_len enum_len files banned root = r -> r <> CFuel ->
  scan_forest_with f' jsc_len enum_len files banned root = r.
Proof. exact scan_forest_with_fuel_le. Qed.
Print Assumptions scan_forest_with_fuel_irrelevant.

(* a successful INCLUDE opens the regular file at Clean(Dir(includer) + "/" + name) for a name the
   validator accepts (so name_safe); unless the name is "." or ".." (directories) its cleaned
   components are those of the includer's directory followed by the components of the name *)
Theorem included_path_confined : forall jsc_len enum_len files banned s l s',
  process_include jsc_len enum_len files banned s l = COk s' ->
  exists path content,
    validateIncludeFileName path = GOk None /\ name_safe path /\
    sc_file (cs_sc s') = clean (dir (sc_file (cs_sc s)) ++ p_slash :: path) /\
    fs_stat files (sc_file (cs_sc s')) = Some (FFile content) /\
    sc_data (cs_sc s') = content /\
    ((path = p_dot /\ clean_components (dir (sc_file (cs_sc s)) ++ p_slash :: path) = clean_components (dir (sc_file (cs_sc s)))) \/
     path = p_dotdot \/
     ((forall c, In c (split_byte p_slash path) -> plain c) /\
      clean_components (dir (sc_file (cs_sc s)) ++ p_slash :: path) =
      clean_components (dir (sc_file (cs_sc s))) ++ filter nonempty (split_byte p_slash path))) /\
    exists x1 : scn, sc_file x1 = sc_file (cs_sc s) /\ cs_stack s' = (x1, lb l) :: cs_stack s.
Proof. exact included_path_confined_lemma. Qed.
Print Assumptions included_path_confined.

(* processInclude asks the file system ONE question: the entry at Join(Dir(includer), name) for a
   validated name; two file systems that answer it alike give the same result *)
Theorem include_single_lookup : forall jsc_len enum_len banned files files' s l,
  (forall path, validateIncludeFileName path = GOk None ->
     fs_stat files (join2 (dir (sc_file (cs_sc s))) path) = fs_stat files' (join2 (dir (sc_file (cs_sc s))) path)) ->
  process_include jsc_len enum_len files banned s l = process_include jsc_len enum_len files' banned s l.
Proof. exact process_include_fs_access. Qed.
Print Assumptions include_single_lookup.

(* no file outside is ever opened: the whole scan depends on the file system only through the
   entries at names reachable from the root by Join(Dir(.), validated name) *)
Theorem scan_reads_only_reachable_names : forall jsc_len enum_len banned files files' root,
  (forall m path, include_reachable root m -> validateIncludeFileName path = GOk None ->
     fs_stat files (join2 (dir m) path) = fs_stat files' (join2 (dir m) path)) ->
  forall fuel content,
  scan_project jsc_len enum_len files banned fuel (init_state root content) =
  scan_project jsc_len enum_len files' banned fuel (init_state root content).
Proof. exact scan_root_fs_confined_lemma. Qed.
Print Assumptions scan_reads_only_reachable_names.

(* ---- JSIGHT inside an included file, and the balance of the scanner stack
        (proofs/CoreMoreProofs.v) ----
   Vocabulary:
     next_is_jsight jsc enum s x1 l   the next lexeme l of the current scanner is a Keyword whose
                                      text is JSIGHT (x1 = the scanner after it)
     init_state root content          the scan of the project starts: root file, empty scanner stack
     included_from root f tr          tr is the chain by which f is included from root, the direct
                                      includer first, the root last (props/C02.v) *)
From JV.proofs Require Import CoreMoreProofs.

(* A JSIGHT keyword read in ANY reached state whose scanner stack is non-empty -- first directive of
   the included file or not, before or after a nested INCLUDE of that file was entered and left --
   ends the whole scan with 'not allowed in included file' at that keyword, in that file, with its
   include trace (for every fuel beyond the iterations made; the directive read before it must
   find its place, otherwise its diagnostic comes first: jsight_in_include_rejected); the run goes
   no further.  The test is on the stack itself.  Example: CoreMoreProofs.ex_jsight_after_nested_include. *)
Theorem jsight_in_included_file : forall jsc_len enum_len files banned root content s x1 l,
  scan_reach jsc_len enum_len files banned (init_state root content) s ->
  cs_stack s <> [] -> next_is_jsight jsc_len enum_len s x1 l ->
  (exists s1, flush_cur (upd_sc s x1) = COk s1) ->
  (exists n, forall fuel, (n < fuel)%nat ->
     scan_project jsc_len enum_len files banned fuel (init_state root content) =
     CErr (include_error s l CEJsightInInclude)) /\
  (forall s', scan_reach jsc_len enum_len files banned (init_state root content) s' ->
              scan_reach jsc_len enum_len files banned s' s).
Proof. exact jsight_in_included_file_lemma. Qed.
Print Assumptions jsight_in_included_file.

(* push on entering a file, pop on leaving it: from a state s_in whose stack is (x, at) :: st (the
   file entered by the INCLUDE at offset `at` of the file x reads), every later state either still
   has that stack as a suffix of its own (so its stack is non-empty: the scan is inside), or comes
   after the state s_ret in which the file was left -- and there the scanner is x again and the
   stack is st, exactly as at the INCLUDE.  Example: CoreMoreProofs.ex_two_includes_balanced. *)
Theorem include_leave_restores : forall jsc_len enum_len files banned s_in s x at_ st,
  cs_stack s_in = (x, at_) :: st -> scan_reach jsc_len enum_len files banned s_in s ->
  (exists pre, cs_stack s = pre ++ (x, at_) :: st) \/
  (exists s_ret, scan_reach jsc_len enum_len files banned s_in s_ret /\
                 scan_reach jsc_len enum_len files banned s_ret s /\ cs_sc s_ret = x /\ cs_stack s_ret = st).
Proof. exact include_leave_restores_lemma. Qed.
Print Assumptions include_leave_restores.

(* the scan ends with the stack it started with when it starts at the root: empty.  (The model's
   stack holds the SUSPENDED scanners; Go's Stack also keeps the entry of the file being read.) *)
Theorem scan_ends_with_empty_stack : forall jsc_len enum_len files banned fuel s s',
  scan_project jsc_len enum_len files banned fuel s = COk s' -> cs_stack s' = [].
Proof. exact scan_ends_with_empty_stack_lemma. Qed.
Print Assumptions scan_ends_with_empty_stack.

(* an INCLUDE read under the empty stack -- every INCLUDE of the main file: the stack is empty again
   each time the main file is resumed (include_leave_restores with st = []) -- is never refused as
   a recursion: a main file may include any number of different files *)
Theorem include_under_empty_stack_no_recursion : forall jsc_len enum_len files banned s l e,
  cs_stack s = [] -> process_include jsc_len enum_len files banned s l = CErr e ->
  ce_kind e <> CEIncludeRecursion.
Proof. exact include_under_empty_stack_lemma. Qed.
Print Assumptions include_under_empty_stack_no_recursion.

(* under the empty stack it is the root file that is being read *)
Theorem empty_stack_reads_root : forall jsc_len enum_len files banned root content s,
  scan_reach jsc_len enum_len files banned (init_state root content) s ->
  cs_stack s = [] -> sc_file (cs_sc s) = root.
Proof. exact empty_stack_reads_root_lemma. Qed.
Print Assumptions empty_stack_reads_root.
