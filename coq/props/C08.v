(* C08 — INCLUDE: confined to the project directory.  Nothing but theorem statements,
   each closed by `exact` of a lemma proved elsewhere, each followed by Print Assumptions. *)
From Coq Require Import List NArith Bool.
From JV.lib Require Import Bytes Paths.
From JV.gen Require Import IncludeName.
From JV.proofs Require Import IncludeNameProofs PathsProofs.
Import ListNotations.

(* On the validator REGENERATED from core/include.go: every accepted name is non-empty,
   relative, backslash-free, and is "." or ".." or has no "." / ".." path component. *)
Theorem include_name_safe : forall s, validateIncludeFileName s = GOk None -> name_safe s.
Proof. exact include_name_safe_lemma. Qed.
Print Assumptions include_name_safe.

(* The only input on which the Go function panics (s[0] on the empty string); the scanner
   never produces an empty Parameter lexeme (C14/C17), so the panic is unreachable. *)
Theorem include_name_total_nonempty : forall s, s <> [] -> exists r, validateIncludeFileName s = GOk r.
Proof. exact IncludeNameProofs.include_name_total_nonempty. Qed.
Print Assumptions include_name_total_nonempty.

(* filepath.Join(filepath.Dir(f), name) for a name whose components are all plain keeps the
   cleaned directory as a component-wise prefix: the included file lies under the includer's
   directory. *)
Theorem join_confined : forall d name,
  d <> [] ->
  (forall c, In c (split_byte p_slash name) -> plain c) ->
  clean_components (d ++ p_slash :: name) =
  clean_components d ++ filter nonempty (split_byte p_slash name).
Proof. exact join_components. Qed.
Print Assumptions join_confined.
