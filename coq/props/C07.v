(* C07 — Macros are textual substitution, and recursion among them is refused.
   Model: model/Core.v (collect_macro, check_macro/find_paste/check_all_macros, paste_list,
   expand), validated against the implementation by ./check C06 and ./check C07.
   Specification: spec/MacroSpec.v (inline, paste_graph, has_cycle, uses, Reached). *)
From Coq Require Import List NArith Bool String.
From JV.lib Require Import Bytes.
From JV.gen Require Import DirectiveTables.
From JV.model Require Import Core.
From JV.spec Require Import MacroSpec.
From JV.proofs Require Import MacroProofs.
Import ListNotations.

(* ---- a second macro with the same name ---- *)

(* all definitions before the second one are in order: the diagnostic is CEDupName, at the second *)
Theorem duplicate_macro_rejected : forall pre t2 post r1 m1,
  collect_macro pre [] = COk (r1, m1) ->
  is_macro t2 = true -> macro_wf t2 = true ->
  (exists t1, In t1 pre /\ is_macro t1 = true /\ dname t1 = dname t2) ->
  expand (pre ++ t2 :: post) = CErr (kw_err (tree_dir t2) CEDupName).
Proof. exact duplicate_macro_rejected_lemma. Qed.
Print Assumptions duplicate_macro_rejected.

(* whatever else is wrong with the document, it is never accepted *)
Theorem duplicate_macro_never_accepted : forall a t1 b t2 c,
  is_macro t1 = true -> is_macro t2 = true -> dname t1 = dname t2 ->
  exists e, expand (a ++ t1 :: b ++ t2 :: c) = CErr e.
Proof. exact duplicate_macro_never_accepted_lemma. Qed.
Print Assumptions duplicate_macro_never_accepted.

(* ---- PASTE of a macro that is not defined ---- *)

(* a PASTE that the expansion reaches (in the document, or in the body of a macro that is
   reached) and that names no macro: the document is rejected *)
Theorem undefined_paste_rejected : forall ts b,
  Reached (macros_of ts) (strip_macros ts) b -> defined (macros_of ts) b = false ->
  exists e, expand ts = CErr e.
Proof. exact undefined_paste_rejected_lemma. Qed.
Print Assumptions undefined_paste_rejected.

(* the diagnostic, when it is the first thing that goes wrong: CEMacroNotFound, re-located at the PASTE *)
Theorem undefined_paste_diagnostic : forall m pre t post p p1 f1,
  paste_list f1 m pre p = COk p1 ->
  is_paste t = true -> d_annot (tree_dir t) = [] -> dname t <> [] -> macro_lookup m (dname t) = None ->
  exists f0, forall f, (f0 <= f)%nat ->
    paste_list f m (pre ++ t :: post) p =
    CErr (wrap_paste (tree_dir t) (kw_err (tree_dir t) CEMacroNotFound)).
Proof. exact undefined_paste_diag_fuel. Qed.
Print Assumptions undefined_paste_diagnostic.

(* an error inside a pasted body is re-located at, and wrapped by, every PASTE on the way *)
Theorem paste_error_wrapped : forall m t r p mt e f1,
  is_paste t = true -> d_annot (tree_dir t) = [] -> dname t <> [] -> macro_lookup m (dname t) = Some mt ->
  paste_list f1 m (tree_kids mt) p = CErr e ->
  exists f0, forall f, (f0 <= f)%nat -> paste_list f m (t :: r) p = CErr (wrap_paste (tree_dir t) e).
Proof. exact paste_error_wrapped_fuel. Qed.
Print Assumptions paste_error_wrapped.

(* ---- recursion: cycles of any length, in bounded time ---- *)

(* the check never runs out of fuel and never panics, for every table, with the fuel ... *)
Theorem recursion_check_terminates : forall m, table_ok m = true -> forall fuel, (check_fuel_needed m <= fuel)%nat ->
  check_all_macros fuel m (map fst m) [] = COk tt \/
  exists e, check_all_macros fuel m (map fst m) [] = CErr e /\
            (ce_kind e = CERecursion \/ ce_kind e = CENameRequired).
Proof. exact check_verdicts. Qed.
Print Assumptions recursion_check_terminates.

(* ... that `expand` passes *)
Theorem check_fuel_sufficient : forall m, (check_fuel_needed m <= check_fuel m)%nat.
Proof. exact check_fuel_enough. Qed.
Print Assumptions check_fuel_sufficient.

Theorem cycle_rejected : forall m, table_ok m = true -> forall fuel, (check_fuel_needed m <= fuel)%nat ->
  has_cycle m = true -> nameless_paste m = false ->
  exists e, check_all_macros fuel m (map fst m) [] = CErr e /\ ce_kind e = CERecursion.
Proof. exact cycle_rejected_lemma. Qed.
Print Assumptions cycle_rejected.

(* with a nameless PASTE in some macro the diagnostic may be the missing name; accepted it is not, with any fuel *)
Theorem cycle_never_accepted : forall m, table_ok m = true -> forall fuel, has_cycle m = true ->
  check_all_macros fuel m (map fst m) [] <> COk tt.
Proof. exact cycle_never_accepted_lemma. Qed.
Print Assumptions cycle_never_accepted.

Theorem acyclic_accepted : forall m, table_ok m = true -> forall fuel, (check_fuel_needed m <= fuel)%nat ->
  (check_all_macros fuel m (map fst m) [] = COk tt <-> has_cycle m = false /\ nameless_paste m = false).
Proof. exact check_passed_iff. Qed.
Print Assumptions acyclic_accepted.

(* has_cycle searches cycles of at most (length m) edges; that loses nothing *)
Theorem has_cycle_complete : forall m, table_ok m = true ->
  has_cycle m = false -> nameless_paste m = false ->
  forall k a, reaches k (paste_graph m) a a = false.
Proof. exact has_cycle_complete_lemma. Qed.
Print Assumptions has_cycle_complete.

Theorem cycle_rejected_by_expand : forall ts rest m,
  collect_macro ts [] = COk (rest, m) -> has_cycle m = true -> nameless_paste m = false ->
  exists e, expand ts = CErr e /\ ce_kind e = CERecursion.
Proof. exact cycle_rejected_expand_lemma. Qed.
Print Assumptions cycle_rejected_by_expand.

(* ---- the expansion terminates ---- *)

(* once the check has passed, fuel_needed (the DEPTH of the expansion) is enough ... *)
Theorem expand_terminates : forall m fuel0, table_ok m = true ->
  check_all_macros fuel0 m (map fst m) [] = COk tt ->
  forall ts p fuel, (fuel_needed m ts <= fuel)%nat ->
  match paste_list fuel m ts p with COk _ | CErr _ => True | _ => False end.
Proof. exact paste_terminates_lemma. Qed.
Print Assumptions expand_terminates.

(* ... and expand_fuel is more than that *)
Theorem expand_fuel_sufficient : forall m ts, (fuel_needed m ts <= expand_fuel ts m)%nat.
Proof. exact expand_fuel_enough. Qed.
Print Assumptions expand_fuel_sufficient.

(* so `expand` answers for every forest: no CFuel, no CPanic *)
Theorem expand_total : forall ts, match expand ts with COk _ | CErr _ => True | _ => False end.
Proof. exact expand_total_lemma. Qed.
Print Assumptions expand_total.

(* ---- pasting is inlining ---- *)

Theorem paste_is_inlining_partial : forall ts f,
  expand ts = COk f ->
  no_macro_nodes (inlined_document ts) = true ->
  expand (inlined_document ts) = COk f.
Proof. exact paste_is_inlining_lemma. Qed.
Print Assumptions paste_is_inlining_partial.

(* the guard holds when no macro body has a MACRO child (no scan produces one: MACRO does not admit MACRO) *)
Theorem paste_is_inlining : forall ts f,
  bodies_macro_free (macros_of ts) = true ->
  expand ts = COk f -> expand (inlined_document ts) = COk f.
Proof. exact paste_is_inlining_scanned_lemma. Qed.
Print Assumptions paste_is_inlining.

(* the other direction, now that no rule is collected while pasting: when the definitions are in order and
   acyclic (which is decided before anything is pasted), whatever the inlined document expands to, the
   document with macros expands to *)
Theorem inlining_is_paste : forall ts rest m f,
  collect_macro ts [] = COk (rest, m) ->
  check_all_macros (check_fuel m) m (map fst m) [] = COk tt ->
  no_macro_nodes (inlined_document ts) = true ->
  expand (inlined_document ts) = COk f -> expand ts = COk f.
Proof. exact inlining_is_paste_lemma. Qed.
Print Assumptions inlining_is_paste.

Theorem paste_iff_inlining : forall ts rest m f,
  collect_macro ts [] = COk (rest, m) ->
  check_all_macros (check_fuel m) m (map fst m) [] = COk tt ->
  bodies_macro_free m = true ->
  (expand ts = COk f <-> expand (inlined_document ts) = COk f).
Proof. exact paste_iff_inlining_lemma. Qed.
Print Assumptions paste_iff_inlining.

(* and the guard is needed on arbitrary forests *)
Theorem paste_is_inlining_refuted : exists ts f, expand ts = COk f /\ expand (inlined_document ts) <> COk f.
Proof. exact Examples.unguarded_refuted. Qed.
Print Assumptions paste_is_inlining_refuted.

(* ---- a macro that is never pasted contributes nothing ---- *)

Theorem unused_macro_inert : forall pre t post f,
  expand (pre ++ t :: post) = COk f ->
  is_macro t = true ->
  ~ Reached (macros_of (pre ++ t :: post)) (strip_macros (pre ++ t :: post)) (dname t) ->
  expand (pre ++ post) = COk f.
Proof. exact unused_macro_inert_lemma. Qed.
Print Assumptions unused_macro_inert.

Theorem unused_macro_inert_decidable : forall pre t post f,
  expand (pre ++ t :: post) = COk f ->
  is_macro t = true ->
  used (macros_of (pre ++ t :: post)) (strip_macros (pre ++ t :: post)) (dname t) = false ->
  expand (pre ++ post) = COk f.
Proof. exact unused_macro_inert_bool_lemma. Qed.
Print Assumptions unused_macro_inert_decidable.
