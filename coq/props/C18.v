(* C18 — Banned directives.  Theorems about the core model (model/Core.v), for EVERY scanner
   oracle (jsc_len, enum_len), file system and ban set.  Nothing but theorem statements, each
   closed by `exact` of a lemma of proofs/BanProofs.v, each followed by Print Assumptions.

   Vocabulary (proofs/BanProofs.v, proofs/IncludeProofs.v):
     state_dirs s / forest_dirs f   every directive held by a scan state (pending directive, open
                                    context frames and their subtrees, finished trees) / by a forest
     next_keyword jsc enum s x1 l kw k
                                    the next lexeme l of the current scanner is a Keyword whose text kw
                                    names directive kind k (x1 = the scanner after it)
     ban_error s l k                {file of the current scanner; begin of l; CENotAllowed k; include
                                    trace of the scanner stack}
     scan_step / scan_reach         one iteration of scanProject's loops / their closure
     meets_banned … banned s        the run WITHOUT the option reaches a state whose next lexeme is a
                                    keyword of a kind in `banned`
     not_allowed_error r            r = CErr e with ce_kind e = CENotAllowed _ *)
From Coq Require Import List NArith Bool.
From JV.lib Require Import Bytes.
From JV.gen Require Import DirectiveTables.
From JV.model Require Import ScannerSem Core.
From JV.proofs Require Import IncludeProofs BanProofs.
Import ListNotations.

Theorem ban_membership_is_by_kind : forall k l, kind_in k l = existsb (kind_eqb k) l.
Proof. exact (fun k l => eq_refl). Qed.
Print Assumptions ban_membership_is_by_kind.

(* A banned kind never survives the scan: the scan creates no directive of a banned kind. *)
Theorem ban_no_banned_directive : forall jsc_len enum_len files banned fuel s s',
  scan_project jsc_len enum_len files banned fuel s = COk s' ->
  (forall d, In d (state_dirs s) -> kind_in (d_kind d) banned = false) ->
  forall d, In d (state_dirs s') -> kind_in (d_kind d) banned = false.
Proof. exact ban_no_banned_directive_state. Qed.
Print Assumptions ban_no_banned_directive.

(* ... hence no node of the forest (macro bodies are ordinary subtrees) has a banned kind. *)
Theorem ban_no_banned_directive_in_forest : forall jsc_len enum_len files banned root f,
  scan_forest jsc_len enum_len files banned root = COk f ->
  forall d, In d (forest_dirs f) -> kind_in (d_kind d) banned = false.
Proof. exact ban_no_banned_directive_forest. Qed.
Print Assumptions ban_no_banned_directive_in_forest.

(* processKeyword: once the directive read before has found its place, a keyword of a banned kind
   (other than JSIGHT inside an included file, refused as such) is 'not allowed' at that keyword. *)
Theorem ban_keyword_not_allowed : forall banned s l kw k s1,
  flush_cur s = COk s1 ->
  cs_stack s = [] \/ beq kw (kind_keyword KJsight) = false ->
  directive_type kw = Some k -> kind_in k banned = true ->
  process_keyword banned s l kw = CErr (ban_error s l k).
Proof. exact ban_keyword_rejected. Qed.
Print Assumptions ban_keyword_not_allowed.

(* processInclude: the ban is tested before anything else is done there.  (Since /repo c51680e the
   directive read before the INCLUDE is placed first -- drainCurrentScanner calls
   processCurrentDirective before processInclude, model: process_lexeme -- so s is the state after
   that; at the lexeme level BanProofs.ban_include_lexeme_rejected, at the scan level
   ban_diagnostic_at_first below; a misplaced directive is diagnosed first:
   BanProofs.ban_after_misplaced_directive.) *)
Theorem ban_include_not_allowed : forall jsc_len enum_len files banned s l,
  kind_in KInclude banned = true ->
  process_include jsc_len enum_len files banned s l = CErr (ban_error s l KInclude).
Proof. exact ban_include_rejected. Qed.
Print Assumptions ban_include_not_allowed.

(* The scan ends at the first keyword of a banned kind with 'not allowed' located at it; nothing
   after it is processed (whatever fuel is left) -- provided the directive read just before can be
   placed (otherwise ITS diagnostic, at its keyword, ends the scan:
   BanProofs.ban_after_misplaced_directive).  Before /repo c51680e a banned INCLUDE was exempt from
   that proviso (the disjunct `k = KInclude`): the pending directive was not placed before an INCLUDE. *)
Theorem ban_diagnostic_at_first : forall jsc_len enum_len files banned fuel s x1 l kw k,
  next_keyword jsc_len enum_len s x1 l kw k -> kind_in k banned = true ->
  (exists s1, flush_cur (upd_sc s x1) = COk s1) ->
  cs_stack s = [] \/ k <> KJsight ->
  scan_project jsc_len enum_len files banned (S fuel) s = CErr (ban_error s l k).
Proof. exact ban_diagnostic_at_first_lemma. Qed.
Print Assumptions ban_diagnostic_at_first.

(* Without side conditions: a keyword of a banned kind is never passed. *)
Theorem ban_keyword_never_passed : forall jsc_len enum_len files banned fuel s x1 l kw k s',
  next_keyword jsc_len enum_len s x1 l kw k -> kind_in k banned = true ->
  scan_project jsc_len enum_len files banned (S fuel) s <> COk s'.
Proof. exact ban_never_passes. Qed.
Print Assumptions ban_keyword_never_passed.

(* INCLUDE banned: the scan is independent of the file system (fs_stat is the model's only access
   to files): nothing an INCLUDE names is read. *)
Theorem include_banned_reads_nothing : forall jsc_len enum_len banned,
  kind_in KInclude banned = true ->
  forall files files' fuel s,
  scan_project jsc_len enum_len files banned fuel s = scan_project jsc_len enum_len files' banned fuel s.
Proof. exact include_banned_reads_nothing_lemma. Qed.
Print Assumptions include_banned_reads_nothing.

(* ... and no scanner is ever suspended: only the root file is scanned. *)
Theorem include_banned_stack_empty : forall jsc_len enum_len banned,
  kind_in KInclude banned = true ->
  forall files s s',
  cs_stack s = [] -> scan_reach jsc_len enum_len files banned s s' ->
  cs_stack s' = [] /\ sc_file (cs_sc s') = sc_file (cs_sc s).
Proof. exact include_banned_stack_empty_lemma. Qed.
Print Assumptions include_banned_stack_empty.

(* A result that is not a 'not allowed' refusal is exactly the result without the option. *)
Theorem ban_conservative : forall jsc_len enum_len files banned fuel s,
  (forall e k, scan_project jsc_len enum_len files banned fuel s = CErr e -> ce_kind e <> CENotAllowed k) ->
  scan_project jsc_len enum_len files banned fuel s = scan_project jsc_len enum_len files [] fuel s.
Proof. exact ban_conservative_lemma. Qed.
Print Assumptions ban_conservative.

(* Conversely: a project in which the run without the option never comes to a keyword of a banned
   kind gives exactly the result it gives without the option. *)
Theorem ban_conservative_converse : forall jsc_len enum_len files banned fuel s,
  ~ meets_banned jsc_len enum_len files banned s ->
  scan_project jsc_len enum_len files banned fuel s = scan_project jsc_len enum_len files [] fuel s.
Proof. exact ban_conservative_converse_lemma. Qed.
Print Assumptions ban_conservative_converse.

(* The option is only ever felt as a 'not allowed' refusal of a project that contains a banned kind. *)
Theorem ban_only_refuses : forall jsc_len enum_len files banned fuel s,
  scan_project jsc_len enum_len files banned fuel s <> scan_project jsc_len enum_len files [] fuel s ->
  not_allowed_error (scan_project jsc_len enum_len files banned fuel s) /\
  meets_banned jsc_len enum_len files banned s.
Proof. exact ban_only_refuses_lemma. Qed.
Print Assumptions ban_only_refuses.

(* ---- the ban is tested where a keyword is READ, in every file (proofs/CoreMoreProofs.v) ----
   Vocabulary:
     reads_unbanned jsc enum files banned s0 s
                      the run WITHOUT the option comes from s0 to s by iterations of scanProject's
                      loops, and in no state before s is the next lexeme a keyword of a kind in
                      `banned`: a keyword of a banned kind read at s is the FIRST one in reading order
     init_state root content   the scan of the project starts: root file, empty scanner stack
   The state s is ANY state so reached: it may read the root file or a file included at any depth
   (cs_stack s = the suspended includers), inside a parenthesised MACRO body or not (the scan does
   not look at that), and k is any kind (MACRO, PASTE, INCLUDE, ...).  Then, for every fuel beyond
   the number of iterations made, the whole scan ends with 'not allowed' at that keyword, in the
   file s reads, with the include trace of that file -- provided, as in ban_diagnostic_at_first,
   that the directive read just before finds its place and the keyword is not a JSIGHT inside an
   included file.  And the run goes no further than s: every state the scan reaches lies on the
   way to s, so no INCLUDE standing after the keyword in reading order is entered.
   Example on a project of four files (INFO in the body of a never-pasted MACRO two levels down):
   CoreMoreProofs.ex_ban_first_in_reading_order. *)
From JV.proofs Require Import CoreMoreProofs.

Theorem ban_first_in_reading_order : forall jsc_len enum_len files banned root content s x1 l kw k,
  reads_unbanned jsc_len enum_len files banned (init_state root content) s ->
  next_keyword jsc_len enum_len s x1 l kw k -> kind_in k banned = true ->
  (exists s1, flush_cur (upd_sc s x1) = COk s1) ->
  cs_stack s = [] \/ k <> KJsight ->
  (exists n, forall fuel, (n < fuel)%nat ->
     scan_project jsc_len enum_len files banned fuel (init_state root content) = CErr (ban_error s l k)) /\
  (forall s', scan_reach jsc_len enum_len files banned (init_state root content) s' ->
              scan_reach jsc_len enum_len files banned s' s).
Proof. exact ban_first_in_reading_order_lemma. Qed.
Print Assumptions ban_first_in_reading_order.

(* up to the first keyword of a banned kind the run with the option is the run without it *)
Theorem reads_unbanned_is_reached : forall jsc_len enum_len files banned s0 s,
  reads_unbanned jsc_len enum_len files banned s0 s -> scan_reach jsc_len enum_len files banned s0 s.
Proof. exact reads_unbanned_reach. Qed.
Print Assumptions reads_unbanned_is_reached.

(* at the catalog stage the ban test comes before the table of adders: a directive of a banned kind is refused
   with `not allowed` at its keyword whether or not its kind has an adder, whatever the state *)
From JV.model Require Import Catalog.
From JV.proofs Require Import AdderProofs.
Theorem banned_refused_before_any_adder :
  forall (body_text : coords -> bytes) (banned : list kind) t anc b,
  kind_in (d_kind (tree_dir t)) banned = true ->
  add_directive body_text banned t anc b = CErr (kw_err (tree_dir t) (CENotAllowed (d_kind (tree_dir t)))).
Proof. exact banned_before_adder_lemma. Qed.
Print Assumptions banned_refused_before_any_adder.
