(* C18 — Banned directives (theorems are added by proofs/BanProofs.v) *)
From Coq Require Import List NArith Bool.
From JV.gen Require Import DirectiveTables.
From JV.model Require Import Core.
Import ListNotations.

Theorem ban_membership_is_by_kind : forall k l, kind_in k l = existsb (kind_eqb k) l.
Proof. exact (fun k l => eq_refl). Qed.
Print Assumptions ban_membership_is_by_kind.
