(* C04 — Catalog faithfulness (skeleton level): the catalog contains exactly the declared info, servers,
   user types, enums, tags and HTTP / JSON-RPC interactions, each with its declared path, method,
   annotation, description, query, request, responses, params, result - in source order, and nothing else.
   Nothing but theorem statements, each closed by `exact` of a lemma of proofs/FaithfulProofs.v,
   ContentProofs.v, InfoProofs.v, each followed by Print Assumptions.

   [build pp bt banned post = COk c]: c is the catalog of an accepted project whose expanded directive
   forest is [post].  positions_all post = the nodes of the forest in PRE-ORDER (= source order), each with
   its ancestors (innermost first).  dk t = the kind of node t.

   Vocabulary (definitions of proofs/FaithfulProofs.v, all computable):
     srv_delta t / type_delta t  = [Name parameter] for a SERVER / TYPE node, [] otherwise
     inter_delta t anc           = [the interaction id] of a GET/POST/PUT/PATCH/DELETE node (protocol http,
                                   its keyword, its path: own Path parameter or the enclosing URL's) or of a
                                   Method node (json-rpc-2.0, MethodName, the URL's path); [] otherwise
     auto_use t anc              = [automatic tag name of the id's path] for such a node when NO Tags
                                   directive decides for it; [] otherwise
     server_names / type_names / method_ids / auto_uses / method_annots l = these, concatenated over a list
                                   of positions
     enum_node / enum_entry, tag_node / tag_entry: top-level ENUM nodes with a body / TAG nodes and the
                                   (name, annotation) resp. (name, tag) they declare
     add_new acc n               = acc if n is in acc, else acc ++ [n]
   What is NOT covered (schema level, outside the skeleton): the content of schemas, user types' and enums'
   values, headers, path variables' schema. *)
From Coq Require Import List NArith Bool String.
From JV.lib Require Import Bytes.
From JV.gen Require Import DirectiveTables TagName.
From JV.model Require Import ScannerSem Core TagTitle Catalog.
From JV.proofs Require Import CatalogProofs FaithfulProofs ContentProofs BodyProofs InfoProofs DescProofs FaithfulExamples LocalityExamples.
Import ListNotations.
Open Scope N_scope.

(* (a)+(b) the keys of the five collections, in order, exactly:
   servers / types     = the names of the SERVER / TYPE nodes in source order;
   enums               = the top-level ENUM nodes that have a body, in order, each with its annotation;
   tags                = the top-level TAG directives in order, THEN the automatic tags in order of first
                         use (an automatic name equal to an earlier key - declared or automatic - adds nothing);
   interactions        = the ids of the method nodes in source order; their annotations are the nodes' *)
Theorem catalog_keys : forall pp bt banned post c,
  build pp bt banned post = COk c ->
  map fst (c_servers c) = server_names (positions_all post) /\
  map fst (c_types c) = type_names (positions_all post) /\
  c_enums c = map enum_entry (filter enum_node post) /\
  map fst (c_tags c) =
    fold_left add_new (auto_uses (positions_all post)) (map fst (map tag_entry (filter tag_node post))) /\
  map fst (c_inters c) = method_ids (positions_all post) /\
  aview (c_inters c) = method_annots (positions_all post).
Proof. exact catalog_keys_lemma. Qed.
Print Assumptions catalog_keys.

(* ... no fewer: every GET/POST/../Method node of the forest makes exactly one id, which is a key *)
Theorem every_method_makes_an_interaction : forall pp bt banned post c,
  build pp bt banned post = COk c ->
  forall t anc, In (t, anc) (positions_all post) -> method_kind t = true ->
    exists i, inter_delta t anc = [i] /\ made_by t anc i /\ In i (map fst (c_inters c)).
Proof. exact every_method_makes_an_interaction_lemma. Qed.
Print Assumptions every_method_makes_an_interaction.

(* the declared tags are exactly the TAG directives, with title = annotation or name *)
Theorem declared_tags_exact : forall ts tg,
  collect_tags ts [] = COk tg -> tg = map tag_entry (filter tag_node ts).
Proof. exact declared_tags_exact_lemma. Qed.
Print Assumptions declared_tags_exact.

(* (c) the content of every interaction.  cview x = (description, query (format, example), has request,
   responses (code, annotation) in order, has params, has result); events bt t anc j = the content event the
   directive at (t, anc) is for interaction j (Description under a method -> its normalised text; Query;
   Request; a response code; Params; Result - when its http_id / rpc_id is j); apply_event puts it in.
   FULL statement: each interaction was made by exactly ONE method directive (no other position makes its id);
   its annotation is that directive's; its content is the fold of the events of the positions AFTER that
   directive, in source order, starting from the empty content - nothing else contributes. *)
Theorem content_faithful : forall pp bt banned post c,
  build pp bt banned post = COk c ->
  forall j x, In (j, x) (c_inters c) ->
    exists l1 t anc l2,
      positions_all post = l1 ++ (t, anc) :: l2 /\ inter_delta t anc = [j] /\ made_by t anc j /\
      ~ In j (method_ids l1) /\ ~ In j (method_ids l2) /\
      iannot x = d_annot (tree_dir t) /\
      cview x = fold_left apply_event (events_of bt j l2) cv_empty.
Proof. exact content_faithful_lemma. Qed.
Print Assumptions content_faithful.

(* reading the fold: the response codes are those of the ECode events in order; request / params / result
   are present iff such an event exists; query and description are those of the last such event *)
Theorem content_read : forall evs v,
  let v' := fold_left apply_event evs v in
  cv_codes v' = cv_codes v ++ flat_map code_of evs /\
  cv_req v' = cv_req v || existsb is_req evs /\
  cv_params v' = cv_params v || existsb is_params evs /\
  cv_result v' = cv_result v || existsb is_result evs /\
  cv_query v' = fold_left last_query evs (cv_query v) /\
  cv_desc v' = fold_left last_desc evs (cv_desc v).
Proof. exact fold_events_read. Qed.
Print Assumptions content_read.

(* the children of a method directive resolve to its interaction (so their events are its events) *)
Theorem http_children_resolve : forall t anc k p,
  is_http_method (dk t) = true -> path_of (tree_dir t) anc = PathOk p ->
  is_http_method (dk k) = false -> kind_eqb (dk k) KURL = false ->
  http_id (tree_dir k) (t :: anc) = IdOk {| i_proto := PHttp; i_method := method_name (dk t); i_path := p |}.
Proof. exact http_child_resolves. Qed.
Print Assumptions http_children_resolve.

Theorem rpc_children_resolve : forall t anc k i,
  dk t = KMethod -> rpc_id (tree_dir t) anc = IdOk i ->
  is_http_method (dk k) = false -> kind_eqb (dk k) KURL = false -> kind_eqb (dk k) KMethod = false ->
  rpc_id (tree_dir k) (t :: anc) = IdOk i.
Proof. exact rpc_child_resolves. Qed.
Print Assumptions rpc_children_resolve.

(* content_faithful_partial: what is MISSING for "exactly its children": that in the expanded forest a
   content directive resolving to j stands only below j's method directive.  This is the context table
   (C06: every edge of the forest is admitted); with it l2's events for j are those of the children of t.
   Not proved here: the request/response BODIES' provenance (format is covered by C09
   format_matches_notation), headers, and the description of INFO / TAG. *)

(* (d) jsight, INFO, Title, Version: from the directives of these kinds (at most one each takes effect;
   a second one is rejected); japi_title c = Title(), info_version c = info.version *)
Theorem info_faithful : forall pp bt banned post c,
  build pp bt banned post = COk c ->
  (forall p, In p (positions_all post) -> dk (fst p) = KJsight ->
     c_jsight c = named (tree_dir (fst p)) (bs "Version") /\ c_jsight c = bs "0.3") /\
  (no_kind post KJsight -> c_jsight c = []) /\
  (forall p, In p (positions_all post) -> dk (fst p) = KTitle -> japi_title c = named (tree_dir (fst p)) (bs "Title")) /\
  (no_kind post KTitle -> japi_title c = []) /\
  (forall p, In p (positions_all post) -> dk (fst p) = KVersion -> info_version c = named (tree_dir (fst p)) (bs "Version")) /\
  (no_kind post KVersion -> info_version c = []) /\
  (forall p, In p (positions_all post) -> dk (fst p) = KInfo -> exists i, c_info c = Some i /\ in_dir i = tree_dir (fst p)) /\
  (no_kind post KInfo -> c_info c = None).
Proof. exact info_faithful_lemma. Qed.
Print Assumptions info_faithful.

(* the hypotheses are satisfiable: a document with INFO, SERVER, TAG, TYPE, ENUM, a URL with two HTTP methods
   (query, request, three responses, URL-level Tags), a root-level method and a JSON-RPC method *)
Theorem faithful_example :
  exists c, ex_build ex_full_forest = COk c /\
    map fst (c_servers c) = [bs "@s"] /\ map fst (c_types c) = [bs "@cat"] /\ c_enums c = [(bs "@e", [])] /\
    map fst (c_tags c) = [bs "@pets"; bs "@dogs"; bs "@rpc"] /\
    map fst (c_inters c) = method_ids (positions_all ex_full_forest) /\
    map (fun e => (iid_string (fst e), iannot (snd e), cview (snd e))) (c_inters c) =
      [ (bs "http GET /cats", bs "list",
         cvx None (Some (bs "htmlFormEncoded", bs "a=1")) false [(bs "200", []); (bs "404", [])] false false);
        (bs "http POST /cats", [], cvx None None true [(bs "201", bs "made")] false false);
        (bs "http GET /dogs", [], cvx None None false [(bs "200", [])] false false);
        (bs "json-rpc-2.0 foo /rpc", bs "f", cvx None None false [] true true) ] /\
    c_jsight c = bs "0.3" /\ japi_title c = bs "T" /\ info_version c = bs "1".
Proof. exact FaithfulExamples.faithful_example. Qed.
Print Assumptions faithful_example.

(* ======================================================================================= *)
(* (c) at FULL strength: bodies, headers and schema descriptors (proofs/BodyProofs.v).
   fview x = (description, query with its schema descriptor, request (body, headers), responses in order as
   (code, annotation, body, headers), params, result); a body is (format, schema descriptor), a schema
   descriptor says where the schema text comes from (the body of a directive / a type reference / none).
   events2 bt t anc j = the content events the directive at (t, anc) is for interaction j:
     Description under a method -> FDesc text;  Query -> FQuery {format; example; schema_of d};
     Request -> FReq, then FReqBody (request_body_of d) when the directive itself carries the body;
     Body under Request -> FReqBody (request_body_of d);  Headers under Request -> FReqHeaders (schema_of d);
     a response code -> FResp code annotation, then FRespBody (response_body_of d) when it carries the body;
     Body under a response code -> FRespBody (response_body_of d): it fills the LAST response;
     Headers under a response code -> FRespHeaders (schema_of d) (the last response);
     Params / Result -> FParams / FResult (schema_of d)
   where request_body_of / response_body_of are the (format, descriptor) the directive's notation, Type
   parameter and body determine.  As in content_faithful: exactly one directive makes the interaction; its
   content is the fold of the events of the positions after it, in source order, from the empty content.
   NOT covered: the descriptions of INFO and TAG (info_faithful covers title / version / presence). *)
Theorem full_content_faithful : forall pp bt banned post c,
  build pp bt banned post = COk c ->
  forall j x, In (j, x) (c_inters c) ->
    exists l1 t anc l2,
      positions_all post = l1 ++ (t, anc) :: l2 /\ inter_delta t anc = [j] /\ made_by t anc j /\
      ~ In j (method_ids l1) /\ ~ In j (method_ids l2) /\
      iannot x = d_annot (tree_dir t) /\
      fview x = fold_left apply2 (events2_of bt j l2) fv_empty.
Proof. exact full_content_faithful_lemma. Qed.
Print Assumptions full_content_faithful.

(* ======================================================================================= *)
(* the descriptions of INFO and of the tags (proofs/DescProofs.v).
   idesc c = info.description; tdesc n c = the description of the tag named n; vtext bt t = the normalised text
   of the Description directive t; p_info t anc = t is a Description directly under INFO; p_tag n t anc = t is a
   Description directly under a TAG directive named n.
   FULL: the stored description is the text of THE Description child - wherever one stands there is no other
   (before or after it in source order), and when none stands there is no description. *)
Theorem info_desc_faithful : forall pp bt banned post c,
  build pp bt banned post = COk c ->
  ((forall q, In q (positions_all post) -> p_info (fst q) (snd q) = false) -> idesc c = None) /\
  (forall l1 q l2, positions_all post = l1 ++ q :: l2 -> p_info (fst q) (snd q) = true ->
     idesc c = Some (vtext bt (fst q)) /\
     (forall y, In y l1 -> p_info (fst y) (snd y) = false) /\ (forall y, In y l2 -> p_info (fst y) (snd y) = false)).
Proof. exact info_desc_faithful_lemma. Qed.
Print Assumptions info_desc_faithful.

Theorem tag_desc_faithful : forall pp bt banned post c,
  build pp bt banned post = COk c ->
  forall n,
  ((forall q, In q (positions_all post) -> p_tag n (fst q) (snd q) = false) -> tdesc n c = None) /\
  (forall l1 q l2, positions_all post = l1 ++ q :: l2 -> p_tag n (fst q) (snd q) = true ->
     tdesc n c = Some (vtext bt (fst q)) /\
     (forall y, In y l1 -> p_tag n (fst y) (snd y) = false) /\ (forall y, In y l2 -> p_tag n (fst y) (snd y) = false)).
Proof. exact tag_desc_faithful_lemma. Qed.
Print Assumptions tag_desc_faithful.

(* ======================================================================================= *)
(* JSON-RPC Params and Result are independent slots (proofs/CatalogMoreProofs.v).
   run bt banned l b = the adders of the positions l, in order, from state b (add_all is this run over
   positions_all: FaithfulProofs.add_all_run).  For a Params node p and a Result node r at ANY two positions
   and in ANY state: Params-then-Result is accepted iff Result-then-Params is, and the resulting state -
   the whole catalog under construction - is the same.  (Step level: that exchanging two sibling leaves of
   the forest leaves every OTHER step unchanged is not part of this statement.) *)
From JV.proofs Require Import CatalogMoreProofs.

Theorem params_result_order_free : forall bt banned p ancp r ancr b b',
  dk p = KParams -> dk r = KResult ->
  (run bt banned [(p, ancp); (r, ancr)] b = COk b' <-> run bt banned [(r, ancr); (p, ancp)] b = COk b').
Proof. exact params_result_commute_lemma. Qed.
Print Assumptions params_result_order_free.

(* the hypotheses are satisfiable, and on a whole document: JSIGHT 0.3 /
   URL /r { Protocol json-rpc-2.0, Method foo { Params {..}, Result {..} } } and the same document with Result
   before Params are both accepted, with one and the same catalog: both slots filled *)
Theorem params_result_order_example :
  dk ex_params = KParams /\ dk ex_result = KResult /\
  exists c, ex_build (ex_slots_forest [ex_params; ex_result]) = COk c /\
            ex_build (ex_slots_forest [ex_result; ex_params]) = COk c /\
    map (fun e => (iid_string (fst e), cview (snd e))) (c_inters c) =
      [(bs "json-rpc-2.0 foo /r", cvx None None false [] true true)].
Proof. exact CatalogMoreProofs.params_result_order_example. Qed.
Print Assumptions params_result_order_example.

(* "... and nothing else": which directive kinds act on the catalog when the tree is walked.  adder_kinds is the key
   set of core.directiveFunctions as go2coq reads it from NewJApiCore on EVERY run; `addDirective` does nothing for
   a kind that is not a key.  The hand model has a case for exactly those kinds, and is the identity on every
   other kind - for every directive, every ancestor chain and every state. *)
From JV.proofs Require Import AdderProofs.

Theorem adders_are_the_modelled_cases : same_kind_set modelled_adders adder_kinds = true.
Proof. exact adders_agree_lemma. Qed.
Print Assumptions adders_are_the_modelled_cases.

Theorem no_adder_is_noop :
  forall (body_text : coords -> bytes) (banned : list kind) t anc b,
  kind_in (d_kind (tree_dir t)) banned = false ->
  kind_in (d_kind (tree_dir t)) adder_kinds = false ->
  add_directive body_text banned t anc b = COk b.
Proof. exact no_adder_is_noop_lemma. Qed.
Print Assumptions no_adder_is_noop.

Theorem kinds_without_adder :
  filter (fun k => negb (kind_in k adder_kinds)) all_kinds = [KPath; KEnum; KMacro; KPaste; KInclude; KTAG].
Proof. exact kinds_without_adder_lemma. Qed.
Print Assumptions kinds_without_adder.
