(* C06 — Context resolution (theorems are added by proofs/ContextProofs.v; placeholder with the
   table facts for now) *)
From Coq Require Import List NArith Bool.
From JV.gen Require Import DirectiveTables.
From JV.model Require Import Core.
Import ListNotations.

(* the admissibility tables REGENERATED from directive/enumeration.go are what the model walks *)
Theorem root_kinds_are_admitted_nowhere_needed : forall k, root_allowed k = kind_in k root_allowed_list.
Proof. exact (fun k => eq_refl). Qed.
Print Assumptions root_kinds_are_admitted_nowhere_needed.
