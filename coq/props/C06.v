(* C06 — Context resolution: each directive lands under the nearest admitting parent.
   Model: model/Core.v (process_context, close_explicit, has_unclosed_explicit, close_all), validated
   against core/context_processing.go + core/scan_project.go by ./check C06.
   Specification: spec/ContextSpec.v (resolve_all = the fold of the model's functions over items;
   open_chain / walk / spec_parent = the independent declarative reading of the property).
   Proofs: proofs/ContextProofs.v.  All statements are for ALL item lists (no length bound). *)
From Coq Require Import List NArith Bool.
From JV.gen Require Import DirectiveTables.
From JV.model Require Import Core.
From JV.spec Require Import ContextSpec.
From JV.proofs Require Import ContextProofs ShapeProofs.
Import ListNotations.

(* the admissibility tables REGENERATED from directive/enumeration.go are what the model walks *)
Theorem root_kinds_are_admitted_nowhere_needed : forall k, root_allowed k = kind_in k root_allowed_list.
Proof. exact (fun k => eq_refl). Qed.
Print Assumptions root_kinds_are_admitted_nowhere_needed.

(* ---- fuel is sufficient ---- *)
Theorem process_context_fuel_sufficient : forall d fr rt, process_context (ctx_fuel fr) d fr rt <> CFuel.
Proof. exact process_context_never_out_of_fuel. Qed.
Print Assumptions process_context_fuel_sufficient.

Theorem close_explicit_fuel_sufficient : forall fr rt,
  close_explicit (S (List.length fr)) fr rt = None <-> has_unclosed_explicit fr = false.
Proof. exact close_explicit_none_iff. Qed.
Print Assumptions close_explicit_fuel_sufficient.

Theorem resolve_never_panics_or_runs_out : forall l,
  (exists st, resolve l = COk st) \/ (exists e, resolve l = CErr e).
Proof. exact resolve_total. Qed.
Print Assumptions resolve_never_panics_or_runs_out.

(* ---- nothing lost, duplicated or reordered ---- *)
Theorem resolve_preorder : forall l f, resolve_all l = COk f -> flatten f = dirs l.
Proof. exact ContextProofs.resolve_preorder. Qed.
Print Assumptions resolve_preorder.

(* ---- every edge is admitted by the table, every top-level tree may stand at top level ---- *)
Theorem resolve_admissible : forall l f,
  resolve_all l = COk f ->
  Forall (fun t => root_allowed (d_kind (tree_dir t)) = true /\ edges_ok t = true) f.
Proof. exact ContextProofs.resolve_admissible. Qed.
Print Assumptions resolve_admissible.

Theorem resolve_admissible_edges : forall l f t p q,
  resolve_all l = COk f -> In t f -> tree_edge t p q -> ctx_allowed (d_kind p) (d_kind q) = true.
Proof. exact ContextProofs.resolve_admissible_edges. Qed.
Print Assumptions resolve_admissible_edges.

Theorem resolve_admissible_roots : forall l f t,
  resolve_all l = COk f -> In t f ->
  root_allowed (d_kind (tree_dir t)) = true \/ path_method (tree_dir t) = true.
Proof. exact ContextProofs.resolve_admissible_roots. Qed.
Print Assumptions resolve_admissible_roots.

(* ---- the parent is the one the declarative specification names ---- *)
Theorem resolve_nearest : forall l f,
  resolve_all l = COk f -> forall k, parent_index f k = spec_parent l k.
Proof. exact ContextProofs.resolve_nearest. Qed.
Print Assumptions resolve_nearest.

(* the zipper invariant: frames = the spec's open chain (same directives, innermost first; the
   number the spec gives to a frame's directive is its pre-order position) *)
Theorem frames_are_open_chain : forall l,
  match open_chain l with
  | Some c => exists fr rt, resolve l = COk (fr, rt) /\ chain_matches c fr rt /\ map snd c = map fst fr /\
                 zsize fr rt = List.length (dirs l)
  | None => exists e, resolve l = CErr e
  end.
Proof. exact ContextProofs.frames_are_open_chain. Qed.
Print Assumptions frames_are_open_chain.

(* what the specification's walk means: FIRST admitting item; everything walked over neither
   admits nor is parenthesised *)
Theorem walk_meaning : forall d c,
  match walk d c with
  | VUnder c' =>
    exists left i p rest, c = left ++ c' /\ Forall (skippable d) left /\ c' = (i, p) :: rest /\
      admits p d = true /\ hoists p d = false
  | VTop => Forall (skippable d) c /\ root_allowed (d_kind d) = true
  | VHoist =>
    exists left i p rest, c = left ++ (i, p) :: rest /\ Forall (skippable d) left /\
      admits p d = true /\ hoists p d = true /\ chain_has_explicit c = false
  | VRejected false =>
    (Forall (skippable d) c /\ root_allowed (d_kind d) = false) \/
    exists left i p rest, c = left ++ (i, p) :: rest /\ Forall (skippable d) left /\
      admits p d = false /\ d_explicit p = true
  | VRejected true =>
    exists left i p rest, c = left ++ (i, p) :: rest /\ Forall (skippable d) left /\
      admits p d = true /\ hoists p d = true /\ chain_has_explicit ((i, p) :: rest) = true
  end.
Proof. exact walk_char. Qed.
Print Assumptions walk_meaning.

Theorem open_chain_numbers_are_positions : forall l c,
  open_chain l = Some c -> forall i p, In (i, p) c -> nth_error (dirs l) i = Some p.
Proof. exact open_chain_entries. Qed.
Print Assumptions open_chain_numbers_are_positions.

(* resolve_nearest with the specification unfolded *)
Theorem resolve_nearest_spelled : forall l f k pre d,
  resolve_all l = COk f -> nth_dir l k = Some (pre, d) ->
  nth_error (flatten f) k = Some d /\
  exists c, open_chain pre = Some c /\
    match parent_index f k with
    | Some (Some i) =>
      exists left p rest, c = left ++ (i, p) :: rest /\ nth_error (flatten f) i = Some p /\
        Forall (skippable d) left /\ admits p d = true /\ hoists p d = false
    | Some None =>
      (Forall (skippable d) c /\ root_allowed (d_kind d) = true) \/
      (exists left i p rest, c = left ++ (i, p) :: rest /\ Forall (skippable d) left /\
         admits p d = true /\ hoists p d = true /\ chain_has_explicit c = false)
    | None => False
    end.
Proof. exact ContextProofs.resolve_nearest_spelled. Qed.
Print Assumptions resolve_nearest_spelled.

(* ---- rejection: exactly when, and with which error ---- *)
Theorem resolve_outcome : forall l,
  (exists f c, resolve_all l = COk f /\ open_chain l = Some c /\ chain_has_explicit c = false) \/
  (exists d, no_place l d false /\ resolve_all l = CErr (kw_err d CEIncorrectContext)) \/
  (exists d, no_place l d true /\ resolve_all l = CErr (kw_err d CEIncorrectContextPath)) \/
  (close_without_open l /\ resolve_all l = CErr (ctx_err CENoExplicitToClose)) \/
  (open_at_end l /\ resolve_all l = CErr (ctx_err CENotAllClosed)).
Proof. exact ContextProofs.resolve_outcome. Qed.
Print Assumptions resolve_outcome.

Theorem resolve_rejects_iff : forall l,
  (exists e, resolve_all l = CErr e) <->
  (exists d path, no_place l d path) \/ close_without_open l \/ open_at_end l.
Proof. exact ContextProofs.resolve_rejects_iff. Qed.
Print Assumptions resolve_rejects_iff.

Theorem resolve_error_kinds : forall l,
  ((exists d, no_place l d false) <-> (exists e, resolve_all l = CErr e /\ ce_kind e = CEIncorrectContext)) /\
  ((exists d, no_place l d true) <-> (exists e, resolve_all l = CErr e /\ ce_kind e = CEIncorrectContextPath)) /\
  (close_without_open l <-> (exists e, resolve_all l = CErr e /\ ce_kind e = CENoExplicitToClose)) /\
  (open_at_end l <-> (exists e, resolve_all l = CErr e /\ ce_kind e = CENotAllClosed)).
Proof. exact ContextProofs.resolve_error_kinds. Qed.
Print Assumptions resolve_error_kinds.

Theorem no_place_is_spec_parent_none : forall l k pre d c,
  nth_dir l k = Some (pre, d) -> open_chain pre = Some c ->
  (spec_parent l k = None <-> exists path, walk d c = VRejected path).
Proof. exact no_place_spec_parent. Qed.
Print Assumptions no_place_is_spec_parent_none.

(* ---- an open parenthesised context is never left ---- *)
Theorem explicit_never_left : forall d fr rt fr' rt',
  process_context (ctx_fuel fr) d fr rt = COk (fr', rt') ->
  exists left kept,
    map fst fr = left ++ kept /\ map fst fr' = d :: kept /\
    Forall (fun x => d_explicit x = false) left /\
    Forall (fun x => ctx_allowed (d_kind x) (d_kind d) = false \/ kept = []) left.
Proof. exact ContextProofs.explicit_never_left. Qed.
Print Assumptions explicit_never_left.

Theorem explicit_stays_open : forall d fr rt fr' rt' x,
  process_context (ctx_fuel fr) d fr rt = COk (fr', rt') ->
  In x (map fst fr) -> d_explicit x = true -> In x (map fst fr').
Proof. exact ContextProofs.explicit_stays_open. Qed.
Print Assumptions explicit_stays_open.

(* accepted documents have as many ')' as '(' *)
Theorem accepted_balanced : forall l f, resolve_all l = COk f -> count_close l = count_open l.
Proof. exact ContextProofs.accepted_balanced. Qed.
Print Assumptions accepted_balanced.

(* ---- the scan loop's flush_cur is one step of the resolver ---- *)
Theorem flush_cur_is_resolve_step : forall s d,
  cs_cur s = Some d ->
  flush_cur s = resolve_step (cs_frames s, cs_roots s) (IDir d) >>=c fun r =>
                COk (upd_cur (upd_ctx s (fst r) (snd r)) None).
Proof. exact ContextProofs.flush_cur_is_resolve_step. Qed.
Print Assumptions flush_cur_is_resolve_step.

(* ---- resolution is by what a directive IS, not by where it stands (proofs/ShapeProofs.v) ----
   dshape = kind, keyword bytes, named and unnamed parameters, annotation, body present or not, '(' flag:
   everything but d_kw, the coordinates of the body and the include trace.  Two item lists of equal shapes
   resolve to forests of equal shapes, or are both rejected at the same item number i (offence: the first i
   items are accepted, item i - or the end of the input with a '(' open - is not), each with the error value
   built from its own item i (located) and of the same kind about the same shape (eshape).  No layout notion
   (indentation, line, offset) exists in the item language at all; this theorem adds that the coordinates the
   directives DO carry are never consulted.  It composes with resolve_nearest: spec_parent of equal-shape
   lists is therefore the same function of the position. *)
Theorem context_ignores_coordinates : forall l1 l2, map ishape l1 = map ishape l2 ->
  match resolve_all l1, resolve_all l2 with
  | COk f1, COk f2 => map tshape f1 = map tshape f2
  | CErr e1, CErr e2 => exists i, offence l1 i e1 /\ offence l2 i e2 /\ same_error l1 l2 i e1 e2
  | CPanic w1, CPanic w2 => w1 = w2
  | CFuel, CFuel => True
  | _, _ => False
  end.
Proof. exact ShapeProofs.context_ignores_coordinates. Qed.
Print Assumptions context_ignores_coordinates.

(* the same for the open context (the zipper) after any prefix *)
Theorem resolve_ignores_coordinates : forall l1 l2, map ishape l1 = map ishape l2 ->
  cres_rel (zrel same_shape)
    (fun e1 e2 => exists i, fails_from ([], []) l1 i e1 /\ fails_from ([], []) l2 i e2 /\ same_error l1 l2 i e1 e2)
    (resolve l1) (resolve l2).
Proof. exact ShapeProofs.resolve_ignores_coordinates. Qed.
Print Assumptions resolve_ignores_coordinates.

(* hence the resolved shape is a FUNCTION of the item shapes (resolve_shapes: the same items at coordinates 0) *)
Theorem resolution_is_a_function_of_shapes : forall l,
  match resolve_all l with
  | COk f => resolve_shapes (map ishape l) = Some (map tshape f)
  | _ => resolve_shapes (map ishape l) = None
  end.
Proof. exact ShapeProofs.resolution_is_a_function_of_shapes. Qed.
Print Assumptions resolution_is_a_function_of_shapes.

(* the second context resolution, inside macro expansion (paste_list re-resolves every pasted directive) *)
Theorem expansion_ignores_coordinates : forall ts1 ts2, map tshape ts1 = map tshape ts2 ->
  match expand ts1, expand ts2 with
  | COk f1, COk f2 => map tshape f1 = map tshape f2
  | CErr e1, CErr e2 =>
    exists d1 d2 k, same_place ts1 ts2 d1 d2 /\ dshape d1 = dshape d2 /\ e1 = kw_err d1 k /\ e2 = kw_err d2 k
  | CPanic w1, CPanic w2 => w1 = w2
  | CFuel, CFuel => True
  | _, _ => False
  end.
Proof. exact ShapeProofs.expansion_ignores_coordinates. Qed.
Print Assumptions expansion_ignores_coordinates.

(* with resolve_nearest: in accepted documents of equal shapes the k-th directive has the same parent, in the
   forest and in the declarative specification *)
Theorem parents_ignore_coordinates : forall l1 l2 f1,
  map ishape l1 = map ishape l2 -> resolve_all l1 = COk f1 ->
  exists f2, resolve_all l2 = COk f2 /\ map tshape f1 = map tshape f2 /\
    forall k, parent_index f1 k = parent_index f2 k /\ spec_parent l1 k = spec_parent l2 k.
Proof. exact ShapeProofs.parents_ignore_coordinates. Qed.
Print Assumptions parents_ignore_coordinates.
