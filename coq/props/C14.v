(* C14 — Lexical integrity.  Theorems about the scanner table REGENERATED from /repo/scanner. *)
From Coq Require Import List NArith Bool.
From JV.lib Require Import Bytes.
From JV.gen Require Import ScannerTable ScannerTyping.
From JV.gen Require Import DirectiveTables.
From JV.model Require Import ScannerSem TableCheck TriviaCheck KeywordCheck.
From JV.proofs Require Import TM_Events TM_Loop ScanTheorems TM_Trivia TriviaCover TM_Keyword KeywordSpell.
Import ListNotations.

(* the finite obligation: every (state, byte, reachable leaf) of the table regenerated from the
   current source fits the inferred typing (stack discipline, begin/end pairing, offsets of
   found/foundAt and of the rewinds, termination potential) *)
Theorem scanner_table_ok : table_ok gen_typing = true.
Proof. exact gen_table_ok. Qed.
Print Assumptions scanner_table_ok.

(* for every input and every schema library whose Len() stays inside the text it is given:
   every lexeme lies inside the input (begin <= end+1 <= len), lexemes do not overlap and come in
   increasing position *)
Theorem lexemes_in_bounds_and_ordered : forall jsc_len enum_len data,
  len_sane jsc_len -> len_sane enum_len -> Forall isb data ->
  Forall (in_bounds (N.of_nat (List.length data))) (scan_lexemes jsc_len enum_len data) /\
  ordered (scan_lexemes jsc_len enum_len data).
Proof. exact lexemes_wf_lemma. Qed.
Print Assumptions lexemes_in_bounds_and_ordered.

(* ---- second half: no user content is silently dropped ---- *)

(* the finite obligation: in every (state, byte, reachable leaf) of the regenerated table, a byte that ends up in no
   lexeme (none open, none opened or closed on it, not re-read after a rewind) is one the hand-written skip
   specification [gen_skip] (proofs/TriviaCover.v) allows that state to skip: blanks and line ends between lexemes,
   '#' and comment text, the delimiter bytes of annotations; bodies are only read right after their lexeme was opened *)
Theorem scanner_skip_spec_ok : trivia_ok gen_typing gen_skip = true.
Proof. exact gen_trivia_ok. Qed.
Print Assumptions scanner_skip_spec_ok.

(* the third finite obligation: the events one dispatch (a step function call with its re-dispatches) emits.  A dispatch
   that does not pass the end of the file emits, after the first completed lexeme, at most further completed lexemes
   and then ONE Begin as the last event (so a Begin pending between calls of Next() is never followed by other pending
   events); a Begin emitted on the end-of-file pseudo byte is placed AT the end of the file.  The phase typing gen_ph is
   inferred by evaluation and only checked here. *)
Theorem scanner_pending_events_ok : pend_ok gen_typing gen_ph = true.
Proof. exact gen_pend_ok. Qed.
Print Assumptions scanner_pending_events_ok.

(* for every input and every sane schema library: when the scan reaches the end of the file, every byte of the input
   lies inside a lexeme that was handed out, or was consumed in a state that may skip it (or is the '*' of the '*/'
   closing a multi-line annotation).  No side condition: that no lexeme covering a byte is left open or pending at the
   end of the file is derived (until the repair 6fb0755 stateRegexBodyAfterSlash accepted the end of the file with the
   Text lexeme open, and a regex body ending in a backslash was dropped without a diagnostic - found by this obligation). *)
Theorem no_content_dropped : forall jsc_len enum_len data,
  len_sane jsc_len -> len_sane enum_len -> Forall isb data ->
  forall lexs g, scan jsc_len enum_len data = (lexs, SEof, g) ->
  forall p, p < N.of_nat (List.length data) ->
    (exists l, In l lexs /\ lb l <= p /\ p <= le l) \/ skipped jsc_len enum_len data p.
Proof. exact no_content_dropped_lemma. Qed.
Print Assumptions no_content_dropped.

(* at the end of the file the event stack is empty, or holds one Begin placed AT the end of the file: the lexeme it
   opens covers no byte (TriviaCover.lost_begin_at_eof_example: after "Description // x" at the very end of the file
   the EMPTY Text lexeme is opened and never handed out; no byte is lost) *)
Theorem eof_stack_covers_nothing : forall jsc_len enum_len data,
  len_sane jsc_len -> len_sane enum_len -> Forall isb data ->
  forall lexs g, scan jsc_len enum_len data = (lexs, SEof, g) ->
  estk g = [] \/ exists e, estk g = [(e, N.of_nat (List.length data))].
Proof. exact eof_stack_covers_nothing_lemma. Qed.
Print Assumptions eof_stack_covers_nothing.

(* a skipped byte is a blank, a line end, '#', '/' or '*', or it was consumed inside a comment *)
Theorem skipped_is_trivia : forall jsc_len enum_len data p,
  skipped jsc_len enum_len data p ->
  trivia_byte (byte_at data p) = true \/
  exists s, In (p, s) (consume_trace jsc_len enum_len data) /\ In s comment_text_states.
Proof. exact skipped_is_trivia_lemma. Qed.
Print Assumptions skipped_is_trivia.

(* over every leaf the end-of-file byte reaches: no state accepts the end of the file while a lexeme that covers real
   bytes is open *)
Theorem eof_never_leaves_a_lexeme_open_table : eof_open_states gen_typing gen_skip = [].
Proof. exact eof_open_states_table_partial. Qed.
Print Assumptions eof_never_leaves_a_lexeme_open_table.

(* every keyword lexeme spells a directive the directive table knows - TABLE LEVEL (PARTIAL: not lifted to runs of the
   semantics).  Walking the keyword states from every leaf that emits KeywordBegin (always [foundAt(cur, KeywordBegin);
   step = t]) along the leaves that only move to another state, to the leaves that emit KeywordEnd (always first, at
   the current byte): (1) the strings spelled are EXACTLY the keywords of directive.Enumeration (all but the
   pseudo-keyword HTTP-response-code) and the three-digit codes 100..599 of directive/http_response_code.go;
   (2) KeywordEnd is emitted by no other state and those states reject the end of the file; (3) the states walked are
   exactly the states in which the typing has a Keyword lexeme open. *)
Theorem keywords_spelled_table : kw_exact = true /\ kw_end_only_there = true /\ kw_states_agree = true.
Proof. exact keywords_spelled_table_partial. Qed.
Print Assumptions keywords_spelled_table.

(* ---- lifted to the semantics ---- *)

(* the fourth finite obligation: the spelling typing gen_spell (for every state inside a keyword: the bytes read since
   KeywordBegin, as byte sets position by position; inferred by evaluation, untrusted) fits every (state, byte, reachable
   leaf) of the regenerated table: KeywordBegin only at the current byte in a state that spells nothing, every
   continuation leads to a state that spells one byte more, KeywordEnd only at the current byte and only when every
   string of the spelled sets followed by that byte is a keyword of the directive table or a response code in range *)
Theorem scanner_spelling_ok : spell_ok gen_typing gen_spell kw_known = true.
Proof. exact gen_spell_ok. Qed.
Print Assumptions scanner_spelling_ok.

(* for every input and every sane schema library, whatever the scan ends with: the bytes data[lb .. le] of every Keyword
   lexeme handed out are one of the 29 keywords of directive.Enumeration (every kind but the pseudo-keyword
   HTTP-response-code) or three digits forming a number in [response_code_lo, response_code_hi] *)
Theorem keywords_spelled : forall jsc_len enum_len data,
  len_sane jsc_len -> len_sane enum_len -> Forall isb data ->
  forall l, In l (scan_lexemes jsc_len enum_len data) -> lk l = LKeyword ->
  (exists k, kind_eqb k KHTTPResponseCode = false /\ lex_bytes data l = kind_keyword k) \/
  is_response_code (lex_bytes data l) = true.
Proof. exact keywords_spelled_lemma. Qed.
Print Assumptions keywords_spelled.
