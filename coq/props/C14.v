(* C14 — Lexical integrity.  Theorems about the scanner table REGENERATED from /repo/scanner. *)
From Coq Require Import List NArith Bool.
From JV.lib Require Import Bytes.
From JV.gen Require Import ScannerTable ScannerTyping.
From JV.model Require Import ScannerSem TableCheck.
From JV.proofs Require Import TM_Events TM_Loop ScanTheorems.
Import ListNotations.

(* the finite obligation: every (state, byte, reachable leaf) of the table regenerated from the
   current source fits the inferred typing (stack discipline, begin/end pairing, offsets of
   found/foundAt and of the rewinds, termination potential) *)
Theorem scanner_table_ok : table_ok gen_typing = true.
Proof. exact gen_table_ok. Qed.
Print Assumptions scanner_table_ok.

(* for every input and every schema library whose Len() stays inside the text it is given:
   every lexeme lies inside the input (begin <= end+1 <= len), lexemes do not overlap and come in
   increasing position *)
Theorem lexemes_in_bounds_and_ordered : forall jsc_len enum_len data,
  len_sane jsc_len -> len_sane enum_len -> Forall isb data ->
  Forall (in_bounds (N.of_nat (List.length data))) (scan_lexemes jsc_len enum_len data) /\
  ordered (scan_lexemes jsc_len enum_len data).
Proof. exact lexemes_wf_lemma. Qed.
Print Assumptions lexemes_in_bounds_and_ordered.
