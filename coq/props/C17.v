(* C17 — Parameters round-trip: what is written, quoted or bare, is what the catalog has.
   Nothing but theorem statements, each closed by `exact` of a lemma proved in
   proofs/ParamsProofs.v, each followed by Print Assumptions.
   The functions are the hand model model/Params.v of directive/parameter.go
   (unescapeParameter, AppendParameter) and of the scanner's quoted-parameter states; the
   model is tied to the Go code by the correspondence check of verifsys/checks/c17.py. *)
From Coq Require Import List NArith Bool.
From JV.lib Require Import Bytes.
From JV.gen Require Import DirectiveTables.
From JV.model Require Import Params.
From JV.proofs Require Import ParamsProofs.
Import ListNotations.
Open Scope N_scope.

(* Reading back the canonical quoted spelling of ANY byte string gives the byte string
   (no restriction on s: empty, ending in a backslash, a lone quote, non-UTF-8 ...). *)
Theorem unescape_quote : forall s, unescape_parameter (quote_param s) = s.
Proof. exact unescape_quote_lemma. Qed.
Print Assumptions unescape_quote.

(* The scanner's quoted states accept the canonical quoted spelling of every value without
   CR, LF, NUL as one Parameter lexeme ending at the closing quote. *)
Theorem quote_accepted : forall s, single_line s = true -> accepts_quoted (quote_param s) = true.
Proof. exact quote_accepted_lemma. Qed.
Print Assumptions quote_accepted.

(* single_line is what it says *)
Theorem single_line_meaning : forall s,
  single_line s = true <-> (~ In 10 s /\ ~ In 13 s /\ ~ In 0 s).
Proof. exact single_line_spec. Qed.
Print Assumptions single_line_meaning.

(* Every quoted lexeme the scanner accepts is the canonical quoting of the value that is
   read back from it: no other spelling is accepted, none reads back as something else. *)
Theorem accepted_is_quote : forall q,
  accepts_quoted q = true -> q = quote_param (unescape_parameter q).
Proof. exact accepted_is_quote_lemma. Qed.
Print Assumptions accepted_is_quote.

(* Exact description of the accepted quoted lexemes. *)
Theorem accepted_iff_quote : forall q,
  accepts_quoted q = true <-> exists s, single_line s = true /\ q = quote_param s.
Proof. exact accepts_quoted_iff. Qed.
Print Assumptions accepted_iff_quote.

(* A value that needs no quotes (a bare parameter: non-empty, not starting with a double
   quote, without space, tab, CR, LF, NUL, '#') means the same with or without them, for
   every directive kind. *)
Theorem bare_eq_quoted : forall s k,
  bare_param s = true ->
  unescape_parameter s = s /\ append_parameter k s = append_parameter k (quote_param s).
Proof. exact bare_eq_quoted_lemma. Qed.
Print Assumptions bare_eq_quoted.

(* ... and its quoted spelling is indeed accepted by the scanner. *)
Theorem bare_quote_accepted : forall s, bare_param s = true -> single_line s = true.
Proof. exact bare_single_line. Qed.
Print Assumptions bare_quote_accepted.

(* Rejections.  `open_body body` = the bytes between the quotes of an accepted lexeme.
   Clause 1: an unterminated quote is rejected at the line end (CR, LF; NUL is rejected by
   the scanner driver at the same byte) ... *)
Theorem reject_unterminated_at_line_end : forall body c rest,
  open_body body -> is_newline c || (c =? 0) = true ->
  quoted_reject_pos (34 :: body ++ c :: rest) = Some (1 + List.length body)%nat.
Proof. exact reject_unterminated_line. Qed.
Print Assumptions reject_unterminated_at_line_end.

(* ... or at the end of the file (position = length of the text: the EOF pseudo byte). *)
Theorem reject_unterminated_at_eof : forall body,
  open_body body -> quoted_reject_pos (34 :: body) = Some (1 + List.length body)%nat.
Proof. exact reject_unterminated_eof. Qed.
Print Assumptions reject_unterminated_at_eof.

(* Clause 2: a backslash before any byte other than backslash and double quote is rejected
   at that byte (index of the backslash + 1) ... *)
Theorem reject_backslash_other : forall body c rest,
  open_body body -> (c =? 92) || (c =? 34) = false ->
  quoted_reject_pos (34 :: body ++ 92 :: c :: rest) = Some (2 + List.length body)%nat.
Proof. exact reject_bad_escape. Qed.
Print Assumptions reject_backslash_other.

(* ... also when that "byte" is the end of the file. *)
Theorem reject_backslash_eof : forall body,
  open_body body -> quoted_reject_pos (34 :: body ++ [92]) = Some (2 + List.length body)%nat.
Proof. exact reject_bad_escape_eof. Qed.
Print Assumptions reject_backslash_eof.

(* There is no rejection exactly when the text begins with an accepted lexeme. *)
Theorem reject_none_iff_accepted_prefix : forall t,
  quoted_reject_pos t = None <-> exists q rest, accepts_quoted q = true /\ t = q ++ rest.
Proof. exact reject_none_iff. Qed.
Print Assumptions reject_none_iff_accepted_prefix.

(* The Parameter lexeme cut out of a text by the quoted states is its accepted prefix. *)
Theorem lexeme_is_accepted_prefix : forall t n,
  quoted_lexeme_len t = Some n <->
  exists q rest, t = q ++ rest /\ accepts_quoted q = true /\ n = List.length q.
Proof. exact lexeme_len_iff. Qed.
Print Assumptions lexeme_is_accepted_prefix.

(* Every rejection is one of the two above: the position points at a CR/LF/NUL/EOF after
   an open body, or at the byte (or EOF) after a backslash that follows an open body. *)
Theorem reject_positions : forall r j,
  quoted_reject_pos (34 :: r) = Some j ->
  exists body post, open_body body /\
    ((r = body ++ post /\ j = (1 + List.length body)%nat /\
      (post = [] \/ exists c p, post = c :: p /\ is_newline c || (c =? 0) = true))
     \/
     (r = body ++ 92 :: post /\ j = (2 + List.length body)%nat /\
      (post = [] \/ exists c p, post = c :: p /\ (c =? 92) || (c =? 34) = false))).
Proof. exact reject_some_shape. Qed.
Print Assumptions reject_positions.

(* The open bodies are the escaped spellings of the single-line values. *)
Theorem open_body_meaning : forall body,
  open_body body <-> exists s, single_line s = true /\ body = escape s.
Proof. exact open_body_iff. Qed.
Print Assumptions open_body_meaning.
