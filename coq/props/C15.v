(* C15 — the text normalisers (core/description.go `description`, catalog/annotation.go `Annotation`).
   Nothing but theorem statements, each closed by `exact` of a lemma proved in
   proofs/DescriptionProofs.v, each followed by Print Assumptions.
   `description t = (d, None)` : the Go function returned (d, nil);
   `description t = (d, Some m)`: it returned (d, errors.New(m)).
   The unguarded idempotence and common-indentation statements are FALSE for the code as written:
   see the *_refuted theorems; the *_partial theorems carry the guard under which they hold. *)
From Coq Require Import List NArith Bool.
From JV.lib Require Import Bytes.
From JV.model Require Import Description.
From JV.proofs Require Import DescriptionProofs.
Import ListNotations.
Open Scope N_scope.

(* line ends normalised: no CR in the result, whether the call succeeds or not *)
Theorem desc_no_cr : forall t d e, description t = (d, e) -> ~ In 13 d.
Proof. exact desc_no_cr_lemma. Qed.
Print Assumptions desc_no_cr.

(* surrounding blank lines removed: a successful result is empty, or starts with neither LF nor CR
   and ends with none of CR LF TAB space *)
Theorem desc_trimmed : forall t d, description t = (d, None) ->
  d = [] \/ (in_set [13; 10] (hd 0 d) = false /\ in_set [13; 10; 9; 32] (last d 0) = false).
Proof. exact desc_trimmed_lemma. Qed.
Print Assumptions desc_trimmed.

(* a text of spaces, tabs, CR, LF only gives the empty result (which the caller rejects) *)
Theorem blank_desc_empty : forall t, forallb (in_set [9; 10; 13; 32]) t = true -> description t = ([], None).
Proof. exact blank_desc_empty_lemma. Qed.
Print Assumptions blank_desc_empty.

(* normalising twice is NOT the identity in general.  Class 1, nested parentheses: "(\n()\n)" gives "()"
   and "()" is an error *)
Theorem desc_idempotent_refuted : exists t d, description t = (d, None) /\ description d <> (d, None).
Proof. exact desc_idempotent_refuted_lemma. Qed.
Print Assumptions desc_idempotent_refuted.

(* Class 2, a whitespace-only line shorter than the indentation: "  a\n \n  a" gives " a\n\n a", which is
   not parenthesised and normalises further to "a\n\na" *)
Theorem desc_idempotent_refuted_blank_line :
  exists t d d', description t = (d, None) /\ wrapped d = false /\ description d = (d', None) /\ d' <> d.
Proof. exact desc_idempotent_refuted_indent. Qed.
Print Assumptions desc_idempotent_refuted_blank_line.

(* idempotence under the guard: the result is not itself read as a parenthesised body
   (`wrapped d` = the very test descriptionRemoveParentheses makes) and the input has no space or
   tab directly before a line end (CR or LF), in particular no whitespace-only line *)
Theorem desc_idempotent_partial : forall t d,
  description t = (d, None) -> wrapped d = false ->
  (forall c n, is_ws c = true -> is_newline n = true -> contains [c; n] t = false) ->
  description d = (d, None).
Proof. exact desc_idempotent_partial_lemma. Qed.
Print Assumptions desc_idempotent_partial.

(* ... and, whatever the input, when the result's first byte is not a space or tab *)
Theorem desc_idempotent_unindented : forall t d,
  description t = (d, None) -> wrapped d = false -> is_ws (hd 0 d) = false -> description d = (d, None).
Proof. exact desc_idempotent_unindented_lemma. Qed.
Print Assumptions desc_idempotent_unindented.

(* exactly which texts are fixed points: CR-free, trimmed, not read as a parenthesised body, and with
   an empty longestWhitespacePrefix.  With desc_no_cr and desc_trimmed: normalising a result d again
   changes nothing if and only if `wrapped d = false` and `lwp (lines d) = []`; the two refuted classes
   above are the two ways this fails. *)
Theorem desc_fixed_iff : forall d,
  description d = (d, None) <->
  (~ In 13 d /\
   (d = [] \/ (in_set [13; 10] (hd 0 d) = false /\ in_set [13; 10; 9; 32] (last d 0) = false)) /\
   wrapped d = false /\ lwp (split_byte 10 d) = []).
Proof. exact desc_fixed_iff_lemma. Qed.
Print Assumptions desc_fixed_iff.

(* bare and parenthesised spelling: for a CR-free text that is not itself read as parenthesised,
   "(" LF t LF ")" gives exactly what t gives (result and error alike).
   Full statement without the CR hypothesis holds on every input tried by the check (exhaustive to
   length 6 over 8 bytes) but is not proved. *)
Theorem desc_bare_eq_paren : forall t,
  ~ In 13 t -> wrapped t = false -> description (40 :: 10 :: t ++ [10; 41]) = description t.
Proof. exact desc_bare_eq_paren_lemma. Qed.
Print Assumptions desc_bare_eq_paren.

(* the common indentation is NOT always removed: " \n a" is returned unchanged (first line of one
   space: the `i == len(bb[0])-1` quirk), every non-empty line still starting with a space *)
Theorem desc_common_indent_refuted :
  exists t d c, description t = (d, None) /\ d <> [] /\ is_ws c = true /\
    (forall l, In l (split_byte 10 d) -> l <> [] -> hd_error l = Some c).
Proof. exact desc_common_indent_refuted_lemma. Qed.
Print Assumptions desc_common_indent_refuted.

(* under the same guard on the input (no space/tab directly before a line end) it is: the non-empty
   lines of a non-empty result do not all start with the same space or tab *)
Theorem desc_common_indent_removed_partial : forall t d c,
  description t = (d, None) ->
  (forall c n, is_ws c = true -> is_newline n = true -> contains [c; n] t = false) ->
  d <> [] -> is_ws c = true ->
  ~ (forall l, In l (split_byte 10 d) -> l <> [] -> hd_error l = Some c).
Proof. exact desc_common_indent_lemma. Qed.
Print Assumptions desc_common_indent_removed_partial.

(* annotation: empty, or neither starting nor ending with an ASCII white-space byte
   (\t \n \v \f \r space); the only byte of the regexp class \s = [\t\n\f\r ] left is the space, and
   never two in a row.  (\v and the non-ASCII spaces are trimmed at the ends but kept inside.) *)
Theorem annotation_collapsed : forall s,
  let a := annotation s in
  (a = [] \/ (ascii_space (hd 0 a) = false /\ ascii_space (last a 0) = false)) /\
  (forall c, In c a -> re_space c = true -> c = 32) /\
  contains [32; 32] a = false.
Proof. exact annotation_collapsed_lemma. Qed.
Print Assumptions annotation_collapsed.

Theorem annotation_idempotent : forall s, annotation (annotation s) = annotation s.
Proof. exact annotation_idempotent_lemma. Qed.
Print Assumptions annotation_idempotent.

(* "// text" and "/* text */" hand Annotation the same text up to surrounding blanks: leading and
   trailing ASCII white space never matters *)
Theorem annotation_spelling : forall w1 s w2,
  forallb ascii_space w1 = true -> forallb ascii_space w2 = true ->
  annotation (w1 ++ s ++ w2) = annotation s.
Proof. exact annotation_pad_lemma. Qed.
Print Assumptions annotation_spelling.
