(* C19 — tags, string-level part: automatic tag names and titles.  Nothing but theorem
   statements, each closed by `exact` of a lemma proved in proofs/TagNameProofs.v, each
   followed by Print Assumptions.

   tagName       : REGENERATED from catalog/tag_name.go (gen/TagName.v)
   pathTagTitle  : hand model of catalog/tag.go pathTagTitle (model/TagTitle.v), tied to the
                   Go function by the `pathtagtitle` correspondence check. *)
From Coq Require Import List NArith Bool String.
From JV.lib Require Import Bytes.
From JV.gen Require Import DirectiveTables TagName.
From JV.model Require Import ScannerSem Core TagTitle Catalog.
From JV.proofs Require Import TagNameProofs CatalogProofs.
Import ListNotations.
Open Scope N_scope.

(* auto_title t  <->  t = "/" ++ seg, seg without '/', every byte < 256 ("/" is seg = "").
   "Different first segments get different tag names": on such titles the tag name
   determines the title. *)
Theorem tagName_injective : forall t1 t2 n,
  auto_title t1 = true -> auto_title t2 = true ->
  tagName t1 = GOk n -> tagName t2 = GOk n -> t1 = t2.
Proof. exact tagName_injective_lemma. Qed.
Print Assumptions tagName_injective.

(* Stronger: only the leading '/' matters (slash_title t <-> t = "/" ++ s, every byte < 256). *)
Theorem tagName_injective_slash : forall t1 t2 n,
  slash_title t1 = true -> slash_title t2 = true ->
  tagName t1 = GOk n -> tagName t2 = GOk n -> t1 = t2.
Proof. exact tagName_injective_slash_lemma. Qed.
Print Assumptions tagName_injective_slash.

(* tagName never panics *)
Theorem tagName_total : forall t, exists n, tagName t = GOk n.
Proof. exact tagName_total_lemma. Qed.
Print Assumptions tagName_total.

(* pathTagTitle path is "/" ++ seg for THE first piece seg of strings.Split(path, "/") that
   is neither "" nor "." (first_kept: everything before seg is "" or "."), seg has no '/';
   or "/" when every piece is "" or ".". *)
Theorem pathTagTitle_spec : forall path,
  (exists seg, first_kept (split_byte 47 path) seg /\ ~ In 47 seg /\
               pathTagTitle path = 47 :: seg) \/
  (Forall skippable (split_byte 47 path) /\ pathTagTitle path = [47]).
Proof. exact pathTagTitle_spec_lemma. Qed.
Print Assumptions pathTagTitle_spec.

(* same first segment => same title (hence same tag) *)
Theorem pathTagTitle_same_segment : forall p1 p2 seg,
  first_kept (split_byte 47 p1) seg -> first_kept (split_byte 47 p2) seg ->
  pathTagTitle p1 = pathTagTitle p2.
Proof. exact TagNameProofs.pathTagTitle_same_segment. Qed.
Print Assumptions pathTagTitle_same_segment.

(* different first segments => different titles *)
Theorem pathTagTitle_diff_segment : forall p1 p2 seg1 seg2,
  first_kept (split_byte 47 p1) seg1 -> first_kept (split_byte 47 p2) seg2 ->
  seg1 <> seg2 -> pathTagTitle p1 <> pathTagTitle p2.
Proof. exact TagNameProofs.pathTagTitle_diff_segment. Qed.
Print Assumptions pathTagTitle_diff_segment.

(* different titles => different automatic tag names *)
Theorem auto_tag_names_distinct : forall p1 p2 n1 n2,
  all_bytes p1 = true -> all_bytes p2 = true ->
  pathTagTitle p1 <> pathTagTitle p2 ->
  tagName (pathTagTitle p1) = GOk n1 -> tagName (pathTagTitle p2) = GOk n2 ->
  n1 <> n2.
Proof. exact auto_tag_names_distinct_lemma. Qed.
Print Assumptions auto_tag_names_distinct.

(* ======================================================================================= *)
(* catalog-level part: which tags an interaction carries (model/Catalog.v, proofs/CatalogProofs.v).
   [build pp bt banned post = COk c]: c is the catalog of an accepted project whose expanded
   directive forest is [post]; itags x = the tag list of interaction x; occurs post t anc = t is a
   node of the forest with ancestors anc (innermost first); made_by t anc i = t is the GET/POST/../
   Method directive whose interaction id is i; declared_name post n = a top-level TAG directive of
   the forest has TagName n; t_auto tg = tg was made from a path (catalog.newPathTag).         *)

(* every interaction carries at least one tag *)
Theorem every_interaction_tagged : forall pp bt banned post c,
  build pp bt banned post = COk c ->
  forall i x, In (i, x) (c_inters c) -> itags x <> [].
Proof. exact every_interaction_tagged_lemma. Qed.
Print Assumptions every_interaction_tagged.

(* the tags of an interaction are exactly tag_spec of its directive ... *)
Theorem explicit_tags_win : forall pp bt banned post c,
  build pp bt banned post = COk c ->
  forall i x, In (i, x) (c_inters c) ->
    exists t anc, occurs post t anc /\ made_by t anc i /\ itags x = tag_spec t anc i.
Proof. exact explicit_tags_win_lemma. Qed.
Print Assumptions explicit_tags_win.

(* ... where tag_spec is: the unnamed parameters (in order) of the directive's own child Tags; else
   those of the child Tags of its parent when the parent is a URL; else the single automatic name *)
Theorem tag_spec_characterised : forall me anc i,
  (forall td, child_of_kind KTags (tree_kids me) = Some td -> tag_spec me anc i = d_unnamed td) /\
  (forall a rest td, child_of_kind KTags (tree_kids me) = None -> anc = a :: rest ->
     d_kind (tree_dir a) = KURL -> child_of_kind KTags (tree_kids a) = Some td ->
     tag_spec me anc i = d_unnamed td) /\
  (child_of_kind KTags (tree_kids me) = None ->
   (anc = [] \/ (exists a rest, anc = a :: rest /\
                 (d_kind (tree_dir a) <> KURL \/ child_of_kind KTags (tree_kids a) = None))) ->
   tag_spec me anc i = [auto_tag_name (i_path i)]).
Proof. exact tag_spec_cases. Qed.
Print Assumptions tag_spec_characterised.

(* FULL: "each must be declared by a TAG directive": when a Tags directive decides (the interaction's
   own, or its parent URL's), every tag the interaction carries is declared by a top-level TAG
   directive and is a non-automatic tag of the catalog *)
Theorem explicit_tags_declared : forall pp bt banned post c,
  build pp bt banned post = COk c ->
  forall i x, In (i, x) (c_inters c) ->
    exists t anc, occurs post t anc /\ made_by t anc i /\ itags x = tag_spec t anc i /\
      forall td, used_tags_directive t anc = Some td ->
      forall n, In n (itags x) ->
        declared_name post n /\ exists tg, In (n, tg) (c_tags c) /\ t_auto tg = false /\ declared_tag post n tg.
Proof. exact explicit_tags_declared_lemma. Qed.
Print Assumptions explicit_tags_declared.

(* "... or the document is rejected", at full strength.  At the deciding Tags directive: a name for
   which the tag collection holds no NON-automatic tag - no such key, or only the automatic tag that
   an earlier interaction created - is answered "tag not found", located at the Tags directive *)
Theorem undeclared_tag_rejected : forall me anc i tags td n,
  used_tags_directive me anc = Some td -> d_annot td = [] ->
  In n (d_unnamed td) -> (forall t, In (n, t) tags -> t_auto t = true) ->
  tags_for me anc i tags = CErr (kw_err td (CEMsg "tag not found"%string)).
Proof. exact tags_for_undeclared. Qed.
Print Assumptions undeclared_tag_rejected.

(* ... and in every state the fold can reach (cat_inv: the invariant of the catalog under
   construction, established by build_inv) "no non-automatic tag" is "not declared by a TAG directive" *)
Theorem undeclared_tag_rejected_in_reachable_states : forall ts c me anc i td n,
  cat_inv ts c -> used_tags_directive me anc = Some td -> d_annot td = [] ->
  In n (d_unnamed td) -> ~ declared_name ts n ->
  tags_for me anc i (c_tags c) = CErr (kw_err td (CEMsg "tag not found"%string)).
Proof. exact tags_for_undeclared_inv. Qed.
Print Assumptions undeclared_tag_rejected_in_reachable_states.

(* the Tags adder (core.addTags -> catalog.CheckTags): EVERY Tags directive of the expanded forest of
   an accepted project - whether or not a method takes its tags from it - has no annotation, has
   parameters, and names declared tags only *)
Theorem tags_directive_checked : forall pp bt banned post c,
  build pp bt banned post = COk c ->
  forall t anc, occurs post t anc -> d_kind (tree_dir t) = KTags ->
    d_annot (tree_dir t) = [] /\ d_unnamed (tree_dir t) <> [] /\
    forall n, In n (d_unnamed (tree_dir t)) -> declared_name post n.
Proof. exact tags_directive_checked_lemma. Qed.
Print Assumptions tags_directive_checked.

(* contrapositive: a Tags directive anywhere that names something no TAG directive declares makes
   build fail *)
Theorem undeclared_tags_directive_rejected : forall pp bt banned post t anc n,
  occurs post t anc -> d_kind (tree_dir t) = KTags -> In n (d_unnamed (tree_dir t)) ->
  ~ declared_name post n ->
  forall c, build pp bt banned post <> COk c.
Proof. exact undeclared_tags_directive_rejected_lemma. Qed.
Print Assumptions undeclared_tags_directive_rejected.

(* in an accepted catalog every tag an interaction carries exists, and every tag is either declared
   by a top-level TAG directive (not automatic; title = annotation, or the name when there is none) or
   is the automatic tag of some interaction's path (title = pathTagTitle path) *)
Theorem used_tags_exist : forall pp bt banned post c,
  build pp bt banned post = COk c ->
  forall i x n, In (i, x) (c_inters c) -> In n (itags x) ->
    exists tg, In (n, tg) (c_tags c) /\
               ((t_auto tg = false /\ declared_tag post n tg) \/ (t_auto tg = true /\ automatic_tag c n tg)).
Proof. exact used_tags_exist_lemma. Qed.
Print Assumptions used_tags_exist.

Theorem declared_title : forall pp bt banned post c,
  build pp bt banned post = COk c ->
  forall n tg, In (n, tg) (c_tags c) ->
    (t_auto tg = false /\ declared_tag post n tg) \/ (t_auto tg = true /\ automatic_tag c n tg).
Proof. exact declared_title_lemma. Qed.
Print Assumptions declared_title.

(* examples.  JSIGHT 0.3 / GET /x {200 any} / GET /y {Tags @x, 200 any} (no TAG directive): "tag not
   found" at the Tags directive (offset 39); with the two GETs swapped the same (offset 21): the
   verdict no longer depends on the order.  JSIGHT 0.3 / TAG @a / URL /u {Tags @b, GET {Tags @a, 200 any}}:
   the URL's Tags, which no method inherits, is rejected where it stands (offset 27). *)
Theorem undeclared_tag_examples :
  (exists e, ex_build ex_undeclared_forest = CErr e /\ ce_kind e = CEMsg "tag not found"%string /\ ce_idx e = 39) /\
  (exists e, ex_build ex_swapped_forest = CErr e /\ ce_kind e = CEMsg "tag not found"%string /\ ce_idx e = 21) /\
  (exists e, ex_build ex_unused_tags_forest = CErr e /\ ce_kind e = CEMsg "tag not found"%string /\ ce_idx e = 27).
Proof. exact CatalogProofs.undeclared_tag_examples. Qed.
Print Assumptions undeclared_tag_examples.

(* interactions without explicit tags: same automatic tag name <=> same first path segment
   (pathTagTitle = "/" ++ first segment); all_bytes: every byte < 256 *)
Theorem auto_tags_shared_and_distinct : forall p1 p2,
  all_bytes p1 = true -> all_bytes p2 = true ->
  (auto_tag_name p1 = auto_tag_name p2 <-> pathTagTitle p1 = pathTagTitle p2).
Proof. exact auto_tags_shared_and_distinct_lemma. Qed.
Print Assumptions auto_tags_shared_and_distinct.

(* recorded observation: a DECLARED tag whose name is the automatic name of a path captures the
   interactions of that path.  JSIGHT 0.3 / TAG @x // My X / GET /x {200 any}: GET /x carries the single
   tag @x (its automatic name), which is the declared, non-automatic tag titled "My X"; no tag titled
   "/x" exists. *)
Theorem declared_tag_captures_automatic :
  exists c, ex_build ex_captured_forest = COk c /\
    skeleton_of c = ([(bs "@x", bs "My X", [ex_get_x], [], false)], [(bs "http GET /x", ex_get_x, [bs "@x"])]) /\
    auto_tag_name (bs "/x") = bs "@x" /\ pathTagTitle (bs "/x") = bs "/x".
Proof. exact declared_tag_captures_automatic_lemma. Qed.
Print Assumptions declared_tag_captures_automatic.

(* ======================================================================================= *)
(* position-wise part (proofs/CatalogMoreProofs.v): the tags of the interaction of a GIVEN method
   directive.  Vocabulary of proofs/FaithfulProofs.v: dk t = the kind of node t; method_kind t = t is a
   GET/POST/PUT/PATCH/DELETE or a JSON-RPC Method node; inter_delta t anc = [the interaction id such a
   node makes at that position] (protocol, keyword / MethodName, path: own Path parameter or the
   enclosing URL's).  "the first Tags child td of x" is written
   tree_kids x = l1 ++ td :: l2, no node of l1 is a Tags, dk td = KTags. *)
From JV.proofs Require Import FaithfulProofs CatalogMoreProofs.

(* explicit_tags_win says: every interaction has SOME method directive whose tag_spec it carries.  Here,
   for EVERY method directive of the forest: it makes one id, the id is a key of the catalog, and the
   entry under that key carries exactly tag_spec of THIS directive at THIS position *)
Theorem tags_at_every_method : forall pp bt banned post c,
  build pp bt banned post = COk c ->
  forall t anc, occurs post t anc -> method_kind t = true ->
    exists i x, inter_delta t anc = [i] /\ made_by t anc i /\ In (i, x) (c_inters c) /\
                itags x = tag_spec t anc i.
Proof. exact tags_at_position_lemma. Qed.
Print Assumptions tags_at_every_method.

(* the URL-level Tags applies wherever it stands among the URL's children: a method child m (HTTP or
   JSON-RPC) of the URL u that has no Tags child of its own carries exactly the names of u's first Tags
   child td, whether m stands before td (in l1) or after it (in l2) *)
Theorem url_tags_apply_wherever_they_stand : forall pp bt banned post c,
  build pp bt banned post = COk c ->
  forall u anc l1 td l2 m,
    occurs post u anc -> dk u = KURL ->
    tree_kids u = l1 ++ td :: l2 -> (forall y, In y l1 -> dk y <> KTags) -> dk td = KTags ->
    In m (l1 ++ l2) -> method_kind m = true -> (forall y, In y (tree_kids m) -> dk y <> KTags) ->
    exists i x, inter_delta m (u :: anc) = [i] /\ In (i, x) (c_inters c) /\ itags x = d_unnamed (tree_dir td).
Proof. exact url_tags_any_position_lemma. Qed.
Print Assumptions url_tags_apply_wherever_they_stand.

(* a method's own Tags wins, whatever its ancestors are (in particular over the Tags of a parent URL):
   the interaction of a method (HTTP or JSON-RPC) carries exactly the names of its own first Tags child *)
Theorem own_tags_win_over_url_tags : forall pp bt banned post c,
  build pp bt banned post = COk c ->
  forall m anc l1 td l2,
    occurs post m anc -> method_kind m = true ->
    tree_kids m = l1 ++ td :: l2 -> (forall y, In y l1 -> dk y <> KTags) -> dk td = KTags ->
    exists i x, inter_delta m anc = [i] /\ In (i, x) (c_inters c) /\ itags x = d_unnamed (tree_dir td).
Proof. exact own_tags_win_lemma. Qed.
Print Assumptions own_tags_win_over_url_tags.

(* an HTTP method that is a ROOT of the expanded forest (a method written at top level, and equally a
   path-bearing method hoisted out of a URL block: its parent is the root) takes tags from no URL: without
   a Tags child of its own, its interaction - id (http, keyword, own Path parameter) - carries the single
   automatic tag of its own path (tagName of "/" ++ first segment) *)
Theorem root_method_takes_no_url_tags : forall pp bt banned post c,
  build pp bt banned post = COk c ->
  forall m, In m post -> is_http_method (dk m) = true -> (forall y, In y (tree_kids m) -> dk y <> KTags) ->
    exists x, In ({| i_proto := PHttp; i_method := method_name (dk m); i_path := named (tree_dir m) (bs "Path") |}, x)
                 (c_inters c) /\
              itags x = [auto_tag_name (named (tree_dir m) (bs "Path"))] /\
              tagName (pathTagTitle (named (tree_dir m) (bs "Path"))) = GOk (auto_tag_name (named (tree_dir m) (bs "Path"))).
Proof. exact root_method_auto_tag_lemma. Qed.
Print Assumptions root_method_takes_no_url_tags.

(* the hypotheses are satisfiable.  JSIGHT 0.3 / TAG @a / TAG @b /
   URL /u { GET {200 any}, Tags @a, POST {Tags @b, 200 any} } / GET /v/w {200 any} /
   URL /r { Protocol json-rpc-2.0, Method foo, Tags @a, Method bar {Tags @b} }:
   GET /u stands BEFORE the URL's Tags and carries @a; POST /u and Method bar carry their own @b; Method foo
   (before the URL's Tags) carries @a; the root GET /v/w carries its automatic @v *)
Theorem tags_by_position_example :
  exists c, ex_build ex_tags_forest = COk c /\
    map (fun e => (iid_string (fst e), itags (snd e))) (c_inters c) =
      [ (bs "http GET /u", [bs "@a"]); (bs "http POST /u", [bs "@b"]); (bs "http GET /v/w", [bs "@v"]);
        (bs "json-rpc-2.0 foo /r", [bs "@a"]); (bs "json-rpc-2.0 bar /r", [bs "@b"]) ] /\
    occurs ex_tags_forest ex_u [] /\ dk ex_u = KURL /\
    tree_kids ex_u = [ex_u_get] ++ ex_u_tags :: [ex_u_post] /\ dk ex_u_tags = KTags /\
    method_kind ex_u_get = true /\ forallb (fun y => negb (kind_eqb (dk y) KTags)) (tree_kids ex_u_get) = true /\
    occurs ex_tags_forest ex_r [] /\ dk ex_r = KURL /\
    tree_kids ex_r = firstn 2 (tree_kids ex_r) ++ ex_r_tags :: [ex_r_bar] /\ In ex_r_foo (firstn 2 (tree_kids ex_r)) /\
    method_kind ex_r_foo = true /\ tree_kids ex_r_foo = [] /\
    method_kind ex_u_post = true /\ (exists td l2, tree_kids ex_u_post = [] ++ td :: l2 /\ dk td = KTags) /\
    method_kind ex_r_bar = true /\ (exists td l2, tree_kids ex_r_bar = [] ++ td :: l2 /\ dk td = KTags) /\
    In ex_root_get ex_tags_forest /\ is_http_method (dk ex_root_get) = true /\
    forallb (fun y => negb (kind_eqb (dk y) KTags)) (tree_kids ex_root_get) = true.
Proof. exact tags_positions_example. Qed.
Print Assumptions tags_by_position_example.
