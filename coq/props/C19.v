(* C19 — tags, string-level part: automatic tag names and titles.  Nothing but theorem
   statements, each closed by `exact` of a lemma proved in proofs/TagNameProofs.v, each
   followed by Print Assumptions.

   tagName       : REGENERATED from catalog/tag_name.go (gen/TagName.v)
   pathTagTitle  : hand model of catalog/tag.go pathTagTitle (model/TagTitle.v), tied to the
                   Go function by the `pathtagtitle` correspondence check. *)
From Coq Require Import List NArith Bool.
From JV.lib Require Import Bytes.
From JV.gen Require Import TagName.
From JV.model Require Import TagTitle.
From JV.proofs Require Import TagNameProofs.
Import ListNotations.
Open Scope N_scope.

(* auto_title t  <->  t = "/" ++ seg, seg without '/', every byte < 256 ("/" is seg = "").
   "Different first segments get different tag names": on such titles the tag name
   determines the title. *)
Theorem tagName_injective : forall t1 t2 n,
  auto_title t1 = true -> auto_title t2 = true ->
  tagName t1 = GOk n -> tagName t2 = GOk n -> t1 = t2.
Proof. exact tagName_injective_lemma. Qed.
Print Assumptions tagName_injective.

(* Stronger: only the leading '/' matters (slash_title t <-> t = "/" ++ s, every byte < 256). *)
Theorem tagName_injective_slash : forall t1 t2 n,
  slash_title t1 = true -> slash_title t2 = true ->
  tagName t1 = GOk n -> tagName t2 = GOk n -> t1 = t2.
Proof. exact tagName_injective_slash_lemma. Qed.
Print Assumptions tagName_injective_slash.

(* tagName never panics *)
Theorem tagName_total : forall t, exists n, tagName t = GOk n.
Proof. exact tagName_total_lemma. Qed.
Print Assumptions tagName_total.

(* pathTagTitle path is "/" ++ seg for THE first piece seg of strings.Split(path, "/") that
   is neither "" nor "." (first_kept: everything before seg is "" or "."), seg has no '/';
   or "/" when every piece is "" or ".". *)
Theorem pathTagTitle_spec : forall path,
  (exists seg, first_kept (split_byte 47 path) seg /\ ~ In 47 seg /\
               pathTagTitle path = 47 :: seg) \/
  (Forall skippable (split_byte 47 path) /\ pathTagTitle path = [47]).
Proof. exact pathTagTitle_spec_lemma. Qed.
Print Assumptions pathTagTitle_spec.

(* same first segment => same title (hence same tag) *)
Theorem pathTagTitle_same_segment : forall p1 p2 seg,
  first_kept (split_byte 47 p1) seg -> first_kept (split_byte 47 p2) seg ->
  pathTagTitle p1 = pathTagTitle p2.
Proof. exact TagNameProofs.pathTagTitle_same_segment. Qed.
Print Assumptions pathTagTitle_same_segment.

(* different first segments => different titles *)
Theorem pathTagTitle_diff_segment : forall p1 p2 seg1 seg2,
  first_kept (split_byte 47 p1) seg1 -> first_kept (split_byte 47 p2) seg2 ->
  seg1 <> seg2 -> pathTagTitle p1 <> pathTagTitle p2.
Proof. exact TagNameProofs.pathTagTitle_diff_segment. Qed.
Print Assumptions pathTagTitle_diff_segment.

(* different titles => different automatic tag names *)
Theorem auto_tag_names_distinct : forall p1 p2 n1 n2,
  all_bytes p1 = true -> all_bytes p2 = true ->
  pathTagTitle p1 <> pathTagTitle p2 ->
  tagName (pathTagTitle p1) = GOk n1 -> tagName (pathTagTitle p2) = GOk n2 ->
  n1 <> n2.
Proof. exact auto_tag_names_distinct_lemma. Qed.
Print Assumptions auto_tag_names_distinct.
