(* C12 — allOf inheritance.  Nothing but theorem statements, each closed by `exact` of a lemma of
   proofs/AllOfProofs.v or proofs/AllOfFullProofs.v, each followed by Print Assumptions.

   Objects:  model/AllOf.v   = core/compile_catalog.go ProcessAllOf ... inheritPropertiesFromUserType
                               on an explicit heap (in-place mutation, shallow copies sharing
                               grandchildren, run-wide memo set), as of /repo d4084b3: arrays are
                               descended into, JSON-RPC Params/Result are visited in a last pass;
                               `run e` = the stage on project e with the model's own fuel (theorems
                               below: it is never exhausted);
             spec/AllOfSpec.v = spec_tree: the pure closure (bases in rule order, properties in
                               declaration order, transitively, marked with the DIRECT base);
                               lib_ok: what the schema library accepts before the stage runs (no
                               unknown / non-object base, no allOf recursion, no key twice) — an
                               assumption about code outside /repo, compared with the real library
                               on every generated document by verifsys/checks/c12.py.

   What is decided here, and how far:

   * allof_correct — for EVERY project accepted by the library (lib_ok), no restriction on where the
     rules stand: rules at schema roots, on nested objects, on array items, at any depth, inside
     objects that carry a rule themselves; in use-site schemas (Path, Query, Headers, Body,
     JSON-RPC Params/Result), in user types nobody inherits from AND in base types (whose
     children are copied by value into every heir, the copies sharing the mutated
     grandchildren); any number of types, any acyclic inheritance graph (chains of any length,
     several bases, shared bases, empty diamonds), any declaration order, any set of use sites.
     The stage returns without error, without panic and within its fuel, every user type and
     every use-site schema renders exactly as spec_tree, and every node that carries no rule is
     physically untouched.
     Proof (proofs/AllOfHeapTyping.v, AllOfCopyLoop.v, AllOfProcess.v, AllOfFullProofs.v): a typing
     of the heap — every node, original or by-value copy, stands for a source subtree, its
     children for a suffix of that subtree's closure (`node_ok`) — that holds in EVERY
     intermediate state; `keeps`: a node that has all children of its closure is never written
     again (so a copy, which is only ever taken from a completed node, is completed and stays
     so: the shared grandchildren are harmless, a second visit through a copy or through another
     heir finds every property as an inherited one and does nothing); `lframe`: a visit of a
     node only writes nodes whose closure needs no more spec fuel than its own, and children and
     bases need strictly less (acyclicity) — so the object being filled is not touched by the
     visits it triggers, and S d units of fuel suffice at level d (`visit_level`).
   * allof_correct_skeleton, allof_correct_rootlevel (first rounds; their own proof by a shape
     invariant, AllOfProofs.v) and allof_correct_skeleton2 — the classes env_skeleton (no rule
     inside an object with a rule, bases have rules at their root only), env_root_level,
     env_skeleton2 (env_skeleton without the clause on bases: a BASE may carry rules on nested
     objects and array items): now corollaries of allof_correct; kept because they name the
     shapes (c12.py prints how many generated projects fall into each).
   * bases_unchanged_all, order_independent_all — every accepted project (bases_unchanged,
     order_independent: the same for env_skeleton, kept).
   * nodes_only_grow, bases_checked, undefined_base_rejected, non_object_base_rejected —
     unconditional (ANY project, accepted by the library or not): every node keeps its key, token
     type, rule and mark for ever and its children list only gains entries in front.
   * array_items_inherit, rpc_schemas_inherit — the two classes of accepted documents on which the
     code contradicted the property before a2c8521 / d4084b3 (then: allof_in_array_refuted,
     allof_in_rpc_refuted), now positive.
   NOT covered by a theorem (see the comment at the end): override_rejected as a statement about
   whole runs of ANY project (under lib_ok the situation cannot arise: the library rejects the
   duplicate key first; the turn of the loop that rejects is override_rejected_step).  lib_ok
   itself is an assumption about the schema library, compared with the real library on every
   generated document. *)
From Coq Require Import List NArith Bool String Permutation.
From JV.lib Require Import Bytes.
From JV.model Require Import AllOf.
From JV.spec Require Import AllOfSpec.
From JV.proofs Require Import AllOfProofs AllOfFullProofs.
Import ListNotations.
Open Scope nat_scope.
Open Scope string_scope.

(* renders_as_spec e w: for every rendering fuel >= 2 * env_size e + 3, every user type
   (w_types w pairs with e_types e, name by name) and every use-site schema renders in w's heap as
   spec_schema e says. *)

(* every library-accepted project *)
Theorem allof_correct :
  forall e, lib_ok e = true ->
  exists w, run e = ROk w /\
            renders_as_spec e w /\
            w_types w = w_types (init_world e) /\ w_uses w = w_uses (init_world e) /\
            (forall i n, get (w_state (init_world e)) i = Some n -> n_allof n = [] -> get (w_state w) i = Some n).
Proof. exact allof_correct_lemma. Qed.
Print Assumptions allof_correct.

(* the shape (A) alone: every schema is a skeleton, a base may carry rules below its root *)
Theorem allof_correct_skeleton2 :
  forall e, lib_ok e = true -> env_skeleton2 e = true ->
  exists w, run e = ROk w /\
            renders_as_spec e w /\
            w_types w = w_types (init_world e) /\ w_uses w = w_uses (init_world e) /\
            (forall i n, get (w_state (init_world e)) i = Some n -> n_allof n = [] -> get (w_state w) i = Some n).
Proof. exact allof_correct_skeleton2_lemma. Qed.
Print Assumptions allof_correct_skeleton2.

Theorem skeleton2_contains_skeleton : forall e, env_skeleton e = true -> env_skeleton2 e = true.
Proof. exact env_skeleton_skeleton2. Qed.
Print Assumptions skeleton2_contains_skeleton.

Theorem allof_correct_skeleton :
  forall e, lib_ok e = true -> env_skeleton e = true ->
  exists w, run e = ROk w /\
            renders_as_spec e w /\
            w_types w = w_types (init_world e) /\ w_uses w = w_uses (init_world e) /\
            (forall i n, get (w_state (init_world e)) i = Some n -> n_allof n = [] -> get (w_state w) i = Some n).
Proof. exact allof_correct_skeleton_bool. Qed.
Print Assumptions allof_correct_skeleton.

Theorem allof_correct_rootlevel :
  forall e, lib_ok e = true -> env_root_level e = true ->
  exists w, run e = ROk w /\
            renders_as_spec e w /\
            w_types w = w_types (init_world e) /\ w_uses w = w_uses (init_world e) /\
            (forall i n, get (w_state (init_world e)) i = Some n -> n_allof n = [] -> get (w_state w) i = Some n).
Proof. exact allof_correct_rootlevel_lemma. Qed.
Print Assumptions allof_correct_rootlevel.

(* "the base types themselves are left as declared": every node of the initial heap that carries
   no allOf rule — in particular every base type without a rule of its own, and every property of
   every type — is physically untouched by the run.  (A base WITH a rule gets its own inherited
   properties, as allof_correct says, whoever else inherits from it.) *)
Theorem bases_unchanged :
  forall e, lib_ok e = true -> env_skeleton e = true ->
  exists w, run e = ROk w /\
            forall i n, get (w_state (init_world e)) i = Some n -> n_allof n = [] -> get (w_state w) i = Some n.
Proof. exact bases_unchanged_lemma. Qed.
Print Assumptions bases_unchanged.

(* the rendering of a user type does not depend on the order of the TYPE directives nor on which
   requests, responses, headers, queries, paths use which types *)
Theorem order_independent :
  forall e1 e2,
  lib_ok e1 = true -> lib_ok e2 = true -> env_skeleton e1 = true -> env_skeleton e2 = true ->
  Permutation (e_types e1) (e_types e2) ->
  exists w1 w2, run e1 = ROk w1 /\ run e2 = ROk w2 /\
    forall name t r1 r2 fuel,
      In (name, Some t) (e_types e1) -> In (name, Some r1) (w_types w1) -> In (name, Some r2) (w_types w2) ->
      2 * (env_size e1 + env_size e2) + 3 <= fuel ->
      render fuel (w_state w1) r1 = render fuel (w_state w2) r2 /\ render fuel (w_state w1) r1 <> None.
Proof. exact order_independent_lemma. Qed.
Print Assumptions order_independent.

(* the same two for every accepted project.  What is left as declared: every node without a rule
   (every base without a rule of its own, every property of every type, every array, every
   scalar).  A node WITH a rule — the root of a base as well as an object nested in a base — gets
   its inherited properties in place, as allof_correct says, and nothing else happens to it:
   nodes_only_grow. *)
Theorem bases_unchanged_all :
  forall e, lib_ok e = true ->
  exists w, run e = ROk w /\
            forall i n, get (w_state (init_world e)) i = Some n -> n_allof n = [] -> get (w_state w) i = Some n.
Proof. exact bases_unchanged_all_lemma. Qed.
Print Assumptions bases_unchanged_all.

Theorem order_independent_all :
  forall e1 e2,
  lib_ok e1 = true -> lib_ok e2 = true ->
  Permutation (e_types e1) (e_types e2) ->
  exists w1 w2, run e1 = ROk w1 /\ run e2 = ROk w2 /\
    forall name t r1 r2 fuel,
      In (name, Some t) (e_types e1) -> In (name, Some r1) (w_types w1) -> In (name, Some r2) (w_types w2) ->
      2 * (env_size e1 + env_size e2) + 3 <= fuel ->
      render fuel (w_state w1) r1 = render fuel (w_state w2) r2 /\ render fuel (w_state w1) r1 <> None.
Proof. exact order_independent_all_lemma. Qed.
Print Assumptions order_independent_all.

(* ANY project, accepted or not: a node of the initial heap keeps its key, token type, allOf rule and
   mark, and its children list only gains entries in front *)
Theorem nodes_only_grow :
  forall e w, run e = ROk w ->
  forall i n, get (w_state (init_world e)) i = Some n ->
  exists n', get (w_state w) i = Some n' /\
             n_key n' = n_key n /\ n_tok n' = n_tok n /\ n_allof n' = n_allof n /\ n_inh n' = n_inh n /\
             exists inherited, n_children n' = (inherited ++ n_children n)%list.
Proof. exact nodes_only_grow_lemma. Qed.
Print Assumptions nodes_only_grow.

(* ANY project (nested allOf, cycles, clashes, no library in front): if the stage comes back
   without error then every base named at the root of a user type or of a visited use-site schema
   is a defined jsight type whose schema is an object *)
Theorem bases_checked :
  forall e w, run e = ROk w ->
  (forall name ao kids b, In (name, Some (Tree TObject ao kids)) (e_types e) -> In b ao ->
     exists ao' kids', lookup (e_types e) b = Some (Some (Tree TObject ao' kids'))) /\
  (forall k ao kids b, In (k, Tree TObject ao kids) (e_uses e) -> In b ao ->
     exists ao' kids', lookup (e_types e) b = Some (Some (Tree TObject ao' kids'))).
Proof. exact bases_checked_lemma. Qed.
Print Assumptions bases_checked.

Theorem undefined_base_rejected :
  forall e name ao kids b,
  In (name, Some (Tree TObject ao kids)) (e_types e) -> In b ao -> lookup (e_types e) b = None ->
  forall w, run e <> ROk w.
Proof. exact undefined_base_rejected_lemma. Qed.
Print Assumptions undefined_base_rejected.

Theorem non_object_base_rejected :
  forall e name ao kids b tk ao' kids',
  In (name, Some (Tree TObject ao kids)) (e_types e) -> In b ao ->
  lookup (e_types e) b = Some (Some (Tree tk ao' kids')) -> tk <> TObject ->
  forall w, run e <> ROk w.
Proof. exact non_object_base_rejected_lemma. Qed.
Print Assumptions non_object_base_rejected.

(* a base of another notation (regex/any: ContentJSight is nil) is not accepted either — the Go
   code would even dereference nil; the schema library rejects such a document first *)
Theorem non_jsight_base_rejected :
  forall e name ao kids b,
  In (name, Some (Tree TObject ao kids)) (e_types e) -> In b ao -> lookup (e_types e) b = Some None ->
  forall w, run e <> ROk w.
Proof. exact non_jsight_base_rejected_lemma. Qed.
Print Assumptions non_jsight_base_rejected.

(* overriding: the statement of the override check itself (one turn of the copy loop): when the
   property at index i of the base has the key of a property of sc that is NOT inherited, the turn
   returns the error, whatever the rest of the heap looks like.  Whole runs: the Examples below
   (direct, transitive, from a use site); every override of the enumeration: c12.py, unit
   correspondence against the real ProcessAllOf. *)
Theorem override_rejected_step :
  forall u name sc rb st i rbn v vn k scn Cs p,
  get st rb = Some rbn -> nth_error (n_children rbn) i = Some v -> get st v = Some vn -> n_key vn = Some k ->
  get st sc = Some scn -> cnodes st sc = Some Cs -> Forall keyed Cs ->
  first_with_key k Cs = Some p -> n_inh p = [] ->
  inherit_step u name sc rb st i = RErr (EOverride k name).
Proof. exact inherit_step_override. Qed.
Print Assumptions override_rejected_step.

Theorem override_rejected_examples :
  run_observe ex_override_direct = RErr (EOverride (bs "a") (bs "@a")) /\
  run_observe ex_override_transitive = RErr (EOverride (bs "a") (bs "@b")).
Proof. exact override_examples_lemma. Qed.
Print Assumptions override_rejected_examples.

(* ---- array items and JSON-RPC schemas: refuted for the code before a2c8521 / d4084b3
   (allof_in_array_refuted, allof_in_rpc_refuted of the first round), now applied.  JSON-RPC schemas
   are covered by allof_correct_rootlevel; allOf below an array is not in its class: examples here,
   every project of the enumeration in c12.py ---- *)

Theorem array_items_inherit :
  lib_ok ex_array = true /\ env_no_array_allof ex_array = false /\ compare_env ex_array = VAgree /\
  uses_of ex_array =
  ROk [(URespBody, Some (RNode None TArray [] [RNode None TObject [] [leaf "a" "@a"; leaf "z" ""]]));
       (UReqBody, Some (robj [RNode (Some (bs "items")) TArray (bs "@l")
                                    [RNode None TObject [] [leaf "a" "@a"; leaf "m" ""]; RNode None TOther [] []];
                              RNode (Some (bs "w")) TArray []
                                    [RNode None TArray [] [RNode None TObject [] [leaf "a" "@a"]]]]))].
Proof. exact array_items_inherit_lemma. Qed.
Print Assumptions array_items_inherit.

Theorem rpc_schemas_inherit :
  lib_ok ex_rpc = true /\ env_no_rpc_allof ex_rpc = false /\ compare_env ex_rpc = VAgree /\
  uses_of ex_rpc =
  ROk [(URpcParams, Some (robj [leaf "a" "@b"; leaf "b" "@b"; leaf "p" ""]));
       (URpcResult, Some (robj [leaf "a" "@a"]));
       (URespBody, Some (robj [leaf "a" "@a"; leaf "z" ""]));
       (URpcParams, Some (RNode None TArray [] [RNode None TObject [] [leaf "a" "@b"; leaf "b" "@b"]]))].
Proof. exact rpc_schemas_inherit_lemma. Qed.
Print Assumptions rpc_schemas_inherit.

(* a project of the class of allof_correct_skeleton that is not root-level (rules on array items and
   nested objects of use sites and of a type nobody inherits from); ex_array and ex_nested are
   outside the class (a base with a rule below its root; a rule inside an object with a rule) *)
Theorem skeleton_example :
  lib_ok ex_skeleton = true /\ env_skeleton ex_skeleton = true /\ env_root_level ex_skeleton = false /\
  compare_env ex_skeleton = VAgree /\
  env_skeleton ex_array = false /\ env_skeleton ex_nested = false.
Proof. exact skeleton_example_lemma. Qed.
Print Assumptions skeleton_example.

(* the shapes that were outside allof_correct_skeleton.  ex_deep_base: three levels of inheritance
   (@c <- @b <- @a, declared heirs first); the base @a carries a rule on a nested object, on an
   array item (two bases) and two levels down; used from a response body, below an array in a
   JSON-RPC result and on a nested object of a query: in env_skeleton2, not in env_skeleton.
   ex_nested, ex_array: a rule inside an object with a rule: in neither class, inside
   allof_correct. *)
Theorem deep_base_example :
  lib_ok ex_deep_base = true /\ env_skeleton2 ex_deep_base = true /\ env_skeleton ex_deep_base = false /\
  compare_env ex_deep_base = VAgree /\
  uses_of ex_deep_base =
  ROk [(URespBody,
        Some (robj [rprop "p" "@c" TObject [leaf "x" "@x"; leaf "q" ""];
                    rprop "l" "@c" TArray [RNode None TObject [] [rprop "y" "@y" TArray [RNode None TOther [] []];
                                                                  leaf "x" "@x"; leaf "m" ""];
                                           RNode None TOther [] []];
                    rprop "q" "@c" TObject [rprop "r" "" TObject [rprop "y" "@y" TArray [RNode None TOther [] []]]];
                    leaf "a" "@c"; leaf "b" "@c"; leaf "c" "@c"; leaf "z" ""]));
       (URpcResult,
        Some (RNode None TArray []
               [RNode None TObject []
                  [rprop "p" "@b" TObject [leaf "x" "@x"; leaf "q" ""];
                   rprop "l" "@b" TArray [RNode None TObject [] [rprop "y" "@y" TArray [RNode None TOther [] []];
                                                                 leaf "x" "@x"; leaf "m" ""];
                                          RNode None TOther [] []];
                   rprop "q" "@b" TObject [rprop "r" "" TObject [rprop "y" "@y" TArray [RNode None TOther [] []]]];
                   leaf "a" "@b"; leaf "b" "@b"]]));
       (UQuery,
        Some (robj [rprop "w" "" TObject
                      [rprop "p" "@c" TObject [leaf "x" "@x"; leaf "q" ""];
                       rprop "l" "@c" TArray [RNode None TObject [] [rprop "y" "@y" TArray [RNode None TOther [] []];
                                                                     leaf "x" "@x"; leaf "m" ""];
                                              RNode None TOther [] []];
                       rprop "q" "@c" TObject [rprop "r" "" TObject [rprop "y" "@y" TArray [RNode None TOther [] []]]];
                       leaf "a" "@c"; leaf "b" "@c"; leaf "c" "@c"; leaf "v" ""]]))].
Proof. exact deep_base_example_lemma. Qed.
Print Assumptions deep_base_example.

Theorem nested_rule_example :
  lib_ok ex_nested = true /\ env_skeleton2 ex_nested = false /\ compare_env ex_nested = VAgree /\
  lib_ok ex_array = true /\ env_skeleton2 ex_array = false /\ compare_env ex_array = VAgree.
Proof. exact nested_rule_example_lemma. Qed.
Print Assumptions nested_rule_example.

(* ---- readings of the property text, settled by computation on the model (and on the real
   code by c12.py) ---- *)

(* "marked with the base it was taken from" = the base named in the inheriting object's own rule *)
Theorem marking_is_direct_base_thm :
  spec_schema ex_chain3 (obj ["@b"] [prop "c" sc]) = Some (robj [leaf "a" "@b"; leaf "b" "@b"; leaf "c" ""]) /\
  spec_tree_owner (spec_fuel ex_chain3) (e_types ex_chain3) None (obj ["@b"] [prop "c" sc])
  = Some (robj [leaf "a" "@a"; leaf "b" "@b"; leaf "c" ""]).
Proof. exact marking_is_direct_base. Qed.
Print Assumptions marking_is_direct_base_thm.

(* "each exactly once": a diamond over a base with a property is REJECTED (by the library); the
   stage alone would keep the copy of the last-named base *)
Theorem diamond_is_rejected : lib_ok ex_diamond = false /\ compare_env ex_diamond = VRejectedBoth.
Proof. exact diamond_rejected. Qed.
Print Assumptions diamond_is_rejected.

(* examples: chain of 3 (declared derived-first, used from a response), two bases, a base shared
   by two types, a diamond over an empty base, allOf below the root *)
Theorem examples_agree :
  compare_env ex_chain3 = VAgree /\ compare_env ex_two_bases = VAgree /\
  compare_env ex_empty_diamond = VAgree /\ compare_env ex_nested = VAgree.
Proof. exact examples_agree_lemma. Qed.
Print Assumptions examples_agree.

(* NOT part of C12 (it is C10's): usedUserTypes of a type depends on the declaration order *)
Theorem used_types_order_dependent :
  used_of {| e_types := e_types ex_chain3; e_uses := [] |} = ROk [[bs "@b"; bs "@a"]; [bs "@a"]; []] /\
  used_of ex_chain3_rev = ROk [[]; [bs "@a"]; [bs "@b"]].
Proof. exact used_types_order_dependent_lemma. Qed.
Print Assumptions used_types_order_dependent.

(* The full statements, and what is missing for them.

   allof_correct (all accepted projects) — PROVED above.  It was `_partial` (allof_correct_skeleton)
   as long as the proof rested on a shape invariant of the heap (heap_ok: a node that is ever
   mutated is never the child of a node that is copied or mutated), which two situations break:
     (a) a BASE with a rule below its root (e.g. TYPE @t { "p": { // {allOf: "@x"} } } inherited by
         somebody): the mutated node p is copied by value into every inheriting object, the copies
         share p's children and are visited again through each copy;
     (b) a rule inside an object that has a rule itself: the outer object is mutated and has a
         mutated child.
   The proof of allof_correct does not separate regions; it types every node by the source subtree
   it stands for and shows (1) that every intermediate heap is typable (children = a suffix of the
   closure), (2) that a completed node is never written again — a second visit, through a copy or
   through another heir, finds every property of every base as an inherited one (keys of a
   closure are pairwise different: the library's "Duplicate keys" check) — and (3) that the
   visits triggered by a node stay strictly below its level (least spec fuel), which is
   acyclicity.  The bounded exhaustive model-vs-spec search of c12.py stays as a check of the
   model's extraction and of lib_ok against the real library, no longer as the only evidence for
   (a) and (b).

   override_rejected (whole runs, any project):
     forall e w name ao kids b ao' kids' k, run e = ROk w ->
       In (name, Some (Tree TObject ao kids)) (e_types e) -> In b ao ->
       lookup (e_types e) b = Some (Some (Tree TObject ao' kids')) ->
       In (Some k) (map fst kids) -> In (Some k) (map fst kids') -> False.
   Needs the run-wide invariant "no object has an unmarked and a marked child with one key" (kept
   by every Unshift because a copy is only added when ObjectProperty found nothing) and the fact
   that the copy loop reaches the base's own property although the base may have grown meanwhile
   (self-inheritance through a cycle).  Under lib_ok the situation cannot arise (the library rejects
   the duplicate key first), which is why it is not needed for allof_correct. *)
