(* C12 — allOf inheritance.  Nothing but theorem statements, each closed by `exact` of a lemma of
   proofs/AllOfProofs.v, each followed by Print Assumptions.

   Objects:  model/AllOf.v   = core/compile_catalog.go ProcessAllOf ... inheritPropertiesFromUserType
                               on an explicit heap (in-place mutation, shallow copies sharing
                               grandchildren, run-wide memo set), `run e` = the stage on project e
                               with the model's own fuel (theorems below: it is never exhausted);
             spec/AllOfSpec.v = spec_tree: the pure closure (bases in rule order, properties in
                               declaration order, transitively, marked with the DIRECT base);
                               lib_ok: what the schema library accepts before the stage runs (no
                               unknown / non-object base, no allOf recursion, no key twice) — an
                               assumption about code outside /repo, compared with the real library
                               on every generated document by verifsys/checks/c12.py.

   What is decided here, and how far:

   * allof_correct_rootlevel — for EVERY project accepted by the library whose allOf rules sit at
     the roots of user types and of use-site schemas (any number of types, any acyclic inheritance
     graph: chains, several bases, shared bases, empty diamonds; any declaration order; any set of
     use sites of any kind; arbitrary nested objects/arrays WITHOUT allOf): the stage returns
     without error, without panic and within its fuel, and every user type and every visited
     use-site schema renders exactly as spec_tree.  Not covered by this theorem: allOf on an object
     nested inside another schema (see the comment at the end); there the statement is decided for
     all projects of the bounded enumeration by the extracted model (c12.py, model search).
   * bases_unchanged, order_independent — same class.
   * undefined_base_rejected, non_object_base_rejected — unconditional (ANY project).
   * the two classes of accepted documents on which the code contradicts the property:
     allof_in_array_refuted, allof_in_rpc_refuted. *)
From Coq Require Import List NArith Bool String Permutation.
From JV.lib Require Import Bytes.
From JV.model Require Import AllOf.
From JV.spec Require Import AllOfSpec.
From JV.proofs Require Import AllOfProofs.
Import ListNotations.
Open Scope nat_scope.
Open Scope string_scope.

(* renders_as_spec rpc_too e w: for every rendering fuel >= env_size e + 2, every user type
   (w_types w pairs with e_types e, name by name) and every use-site schema — the JSON-RPC ones
   only when rpc_too — renders in w's heap as spec_schema e says. *)

Theorem allof_correct_rootlevel :
  forall e, lib_ok e = true -> env_root_level e = true ->
  exists w, run e = ROk w /\
            renders_as_spec false e w /\
            (env_no_rpc_allof e = true -> renders_as_spec true e w) /\
            w_types w = w_types (init_world e) /\ w_uses w = w_uses (init_world e) /\
            (forall i n, get (w_state (init_world e)) i = Some n -> n_allof n = [] -> get (w_state w) i = Some n).
Proof. exact allof_correct_rootlevel_lemma. Qed.
Print Assumptions allof_correct_rootlevel.

(* "the base types themselves are left as declared": every node of the initial heap that carries
   no allOf rule — in particular every base type without a rule of its own, and every property of
   every type — is physically untouched by the run.  (A base WITH a rule gets its own inherited
   properties, as allof_correct says, whoever else inherits from it.) *)
Theorem bases_unchanged :
  forall e, lib_ok e = true -> env_root_level e = true ->
  exists w, run e = ROk w /\
            forall i n, get (w_state (init_world e)) i = Some n -> n_allof n = [] -> get (w_state w) i = Some n.
Proof. exact bases_unchanged_lemma. Qed.
Print Assumptions bases_unchanged.

(* the rendering of a user type does not depend on the order of the TYPE directives nor on which
   requests, responses, headers, queries, paths use which types *)
Theorem order_independent :
  forall e1 e2,
  lib_ok e1 = true -> lib_ok e2 = true -> env_root_level e1 = true -> env_root_level e2 = true ->
  Permutation (e_types e1) (e_types e2) ->
  exists w1 w2, run e1 = ROk w1 /\ run e2 = ROk w2 /\
    forall name t r1 r2 fuel,
      In (name, Some t) (e_types e1) -> In (name, Some r1) (w_types w1) -> In (name, Some r2) (w_types w2) ->
      env_size e1 + env_size e2 + 2 <= fuel ->
      render fuel (w_state w1) r1 = render fuel (w_state w2) r2 /\ render fuel (w_state w1) r1 <> None.
Proof. exact order_independent_lemma. Qed.
Print Assumptions order_independent.

(* ANY project (nested allOf, cycles, clashes, no library in front): if the stage comes back
   without error then every base named at the root of a user type or of a visited use-site schema
   is a defined jsight type whose schema is an object *)
Theorem bases_checked :
  forall e w, run e = ROk w ->
  (forall name ao kids b, In (name, Some (Tree TObject ao kids)) (e_types e) -> In b ao ->
     exists ao' kids', lookup (e_types e) b = Some (Some (Tree TObject ao' kids'))) /\
  (forall k ao kids b, In (k, Tree TObject ao kids) (e_uses e) -> is_rpc k = false -> In b ao ->
     exists ao' kids', lookup (e_types e) b = Some (Some (Tree TObject ao' kids'))).
Proof. exact bases_checked_lemma. Qed.
Print Assumptions bases_checked.

Theorem undefined_base_rejected :
  forall e name ao kids b,
  In (name, Some (Tree TObject ao kids)) (e_types e) -> In b ao -> lookup (e_types e) b = None ->
  forall w, run e <> ROk w.
Proof. exact undefined_base_rejected_lemma. Qed.
Print Assumptions undefined_base_rejected.

Theorem non_object_base_rejected :
  forall e name ao kids b tk ao' kids',
  In (name, Some (Tree TObject ao kids)) (e_types e) -> In b ao ->
  lookup (e_types e) b = Some (Some (Tree tk ao' kids')) -> tk <> TObject ->
  forall w, run e <> ROk w.
Proof. exact non_object_base_rejected_lemma. Qed.
Print Assumptions non_object_base_rejected.

(* a base of another notation (regex/any: ContentJSight is nil) is not accepted either — the Go
   code would even dereference nil; the schema library rejects such a document first *)
Theorem non_jsight_base_rejected :
  forall e name ao kids b,
  In (name, Some (Tree TObject ao kids)) (e_types e) -> In b ao -> lookup (e_types e) b = Some None ->
  forall w, run e <> ROk w.
Proof. exact non_jsight_base_rejected_lemma. Qed.
Print Assumptions non_jsight_base_rejected.

(* overriding: the statement of the override check itself (one turn of the copy loop): when the
   property at index i of the base has the key of a property of sc that is NOT inherited, the turn
   returns the error, whatever the rest of the heap looks like.  Whole runs: the Examples below
   (direct, transitive, from a use site); every override of the enumeration: c12.py, unit
   correspondence against the real ProcessAllOf. *)
Theorem override_rejected_step :
  forall u name sc rb st i rbn v vn k scn Cs p,
  get st rb = Some rbn -> nth_error (n_children rbn) i = Some v -> get st v = Some vn -> n_key vn = Some k ->
  get st sc = Some scn -> cnodes st sc = Some Cs -> Forall keyed Cs ->
  first_with_key k Cs = Some p -> n_inh p = [] ->
  inherit_step u name sc rb st i = RErr (EOverride k name).
Proof. exact inherit_step_override. Qed.
Print Assumptions override_rejected_step.

Theorem override_rejected_examples :
  run_observe ex_override_direct = RErr (EOverride (bs "a") (bs "@a")) /\
  run_observe ex_override_transitive = RErr (EOverride (bs "a") (bs "@b")).
Proof. exact override_examples_lemma. Qed.
Print Assumptions override_rejected_examples.

(* ---- refuted as stated: accepted documents in which an allOf rule is NOT applied ---- *)

(* an object with an allOf rule that is an array item (or lies below an array): the library
   accepts the project, the stage returns at `sc.TokenType != object` without descending *)
Theorem allof_in_array_refuted :
  exists e, lib_ok e = true /\ env_no_rpc_allof e = true /\ env_no_array_allof e = false /\
            exists w, run e = ROk w /\
                      map snd (o_uses (observe e w)) = [Some (RNode None TArray [] [RNode None TObject [] [leaf "z" ""]])] /\
                      map (fun x => spec_schema e (snd x)) (e_uses e)
                      = [Some (RNode None TArray [] [RNode None TObject [] [leaf "a" "@a"; leaf "z" ""]])].
Proof. exact allof_in_array_refuted_lemma. Qed.
Print Assumptions allof_in_array_refuted.

(* JSON-RPC Params / Result schemas are never visited by ProcessAllOf *)
Theorem allof_in_rpc_refuted :
  exists e, lib_ok e = true /\ env_root_level e = true /\ env_no_array_allof e = true /\ env_no_rpc_allof e = false /\
            exists w, run e = ROk w /\
                      map snd (o_uses (observe e w)) = [Some (robj [leaf "p" ""]); Some (robj [])] /\
                      map (fun x => spec_schema e (snd x)) (e_uses e)
                      = [Some (robj [leaf "a" "@a"; leaf "p" ""]); Some (robj [leaf "a" "@a"])].
Proof. exact allof_in_rpc_refuted_lemma. Qed.
Print Assumptions allof_in_rpc_refuted.

(* ---- readings of the property text, settled by computation on the model (and on the real
   code by c12.py) ---- *)

(* "marked with the base it was taken from" = the base named in the inheriting object's own rule *)
Theorem marking_is_direct_base_thm :
  spec_schema ex_chain3 (obj ["@b"] [prop "c" sc]) = Some (robj [leaf "a" "@b"; leaf "b" "@b"; leaf "c" ""]) /\
  spec_tree_owner (spec_fuel ex_chain3) (e_types ex_chain3) None (obj ["@b"] [prop "c" sc])
  = Some (robj [leaf "a" "@a"; leaf "b" "@b"; leaf "c" ""]).
Proof. exact marking_is_direct_base. Qed.
Print Assumptions marking_is_direct_base_thm.

(* "each exactly once": a diamond over a base with a property is REJECTED (by the library); the
   stage alone would keep the copy of the last-named base *)
Theorem diamond_is_rejected : lib_ok ex_diamond = false /\ compare_env ex_diamond = VRejectedBoth.
Proof. exact diamond_rejected. Qed.
Print Assumptions diamond_is_rejected.

(* examples: chain of 3 (declared derived-first, used from a response), two bases, a base shared
   by two types, a diamond over an empty base, allOf below the root *)
Theorem examples_agree :
  compare_env ex_chain3 = VAgree /\ compare_env ex_two_bases = VAgree /\
  compare_env ex_empty_diamond = VAgree /\ compare_env ex_nested = VAgree.
Proof. exact examples_agree_lemma. Qed.
Print Assumptions examples_agree.

(* NOT part of C12 (it is C10's): usedUserTypes of a type depends on the declaration order *)
Theorem used_types_order_dependent :
  used_of {| e_types := e_types ex_chain3; e_uses := [] |} = ROk [[bs "@b"; bs "@a"]; [bs "@a"]; []] /\
  used_of ex_chain3_rev = ROk [[]; [bs "@a"]; [bs "@b"]].
Proof. exact used_types_order_dependent_lemma. Qed.
Print Assumptions used_types_order_dependent.

(* The full statements, and what is missing for them.

   allof_correct (all accepted projects):
     forall e, lib_ok e = true -> env_no_array_allof e = true ->
     exists w, run e = ROk w /\ renders_as_spec false e w.
   The proof above needs, of the heap, only that a node that is ever mutated is never anybody's
   child (heap_ok): true when allOf rules sit at schema roots.  With allOf on nested objects a
   mutated node IS a child, is copied by value into inheriting schemas (the copy shares its
   children) and is visited again through each copy; the argument then needs (1) a separation
   invariant: the regions below two unvisited schema roots are disjoint trees; (2) "a fully
   visited node is a fixed point of the stage" as a heap-level statement, so that visits through
   copies change nothing.  No counterexample exists among all projects of the enumeration in
   c12.py (3.9 million projects in the model search of the thorough tier, 9.7 million in the one-off
   search made when the component was written: <= 4 types, allOf at depth <= 3, every declaration
   order, every kind of use site): outside arrays and JSON-RPC the model agrees with
   spec_tree on every one of them.

   override_rejected (whole runs, any project):
     forall e w name ao kids b ao' kids' k, run e = ROk w ->
       In (name, Some (Tree TObject ao kids)) (e_types e) -> In b ao ->
       lookup (e_types e) b = Some (Some (Tree TObject ao' kids')) ->
       In (Some k) (map fst kids) -> In (Some k) (map fst kids') -> False.
   Needs the run-wide invariant "no object has an unmarked and a marked child with one key" (kept
   by every Unshift because a copy is only added when ObjectProperty found nothing) and the fact
   that the copy loop reaches the base's own property although the base may have grown meanwhile
   (self-inheritance through a cycle).  Under lib_ok the situation cannot arise (the library rejects
   the duplicate key first), which is why it is not needed for allof_correct. *)
