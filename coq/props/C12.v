(* C12 — allOf inheritance.  Nothing but theorem statements, each closed by `exact` of a lemma of
   proofs/AllOfProofs.v, each followed by Print Assumptions.

   Objects:  model/AllOf.v   = core/compile_catalog.go ProcessAllOf ... inheritPropertiesFromUserType
                               on an explicit heap (in-place mutation, shallow copies sharing
                               grandchildren, run-wide memo set), as of /repo d4084b3: arrays are
                               descended into, JSON-RPC Params/Result are visited in a last pass;
                               `run e` = the stage on project e with the model's own fuel (theorems
                               below: it is never exhausted);
             spec/AllOfSpec.v = spec_tree: the pure closure (bases in rule order, properties in
                               declaration order, transitively, marked with the DIRECT base);
                               lib_ok: what the schema library accepts before the stage runs (no
                               unknown / non-object base, no allOf recursion, no key twice) — an
                               assumption about code outside /repo, compared with the real library
                               on every generated document by verifsys/checks/c12.py.

   What is decided here, and how far:

   * allof_correct_skeleton (the `_partial` of allof_correct) — for EVERY project accepted by the
     library in the class env_skeleton:
       (1) no object with an allOf rule lies inside another object with an allOf rule (below an
           object with a rule everything is plain; above it only objects and arrays without rule);
       (2) every user type NAMED in some allOf rule has its own rules at its root only.
     So: rules on nested objects and on array items, at any depth, in use-site schemas (Path, Query,
     Headers, Body, JSON-RPC Params/Result) and in user types nobody inherits from; flat bases;
     any number of types, any acyclic inheritance graph (chains, several bases, shared bases, empty
     diamonds), any declaration order, any set of use sites.  The stage returns without error,
     without panic and within its fuel, and every user type and every use-site schema renders
     exactly as spec_tree.
     NOT covered (see the comment at the end): a BASE type with a rule below its root (its
     children are copied by value and the copies share the mutated grandchildren), and a rule
     inside an object that has a rule itself.  There the statement is decided for all projects of
     the bounded enumeration by the extracted model (c12.py, model search: no deviation left).
   * allof_correct_rootlevel — the corollary for projects whose rules all sit at schema roots.
   * bases_unchanged, order_independent — same class as allof_correct_skeleton.
   * bases_checked, undefined_base_rejected, non_object_base_rejected — unconditional (ANY project).
   * array_items_inherit, rpc_schemas_inherit — the two classes of accepted documents on which the
     code contradicted the property before a2c8521 / d4084b3 (then: allof_in_array_refuted,
     allof_in_rpc_refuted), now positive. *)
From Coq Require Import List NArith Bool String Permutation.
From JV.lib Require Import Bytes.
From JV.model Require Import AllOf.
From JV.spec Require Import AllOfSpec.
From JV.proofs Require Import AllOfProofs.
Import ListNotations.
Open Scope nat_scope.
Open Scope string_scope.

(* renders_as_spec e w: for every rendering fuel >= 2 * env_size e + 3, every user type
   (w_types w pairs with e_types e, name by name) and every use-site schema renders in w's heap as
   spec_schema e says. *)

Theorem allof_correct_skeleton :
  forall e, lib_ok e = true -> env_skeleton e = true ->
  exists w, run e = ROk w /\
            renders_as_spec e w /\
            w_types w = w_types (init_world e) /\ w_uses w = w_uses (init_world e) /\
            (forall i n, get (w_state (init_world e)) i = Some n -> n_allof n = [] -> get (w_state w) i = Some n).
Proof. exact allof_correct_skeleton_bool. Qed.
Print Assumptions allof_correct_skeleton.

Theorem allof_correct_rootlevel :
  forall e, lib_ok e = true -> env_root_level e = true ->
  exists w, run e = ROk w /\
            renders_as_spec e w /\
            w_types w = w_types (init_world e) /\ w_uses w = w_uses (init_world e) /\
            (forall i n, get (w_state (init_world e)) i = Some n -> n_allof n = [] -> get (w_state w) i = Some n).
Proof. exact allof_correct_rootlevel_lemma. Qed.
Print Assumptions allof_correct_rootlevel.

(* "the base types themselves are left as declared": every node of the initial heap that carries
   no allOf rule — in particular every base type without a rule of its own, and every property of
   every type — is physically untouched by the run.  (A base WITH a rule gets its own inherited
   properties, as allof_correct says, whoever else inherits from it.) *)
Theorem bases_unchanged :
  forall e, lib_ok e = true -> env_skeleton e = true ->
  exists w, run e = ROk w /\
            forall i n, get (w_state (init_world e)) i = Some n -> n_allof n = [] -> get (w_state w) i = Some n.
Proof. exact bases_unchanged_lemma. Qed.
Print Assumptions bases_unchanged.

(* the rendering of a user type does not depend on the order of the TYPE directives nor on which
   requests, responses, headers, queries, paths use which types *)
Theorem order_independent :
  forall e1 e2,
  lib_ok e1 = true -> lib_ok e2 = true -> env_skeleton e1 = true -> env_skeleton e2 = true ->
  Permutation (e_types e1) (e_types e2) ->
  exists w1 w2, run e1 = ROk w1 /\ run e2 = ROk w2 /\
    forall name t r1 r2 fuel,
      In (name, Some t) (e_types e1) -> In (name, Some r1) (w_types w1) -> In (name, Some r2) (w_types w2) ->
      2 * (env_size e1 + env_size e2) + 3 <= fuel ->
      render fuel (w_state w1) r1 = render fuel (w_state w2) r2 /\ render fuel (w_state w1) r1 <> None.
Proof. exact order_independent_lemma. Qed.
Print Assumptions order_independent.

(* ANY project (nested allOf, cycles, clashes, no library in front): if the stage comes back
   without error then every base named at the root of a user type or of a visited use-site schema
   is a defined jsight type whose schema is an object *)
Theorem bases_checked :
  forall e w, run e = ROk w ->
  (forall name ao kids b, In (name, Some (Tree TObject ao kids)) (e_types e) -> In b ao ->
     exists ao' kids', lookup (e_types e) b = Some (Some (Tree TObject ao' kids'))) /\
  (forall k ao kids b, In (k, Tree TObject ao kids) (e_uses e) -> In b ao ->
     exists ao' kids', lookup (e_types e) b = Some (Some (Tree TObject ao' kids'))).
Proof. exact bases_checked_lemma. Qed.
Print Assumptions bases_checked.

Theorem undefined_base_rejected :
  forall e name ao kids b,
  In (name, Some (Tree TObject ao kids)) (e_types e) -> In b ao -> lookup (e_types e) b = None ->
  forall w, run e <> ROk w.
Proof. exact undefined_base_rejected_lemma. Qed.
Print Assumptions undefined_base_rejected.

Theorem non_object_base_rejected :
  forall e name ao kids b tk ao' kids',
  In (name, Some (Tree TObject ao kids)) (e_types e) -> In b ao ->
  lookup (e_types e) b = Some (Some (Tree tk ao' kids')) -> tk <> TObject ->
  forall w, run e <> ROk w.
Proof. exact non_object_base_rejected_lemma. Qed.
Print Assumptions non_object_base_rejected.

(* a base of another notation (regex/any: ContentJSight is nil) is not accepted either — the Go
   code would even dereference nil; the schema library rejects such a document first *)
Theorem non_jsight_base_rejected :
  forall e name ao kids b,
  In (name, Some (Tree TObject ao kids)) (e_types e) -> In b ao -> lookup (e_types e) b = Some None ->
  forall w, run e <> ROk w.
Proof. exact non_jsight_base_rejected_lemma. Qed.
Print Assumptions non_jsight_base_rejected.

(* overriding: the statement of the override check itself (one turn of the copy loop): when the
   property at index i of the base has the key of a property of sc that is NOT inherited, the turn
   returns the error, whatever the rest of the heap looks like.  Whole runs: the Examples below
   (direct, transitive, from a use site); every override of the enumeration: c12.py, unit
   correspondence against the real ProcessAllOf. *)
Theorem override_rejected_step :
  forall u name sc rb st i rbn v vn k scn Cs p,
  get st rb = Some rbn -> nth_error (n_children rbn) i = Some v -> get st v = Some vn -> n_key vn = Some k ->
  get st sc = Some scn -> cnodes st sc = Some Cs -> Forall keyed Cs ->
  first_with_key k Cs = Some p -> n_inh p = [] ->
  inherit_step u name sc rb st i = RErr (EOverride k name).
Proof. exact inherit_step_override. Qed.
Print Assumptions override_rejected_step.

Theorem override_rejected_examples :
  run_observe ex_override_direct = RErr (EOverride (bs "a") (bs "@a")) /\
  run_observe ex_override_transitive = RErr (EOverride (bs "a") (bs "@b")).
Proof. exact override_examples_lemma. Qed.
Print Assumptions override_rejected_examples.

(* ---- array items and JSON-RPC schemas: refuted for the code before a2c8521 / d4084b3
   (allof_in_array_refuted, allof_in_rpc_refuted of the first round), now applied.  JSON-RPC schemas
   are covered by allof_correct_rootlevel; allOf below an array is not in its class: examples here,
   every project of the enumeration in c12.py ---- *)

Theorem array_items_inherit :
  lib_ok ex_array = true /\ env_no_array_allof ex_array = false /\ compare_env ex_array = VAgree /\
  uses_of ex_array =
  ROk [(URespBody, Some (RNode None TArray [] [RNode None TObject [] [leaf "a" "@a"; leaf "z" ""]]));
       (UReqBody, Some (robj [RNode (Some (bs "items")) TArray (bs "@l")
                                    [RNode None TObject [] [leaf "a" "@a"; leaf "m" ""]; RNode None TOther [] []];
                              RNode (Some (bs "w")) TArray []
                                    [RNode None TArray [] [RNode None TObject [] [leaf "a" "@a"]]]]))].
Proof. exact array_items_inherit_lemma. Qed.
Print Assumptions array_items_inherit.

Theorem rpc_schemas_inherit :
  lib_ok ex_rpc = true /\ env_no_rpc_allof ex_rpc = false /\ compare_env ex_rpc = VAgree /\
  uses_of ex_rpc =
  ROk [(URpcParams, Some (robj [leaf "a" "@b"; leaf "b" "@b"; leaf "p" ""]));
       (URpcResult, Some (robj [leaf "a" "@a"]));
       (URespBody, Some (robj [leaf "a" "@a"; leaf "z" ""]));
       (URpcParams, Some (RNode None TArray [] [RNode None TObject [] [leaf "a" "@b"; leaf "b" "@b"]]))].
Proof. exact rpc_schemas_inherit_lemma. Qed.
Print Assumptions rpc_schemas_inherit.

(* a project of the class of allof_correct_skeleton that is not root-level (rules on array items and
   nested objects of use sites and of a type nobody inherits from); ex_array and ex_nested are
   outside the class (a base with a rule below its root; a rule inside an object with a rule) *)
Theorem skeleton_example :
  lib_ok ex_skeleton = true /\ env_skeleton ex_skeleton = true /\ env_root_level ex_skeleton = false /\
  compare_env ex_skeleton = VAgree /\
  env_skeleton ex_array = false /\ env_skeleton ex_nested = false.
Proof. exact skeleton_example_lemma. Qed.
Print Assumptions skeleton_example.

(* ---- readings of the property text, settled by computation on the model (and on the real
   code by c12.py) ---- *)

(* "marked with the base it was taken from" = the base named in the inheriting object's own rule *)
Theorem marking_is_direct_base_thm :
  spec_schema ex_chain3 (obj ["@b"] [prop "c" sc]) = Some (robj [leaf "a" "@b"; leaf "b" "@b"; leaf "c" ""]) /\
  spec_tree_owner (spec_fuel ex_chain3) (e_types ex_chain3) None (obj ["@b"] [prop "c" sc])
  = Some (robj [leaf "a" "@a"; leaf "b" "@b"; leaf "c" ""]).
Proof. exact marking_is_direct_base. Qed.
Print Assumptions marking_is_direct_base_thm.

(* "each exactly once": a diamond over a base with a property is REJECTED (by the library); the
   stage alone would keep the copy of the last-named base *)
Theorem diamond_is_rejected : lib_ok ex_diamond = false /\ compare_env ex_diamond = VRejectedBoth.
Proof. exact diamond_rejected. Qed.
Print Assumptions diamond_is_rejected.

(* examples: chain of 3 (declared derived-first, used from a response), two bases, a base shared
   by two types, a diamond over an empty base, allOf below the root *)
Theorem examples_agree :
  compare_env ex_chain3 = VAgree /\ compare_env ex_two_bases = VAgree /\
  compare_env ex_empty_diamond = VAgree /\ compare_env ex_nested = VAgree.
Proof. exact examples_agree_lemma. Qed.
Print Assumptions examples_agree.

(* NOT part of C12 (it is C10's): usedUserTypes of a type depends on the declaration order *)
Theorem used_types_order_dependent :
  used_of {| e_types := e_types ex_chain3; e_uses := [] |} = ROk [[bs "@b"; bs "@a"]; [bs "@a"]; []] /\
  used_of ex_chain3_rev = ROk [[]; [bs "@a"]; [bs "@b"]].
Proof. exact used_types_order_dependent_lemma. Qed.
Print Assumptions used_types_order_dependent.

(* The full statements, and what is missing for them.

   allof_correct (all accepted projects):
     forall e, lib_ok e = true -> exists w, run e = ROk w /\ renders_as_spec e w.
   The proof of allof_correct_skeleton needs, of the heap, that a node that is ever mutated is
   never the child of a node that is copied or mutated (heap_ok: only the INNER nodes — objects
   and arrays without rule above a rule — have mutated children, and they are only walked
   through).  Two situations are outside:
     (a) a BASE with a rule below its root (e.g. TYPE @t { "p": { // {allOf: "@x"} } } inherited by
         somebody): the mutated node p is copied by value into every inheriting object, the copies
         share p's children and are visited again through each copy;
     (b) a rule inside an object that has a rule itself: the outer object is mutated and has a
         mutated child.
   Both need (1) a separation invariant (the regions below two unvisited schema roots are
   disjoint trees) and (2) "a fully visited node is a fixed point of the stage" as a heap-level
   statement, so that visits through copies change nothing.  No counterexample exists among the
   projects of the enumeration in c12.py (model search of the thorough tier, and 8.9 million
   projects in the one-off search after the fixes: <= 4 types, allOf at depth <= 3, every
   declaration order, every kind of use site): the model agrees with spec_tree on every accepted
   one — no deviating class is left.

   override_rejected (whole runs, any project):
     forall e w name ao kids b ao' kids' k, run e = ROk w ->
       In (name, Some (Tree TObject ao kids)) (e_types e) -> In b ao ->
       lookup (e_types e) b = Some (Some (Tree TObject ao' kids')) ->
       In (Some k) (map fst kids) -> In (Some k) (map fst kids') -> False.
   Needs the run-wide invariant "no object has an unmarked and a marked child with one key" (kept
   by every Unshift because a copy is only added when ObjectProperty found nothing) and the fact
   that the copy loop reaches the base's own property although the base may have grown meanwhile
   (self-inheritance through a cycle).  Under lib_ok the situation cannot arise (the library rejects
   the duplicate key first), which is why it is not needed for allof_correct. *)
