(* C05 - Surface syntax is immaterial.  What is proved here is the scanner's part, on the table REGENERATED from
   /repo/scanner on every run: no state can tell CR from LF or a blank from a tab; in the states between directives and
   before bodies a blank or a line end changes nothing at all; a comment is opened by saving the interrupted state, is
   read without any event or any change but the read position, and ends by handing the line end to the interrupted
   state.  These hold for every configuration, every input and every schema-library oracle.
   Blanks inserted where they are inert only SHIFT the lexemes (proofs/ShiftProofs.v, end of this file): for
   data = a ++ b and data' = a ++ w ++ b, w made of space/tab/CR/LF, if the scan of data stands after a in one of the
   15 [shift_states] with nothing pending and no lexeme open, then scan data' returns the same verdict (an error
   position moved by |w|), the same lexemes before the insertion point and the later ones moved by |w|
   (blanks_only_shift_lexemes; leading_blanks_only_shift for a = [], without any premise about a run).

   PARTIAL.  The full statement "the catalog does not change under the listed rewritings" also needs (i) invariance of
   all later stages under the SHIFT of lexeme positions that an insertion causes, (ii) the block comment "###...###" as
   a multi-step statement (its states are covered by comment_is_quiet, one step at a time), (iii) quoting of parameters
   (the round trip is C17's theorem unescape_quote), (iv) explicit parentheses (C06: the resolved parent depends on
   kinds and on the parentheses only, never on indentation - the context model has no notion of indentation at all).
   (i) is decided by the metamorphic runs of the check (generated documents under random trivia plans; fixtures under
   text-level rewritings), not by proof - EXCEPT for context resolution and macro expansion, for which (i) and (iv)
   are proved in this file (context_ignores_coordinates, expansion_ignores_coordinates): these two stages
   read kinds, parameters, annotations and parentheses, never positions - and EXCEPT for the scan loop itself, now
   closed by blanks_only_shift_lexemes - and EXCEPT for lexemes -> directives (proofs/ShapeScanProofs.v, end of
   this file): the project scan of a single file without INCLUDE reads the KIND and the VALUE of every lexeme and
   nothing else of it, so two inputs whose scans end at the end of the file with lexeme lists that agree in kinds
   and values give forests of equal shape or errors of the same kind (same_values_same_forest_shape); with the
   shift theorems: blank bytes or a comment line inserted at the start of a line do not change the shape of the
   forest (blank_lines_do_not_change_the_forest, comment_lines_do_not_change_the_forest: the premises of
   blanks_at_line_start_only_shift / comment_line_at_line_start_only_shifts plus "the scan reaches the end of the
   file" and "no lexeme is the keyword INCLUDE").  Chain now proved for these insertions: text -> lexemes (shifted)
   -> directives -> context resolution -> macro expansion, all up to coordinates.  Still open for (i): projects with
   INCLUDE, documents the scanner itself rejects (ShiftProofs gives the shifted verdict; the project-level error is
   not compared here), the stages after expansion (catalog building reads bodies through their coordinates), and
   errors are compared by kind only in the scan stage.
   Whole comment lines "# text" + LF inserted in a shift state that admits a comment likewise only shift the later
   lexemes (comment_line_only_shifts_lexemes).  For an insertion point at the START OF A LINE (a empty or ending in
   LF) the run of the longer input up to the insertion point is no longer a premise: it is derived
   (longer_input_runs_alike) under ONE explicit hypothesis about the schema library - every call made before the
   insertion point (prefix_calls: the calls, computed) gave the same answer with the bytes inserted and found a body
   that ends before the insertion point (local_call); isDirective() needs no hypothesis, it reads the current line
   only.  blanks_at_line_start_only_shift, comment_line_at_line_start_only_shifts: premises = the computed run of
   the SHORTER input up to |a|, that hypothesis, "no lexeme open" and the state.  The same equalities read from the
   longer input to the shorter one are the REMOVAL corollaries (*_removed_*).
   What is left open at the scanner level: (a) insertion points inside a line still need the run of the longer
   input as a premise (blanks_only_shift_lexemes, comment_line_only_shifts_lexemes); (b) of the 18 blank-inert
   states, 3 are not covered: stateDescriptionTextBegin, stateDescriptionTextNewline and the multi-line annotation -
   there the claim is FALSE: trailing blanks belong to the text lexeme, and a blank between '*' and '/' keeps the
   annotation open (the four body states stateBodyBody/RequestBody/ResponseBody/TypeBody ARE covered: the look-back
   typing knows that the state they pop from the state stack needs no look-back); (c) in the
   theorems that take the two runs as premises, "the remembered parameters of the last directive end before the
   insertion point" is a premise (it is derived in the line-start theorems); (d) the comment text must be non-empty
   and free of '#', NUL, CR, LF; block comments are not covered; (e) the removal corollaries state their premises
   on the shorter input (the result of the removal). *)
From Coq Require Import List NArith Bool String.
From JV.lib Require Import Bytes.
From JV.gen Require Import ScannerTable.
From JV.model Require Import ScannerSem.
From JV.gen Require Import DirectiveTables.
From JV.model Require Import Core.
From JV.spec Require Import ContextSpec.
From JV.proofs Require Import TriviaProofs ShapeProofs.
From JV.proofs Require TM_Events TM_Loop ShiftProofs ShapeScanProofs.
Import ListNotations.
Open Scope string_scope.
Open Scope N_scope.

(* LF, CR (and hence CRLF, read as two line ends) are the same to every state: one call of a step function and all its
   re-dispatches give the same result *)
Theorem cr_lf_indistinguishable : forall jsc enum data size f g,
  dispatch jsc enum data size f 10 g = dispatch jsc enum data size f 13 g.
Proof. exact cr_lf_dispatch_lemma. Qed.
Print Assumptions cr_lf_indistinguishable.

Theorem space_tab_indistinguishable : forall jsc enum data size f g,
  dispatch jsc enum data size f 32 g = dispatch jsc enum data size f 9 g.
Proof. exact space_tab_dispatch_lemma. Qed.
Print Assumptions space_tab_indistinguishable.

(* blank lines, indentation and trailing whitespace between directives and before bodies: in these 18 states a space,
   tab, CR or LF leaves the whole configuration as it was (only the caller moves the read position on) *)
Theorem blank_bytes_inert : forall jsc enum data size f c g g',
  In (reg g) blank_inert_states -> In c blank_bytes ->
  dispatch jsc enum data size (S f) c g = Ok g' -> g' = g.
Proof. exact blank_inert_lemma. Qed.
Print Assumptions blank_bytes_inert.

(* '#' in a state that admits a comment: the interrupted state is pushed, the scanner enters the comment machine,
   no lexeme event is recorded and nothing else changes *)
Theorem comment_opens_quietly : forall jsc enum data size g r,
  In (reg g) comment_entry_states ->
  one_step jsc enum data size 35 g = Ok r ->
  r = (set_reg (set_sstk g (reg g :: sstk g)) StCommentStarted, XNil).
Proof. exact comment_entry_lemma. Qed.
Print Assumptions comment_opens_quietly.

(* inside a comment (line or block), any byte: position, input, recorded events, open lexemes and remembered parameters
   stay as they are; the scanner either stays in the comment machine with the same state stack, or pops exactly the
   saved state *)
Theorem comment_is_quiet : forall jsc enum data size c g g' x,
  In (reg g) comment_states ->
  one_step jsc enum data size c g = Ok (g', x) ->
  same_but_state g g' /\
  ((In (reg g') comment_states /\ sstk g' = sstk g) \/ (exists s r, sstk g = s :: r /\ reg g' = s /\ sstk g' = r)).
Proof. exact comment_step_lemma. Qed.
Print Assumptions comment_is_quiet.

(* a whole line comment "#" text (text without '#', NUL, CR, LF; any length >= 1): after it the scanner has only
   moved its read position over it; it sits in stateSingleComment with the interrupted state on top of the stack *)
Theorem line_comment_skipped : forall jsc enum data size (text : list N) g,
  In (reg g) comment_entry_states -> forallb plain_comment_byte text = true -> text <> [] ->
  forall g1, step_over jsc enum data size 35 g = Ok g1 ->
  feed jsc enum data size text g1 =
  Ok (set_reg (set_sstk (advance_n g (S (List.length text))) (reg g :: sstk g)) StSingleComment).
Proof. exact line_comment_skipped_lemma. Qed.
Print Assumptions line_comment_skipped.

(* ... and the line end (or the end of the file) after it is handed to the interrupted state, restored *)
Theorem line_comment_end_returns : forall jsc enum data size f c g s k,
  (c = 10 \/ c = 13 \/ c = 0) -> reg g = StSingleComment -> sstk g = s :: k ->
  dispatch jsc enum data size (S f) c g = dispatch jsc enum data size f c (set_reg (set_sstk g k) s).
Proof. exact line_comment_end_lemma. Qed.
Print Assumptions line_comment_end_returns.

(* the premises are satisfiable: "# note" at the start of a file *)
Theorem line_comment_premises_met :
  let data := (bs "# note" ++ [10])%list in
  let g := init_cfg data in
  In (reg g) comment_entry_states /\
  exists g1, step_over (fun _ => LenOk 0) (fun _ => LenOk 0) data 7 35 g = Ok g1 /\
             feed (fun _ => LenOk 0) (fun _ => LenOk 0) data 7 (bs " note") g1 =
             Ok (set_reg (set_sstk (advance_n g 6) [StRoot]) StSingleComment).
Proof. exact line_comment_example. Qed.
Print Assumptions line_comment_premises_met.

(* ---- context is resolved by directive kind, not by indentation (proofs/ShapeProofs.v) ----
   Closes, for context resolution and macro expansion, parts (i) and (iv) of the gap above: whatever an
   insertion of blanks, line ends or comments does to the POSITIONS of the lexemes, the two stages after the
   scan that build the tree never look at them.  dshape d = kind, keyword bytes, named and unnamed parameters,
   annotation, body present or not, '(' flag - everything a directive carries except d_kw, the coordinates of
   its body and its include trace.  ishape of an item: the shape of the directive, or ')'.  Parentheses are
   part of the shape ('(' is the flag d_explicit, ')' is an item of its own): they decide; indentation is not
   in the model of these stages at all, and the offsets that are there decide nothing. *)
Theorem context_ignores_coordinates : forall l1 l2, map ishape l1 = map ishape l2 ->
  match resolve_all l1, resolve_all l2 with
  | COk f1, COk f2 => map tshape f1 = map tshape f2
  | CErr e1, CErr e2 => exists i, offence l1 i e1 /\ offence l2 i e2 /\ same_error l1 l2 i e1 e2
  | CPanic w1, CPanic w2 => w1 = w2
  | CFuel, CFuel => True
  | _, _ => False
  end.
Proof. exact ShapeProofs.context_ignores_coordinates. Qed.
Print Assumptions context_ignores_coordinates.

(* MACRO collection, the recursion check and PASTE expansion (with its second context resolution): forests of
   equal shapes expand to forests of equal shapes, or both fail with kw_err of the directives standing at the
   same place of the two forests (same_place: the same path from the top; same_place_is_same_number: the same
   number in reading order), with one and the same error kind k *)
Theorem expansion_ignores_coordinates : forall ts1 ts2, map tshape ts1 = map tshape ts2 ->
  match expand ts1, expand ts2 with
  | COk f1, COk f2 => map tshape f1 = map tshape f2
  | CErr e1, CErr e2 =>
    exists d1 d2 k, same_place ts1 ts2 d1 d2 /\ dshape d1 = dshape d2 /\ e1 = kw_err d1 k /\ e2 = kw_err d2 k
  | CPanic w1, CPanic w2 => w1 = w2
  | CFuel, CFuel => True
  | _, _ => False
  end.
Proof. exact ShapeProofs.expansion_ignores_coordinates. Qed.
Print Assumptions expansion_ignores_coordinates.

Theorem same_place_is_same_number : forall ts1 ts2 a b,
  same_place ts1 ts2 a b -> map tshape ts1 = map tshape ts2 ->
  exists i, nth_error (flatten ts1) i = Some a /\ nth_error (flatten ts2) i = Some b.
Proof. exact ShapeProofs.same_place_preorder. Qed.
Print Assumptions same_place_is_same_number.

(* both stages in a row *)
Theorem resolve_expand_ignores_coordinates : forall l1 l2, map ishape l1 = map ishape l2 ->
  match resolve_all l1 >>=c expand, resolve_all l2 >>=c expand with
  | COk f1, COk f2 => map tshape f1 = map tshape f2
  | CErr e1, CErr e2 => ce_kind e1 = ce_kind e2
  | CPanic w1, CPanic w2 => w1 = w2
  | CFuel, CFuel => True
  | _, _ => False
  end.
Proof. exact ShapeProofs.resolve_expand_ignores_coordinates. Qed.
Print Assumptions resolve_expand_ignores_coordinates.

(* one document in two layouts (flush left / blank lines, blanks and tabs before the keywords), through the
   scanner model: the forests have the same shape, JSIGHT and URL with GET under it; the keywords stand at
   offsets 0, 11, 18 and 0, 19, 28 *)
Theorem two_layouts_one_shape :
  map tshape (ShapeExamples.forest ShapeExamples.doc_a) = map tshape (ShapeExamples.forest ShapeExamples.doc_b) /\
  flat_map ShapeExamples.kinds_of (map tshape (ShapeExamples.forest ShapeExamples.doc_a)) = [KJsight; KURL; KGet] /\
  List.length (ShapeExamples.forest ShapeExamples.doc_a) = 2%nat /\
  map (fun d => c_beg (d_kw d)) (flatten (ShapeExamples.forest ShapeExamples.doc_a)) = [0; 11; 18] /\
  map (fun d => c_beg (d_kw d)) (flatten (ShapeExamples.forest ShapeExamples.doc_b)) = [0; 19; 28].
Proof. exact ShapeExamples.layouts_same_shape. Qed.
Print Assumptions two_layouts_one_shape.

(* ---- inserted blanks only shift the lexemes (proofs/ShiftProofs.v) ----
   dist s = how many bytes state s may reach back (AFound back, ARewind n, CPrevIs), inferred from the table and checked
   against it by evaluation (with it: a bound of 1 on the look-back of every state ever pushed on the state stack, and
   the "tight" states - the four body states - under which a state without look-back lies);
   shift_states = the blank-inert states with dist 0.  On the table as it is now: stateBodyBody, stateCommentBlock,
   stateDescriptionTextBracketsInnerNewLine, stateEnumBody, stateExpectKeyword, stateHeaderBody, stateParamsBody,
   statePathBody, stateQueryBodyOrKeyword, stateRegexBody, stateRequestBody, stateResponseBody, stateResultBody,
   stateRoot, stateTypeBody. *)
Theorem look_back_typing_fits_the_table : ShiftProofs.dist_ok = true.
Proof. exact ShiftProofs.dist_table_ok. Qed.
Print Assumptions look_back_typing_fits_the_table.

Theorem shift_states_are_blank_inert : forall s, In s ShiftProofs.shift_states -> In s blank_inert_states /\ ShiftProofs.dist s = 0.
Proof. intros s H. split; [apply filter_In in H; apply H | apply ShiftProofs.shift_state_dist; exact H]. Qed.
Print Assumptions shift_states_are_blank_inert.

(* the translation lemma, one call of Next(): LRel size n k pa pa' g g' = g' is g moved by k bytes (same state and
   state stack, same text ahead, read position + k; pending events, open lexemes and remembered parameters after n
   moved by k, those before n unchanged; the bytes read since n are the same).  If the two inputs agree on the
   lexemes before n and, moved by k, on those after n, then Next() gives related results: the same lexeme moved by k
   and related configurations, or the same failure with its position moved by k. *)
Theorem next_commutes_with_shift : forall jsc enum D D' size n k pa pa',
  (forall l, le l < n -> lex_value D' (size + k) l = lex_value D size l) ->
  (forall l, n <= lb l -> lex_value D' (size + k) (ShiftProofs.shL k l) = lex_value D size l) ->
  forall f g g', ShiftProofs.LRel size n k pa pa' g g' ->
  ShiftProofs.orel k (ShiftProofs.RR size n k pa pa') (next jsc enum D size f g) (next jsc enum D' (size + k) f g').
Proof. exact ShiftProofs.next_shift. Qed.
Print Assumptions next_commutes_with_shift.

(* ... and the scan from a configuration to the end *)
Theorem scan_from_configuration_shifts : forall jsc enum D D' size n k pa pa',
  (forall l, le l < n -> lex_value D' (size + k) l = lex_value D size l) ->
  (forall l, n <= lb l -> lex_value D' (size + k) (ShiftProofs.shL k l) = lex_value D size l) ->
  forall f g g' acc acc', ShiftProofs.LRel size n k pa pa' g g' ->
  exists ls, fst (fst (scan_all jsc enum D size f g acc)) = (rev acc ++ ls)%list /\
             fst (fst (scan_all jsc enum D' (size + k) f g' acc')) = (rev acc' ++ map (ShiftProofs.shL k) ls)%list /\
             snd (fst (scan_all jsc enum D' (size + k) f g' acc')) =
             ShiftProofs.she k (snd (fst (scan_all jsc enum D size f g acc))).
Proof. exact ShiftProofs.scan_all_shift. Qed.
Print Assumptions scan_from_configuration_shifts.

(* whole inputs.  reach jsc enum D size g acc = the scan of D passes through configuration g having returned the
   lexemes acc (last first): whole calls of Next() and single quiet turns of its byte loop.  The premises say: both
   scans arrive after a in the same configuration g (but for the text ahead), g is in a shift state with nothing
   pending and no lexeme open, has read exactly a, and its remembered parameters end before the insertion point.  Then: the lexemes returned before stay, those after are
   moved by |w|, the verdict is the same (an error position moved by |w|). *)
Theorem blanks_only_shift_lexemes : forall jsc enum (a w b : bytes) g acc,
  TM_Events.len_sane jsc -> TM_Events.len_sane enum -> Forall TM_Loop.isb (a ++ b)%list ->
  Forall (fun c => In c blank_bytes) w ->
  ShiftProofs.reach jsc enum (a ++ b)%list (N.of_nat (List.length (a ++ b)%list)) g acc ->
  ShiftProofs.reach jsc enum (a ++ w ++ b)%list (N.of_nat (List.length (a ++ w ++ b)%list))
                    (set_zip g (pos g) (pre g) (w ++ b)%list) acc ->
  pos g = N.of_nat (List.length a) -> pre g = rev a -> rest g = b -> finds g = [] -> estk g = [] ->
  In (reg g) ShiftProofs.shift_states ->
  Forall (fun l => le l < N.of_nat (List.length a)) (lastp g) ->
  exists ls,
    fst (fst (scan jsc enum (a ++ b)%list)) = (rev acc ++ ls)%list /\
    fst (fst (scan jsc enum (a ++ w ++ b)%list)) = (rev acc ++ map (ShiftProofs.shL (N.of_nat (List.length w))) ls)%list /\
    snd (fst (scan jsc enum (a ++ w ++ b)%list)) =
    ShiftProofs.she (N.of_nat (List.length w)) (snd (fst (scan jsc enum (a ++ b)%list))).
Proof. exact ShiftProofs.blank_insertion_shift_final_lemma. Qed.
Print Assumptions blanks_only_shift_lexemes.

(* the same with the two runs up to the insertion point given by computation (prefix_run: the run up to the first turn
   of the byte loop that starts at the given position with nothing pending) *)
Theorem blanks_only_shift_lexemes_run : forall jsc enum (a w b : bytes) g acc,
  TM_Events.len_sane jsc -> TM_Events.len_sane enum -> Forall TM_Loop.isb (a ++ b)%list ->
  Forall (fun c => In c blank_bytes) w ->
  ShiftProofs.prefix_run jsc enum (a ++ b)%list (N.of_nat (List.length a)) = Some (g, acc) ->
  ShiftProofs.prefix_run jsc enum (a ++ w ++ b)%list (N.of_nat (List.length a)) =
    Some (set_zip g (pos g) (pre g) (w ++ b)%list, acc) ->
  pos g = N.of_nat (List.length a) -> pre g = rev a -> rest g = b -> finds g = [] -> estk g = [] ->
  In (reg g) ShiftProofs.shift_states ->
  Forall (fun l => le l < N.of_nat (List.length a)) (lastp g) ->
  exists ls,
    fst (fst (scan jsc enum (a ++ b)%list)) = (rev acc ++ ls)%list /\
    fst (fst (scan jsc enum (a ++ w ++ b)%list)) = (rev acc ++ map (ShiftProofs.shL (N.of_nat (List.length w))) ls)%list /\
    snd (fst (scan jsc enum (a ++ w ++ b)%list)) =
    ShiftProofs.she (N.of_nat (List.length w)) (snd (fst (scan jsc enum (a ++ b)%list))).
Proof. exact ShiftProofs.blank_insertion_shift_run_final_lemma. Qed.
Print Assumptions blanks_only_shift_lexemes_run.

(* blank lines and indentation before the first directive: no premise about any run *)
Theorem leading_blanks_only_shift : forall jsc enum (w b : bytes),
  TM_Events.len_sane jsc -> TM_Events.len_sane enum -> Forall TM_Loop.isb b ->
  Forall (fun c => In c blank_bytes) w ->
  let k := N.of_nat (List.length w) in
  fst (fst (scan jsc enum (w ++ b)%list)) = map (ShiftProofs.shL k) (fst (fst (scan jsc enum b))) /\
  snd (fst (scan jsc enum (w ++ b)%list)) = ShiftProofs.she k (snd (fst (scan jsc enum b))).
Proof. exact ShiftProofs.leading_blanks_shift_lemma. Qed.
Print Assumptions leading_blanks_only_shift.

(* "JSIGHT 0.3 / URL /a / GET" and the same with a line "space tab CR LF" inserted before GET: the premises of
   blanks_only_shift_lexemes_run hold by computation (ShiftExample.premises, theorem_applies); GET moves from 18..20
   to 22..24, the four lexemes before it stay *)
Theorem blank_line_between_directives_shifts :
  ShiftProofs.ShiftExample.spans (scan ShiftProofs.ShiftExample.o0 ShiftProofs.ShiftExample.o0
                                       (ShiftProofs.ShiftExample.a ++ ShiftProofs.ShiftExample.b)%list) =
    [(0, 5); (7, 9); (11, 13); (15, 16); (18, 20)] /\
  ShiftProofs.ShiftExample.spans (scan ShiftProofs.ShiftExample.o0 ShiftProofs.ShiftExample.o0
                                       (ShiftProofs.ShiftExample.a ++ ShiftProofs.ShiftExample.w ++ ShiftProofs.ShiftExample.b)%list) =
    [(0, 5); (7, 9); (11, 13); (15, 16); (22, 24)] /\
  ShiftProofs.verdict (scan ShiftProofs.ShiftExample.o0 ShiftProofs.ShiftExample.o0
                            (ShiftProofs.ShiftExample.a ++ ShiftProofs.ShiftExample.b)%list) = SEof /\
  ShiftProofs.verdict (scan ShiftProofs.ShiftExample.o0 ShiftProofs.ShiftExample.o0
                            (ShiftProofs.ShiftExample.a ++ ShiftProofs.ShiftExample.w ++ ShiftProofs.ShiftExample.b)%list) = SEof.
Proof. exact ShiftProofs.ShiftExample.blank_line_between_directives. Qed.
Print Assumptions blank_line_between_directives_shifts.

(* ---- whole comment lines; insertion at the start of a line; removal (proofs/ShiftProofs.v, sections 7-9) ---- *)

(* a comment line "#" text LF (text non-empty, without '#', NUL, CR, LF) inserted where the scanner is in a shift state
   that admits a comment, with nothing pending and no lexeme open: the comment bytes are read in the comment states
   without any event, the line end is handed to the restored state, where it is inert; the rest is the translation
   lemma.  Same shape as blanks_only_shift_lexemes. *)
Theorem comment_line_only_shifts_lexemes : forall jsc enum (a text b : bytes) g acc,
  TM_Events.len_sane jsc -> TM_Events.len_sane enum -> Forall TM_Loop.isb (a ++ b)%list -> Forall TM_Loop.isb text ->
  forallb plain_comment_byte text = true -> text <> [] ->
  let w := (35 :: text ++ [10])%list in
  ShiftProofs.reach jsc enum (a ++ b)%list (N.of_nat (List.length (a ++ b)%list)) g acc ->
  ShiftProofs.reach jsc enum (a ++ w ++ b)%list (N.of_nat (List.length (a ++ w ++ b)%list))
                    (set_zip g (pos g) (pre g) (w ++ b)%list) acc ->
  pos g = N.of_nat (List.length a) -> pre g = rev a -> rest g = b -> finds g = [] -> estk g = [] ->
  In (reg g) ShiftProofs.shift_states -> In (reg g) comment_entry_states ->
  Forall (fun l => le l < N.of_nat (List.length a)) (lastp g) ->
  exists ls,
    fst (fst (scan jsc enum (a ++ b)%list)) = (rev acc ++ ls)%list /\
    fst (fst (scan jsc enum (a ++ w ++ b)%list)) = (rev acc ++ map (ShiftProofs.shL (N.of_nat (List.length w))) ls)%list /\
    snd (fst (scan jsc enum (a ++ w ++ b)%list)) =
    ShiftProofs.she (N.of_nat (List.length w)) (snd (fst (scan jsc enum (a ++ b)%list))).
Proof. exact ShiftProofs.comment_line_shift_lemma. Qed.
Print Assumptions comment_line_only_shifts_lexemes.

(* premise (a) of blanks_only_shift_lexemes, for an insertion point at the start of a line.  line_start a: a = [] or a
   ends in LF.  prefix_calls = the calls of the schema library made by the run up to |a| (which reader, the text handed
   over), computed.  local_call w b (kind, s): with r = the part of s before the insertion point, the reader answers
   on r ++ w ++ b what it answers on s = r ++ b, and if that is a length m, the body ends before the insertion point
   (m + |b| <= |s|).  ANY inserted bytes w.  Then the longer input is scanned alike up to |a|: the same configuration
   but for the text ahead, the same lexemes; and that configuration has read exactly a, has nothing pending, and its
   remembered parameters end before the insertion point. *)
Theorem longer_input_runs_alike : forall jsc enum (a w b : bytes),
  ShiftProofs.line_start a ->
  forall g acc,
  ShiftProofs.prefix_run jsc enum (a ++ b)%list (N.of_nat (List.length a)) = Some (g, acc) ->
  Forall (ShiftProofs.local_call jsc enum w b) (ShiftProofs.prefix_calls jsc enum (a ++ b)%list (N.of_nat (List.length a))) ->
  ShiftProofs.prefix_run jsc enum (a ++ w ++ b)%list (N.of_nat (List.length a)) =
    Some (set_zip g (pos g) (pre g) (w ++ b)%list, acc) /\
  pos g = N.of_nat (List.length a) /\ pre g = rev a /\ rest g = b /\ finds g = [] /\
  Forall (fun l => le l < N.of_nat (List.length a)) (lastp g).
Proof. exact ShiftProofs.prefix_run_ins_lemma. Qed.
Print Assumptions longer_input_runs_alike.

(* blank lines / indentation inserted at the start of a line: premises on the SHORTER input only *)
Theorem blanks_at_line_start_only_shift : forall jsc enum (a w b : bytes) g acc,
  TM_Events.len_sane jsc -> TM_Events.len_sane enum -> Forall TM_Loop.isb (a ++ b)%list ->
  Forall (fun c => In c blank_bytes) w ->
  ShiftProofs.line_start a ->
  ShiftProofs.prefix_run jsc enum (a ++ b)%list (N.of_nat (List.length a)) = Some (g, acc) ->
  Forall (ShiftProofs.local_call jsc enum w b) (ShiftProofs.prefix_calls jsc enum (a ++ b)%list (N.of_nat (List.length a))) ->
  estk g = [] -> In (reg g) ShiftProofs.shift_states ->
  exists ls,
    fst (fst (scan jsc enum (a ++ b)%list)) = (rev acc ++ ls)%list /\
    fst (fst (scan jsc enum (a ++ w ++ b)%list)) = (rev acc ++ map (ShiftProofs.shL (N.of_nat (List.length w))) ls)%list /\
    snd (fst (scan jsc enum (a ++ w ++ b)%list)) =
    ShiftProofs.she (N.of_nat (List.length w)) (snd (fst (scan jsc enum (a ++ b)%list))).
Proof. exact ShiftProofs.blanks_at_line_start_shift_lemma. Qed.
Print Assumptions blanks_at_line_start_only_shift.

(* a comment line inserted at the start of a line *)
Theorem comment_line_at_line_start_only_shifts : forall jsc enum (a text b : bytes) g acc,
  TM_Events.len_sane jsc -> TM_Events.len_sane enum -> Forall TM_Loop.isb (a ++ b)%list -> Forall TM_Loop.isb text ->
  forallb plain_comment_byte text = true -> text <> [] ->
  ShiftProofs.line_start a ->
  let w := (35 :: text ++ [10])%list in
  ShiftProofs.prefix_run jsc enum (a ++ b)%list (N.of_nat (List.length a)) = Some (g, acc) ->
  Forall (ShiftProofs.local_call jsc enum w b) (ShiftProofs.prefix_calls jsc enum (a ++ b)%list (N.of_nat (List.length a))) ->
  estk g = [] -> In (reg g) ShiftProofs.shift_states -> In (reg g) comment_entry_states ->
  exists ls,
    fst (fst (scan jsc enum (a ++ b)%list)) = (rev acc ++ ls)%list /\
    fst (fst (scan jsc enum (a ++ w ++ b)%list)) = (rev acc ++ map (ShiftProofs.shL (N.of_nat (List.length w))) ls)%list /\
    snd (fst (scan jsc enum (a ++ w ++ b)%list)) =
    ShiftProofs.she (N.of_nat (List.length w)) (snd (fst (scan jsc enum (a ++ b)%list))).
Proof. exact ShiftProofs.comment_line_at_line_start_shift_lemma. Qed.
Print Assumptions comment_line_at_line_start_only_shifts.

(* REMOVAL: the same equalities read from the longer input to the shorter one.  unL k subtracts k from lb and le, une k
   from an error position.  The premises are those of the insertion theorems (stated on the shorter input, the result
   of the removal). *)
Theorem blanks_removed_only_shift_back : forall jsc enum (a w b : bytes) g acc,
  TM_Events.len_sane jsc -> TM_Events.len_sane enum -> Forall TM_Loop.isb (a ++ b)%list ->
  Forall (fun c => In c blank_bytes) w ->
  ShiftProofs.reach jsc enum (a ++ b)%list (N.of_nat (List.length (a ++ b)%list)) g acc ->
  ShiftProofs.reach jsc enum (a ++ w ++ b)%list (N.of_nat (List.length (a ++ w ++ b)%list))
                    (set_zip g (pos g) (pre g) (w ++ b)%list) acc ->
  pos g = N.of_nat (List.length a) -> pre g = rev a -> rest g = b -> finds g = [] -> estk g = [] ->
  In (reg g) ShiftProofs.shift_states ->
  Forall (fun l => le l < N.of_nat (List.length a)) (lastp g) ->
  exists ls',
    fst (fst (scan jsc enum (a ++ w ++ b)%list)) = (rev acc ++ ls')%list /\
    fst (fst (scan jsc enum (a ++ b)%list)) = (rev acc ++ map (ShiftProofs.unL (N.of_nat (List.length w))) ls')%list /\
    snd (fst (scan jsc enum (a ++ b)%list)) =
    ShiftProofs.une (N.of_nat (List.length w)) (snd (fst (scan jsc enum (a ++ w ++ b)%list))).
Proof. exact ShiftProofs.blanks_removal_lemma. Qed.
Print Assumptions blanks_removed_only_shift_back.

Theorem blanks_removed_at_line_start_only_shift_back : forall jsc enum (a w b : bytes) g acc,
  TM_Events.len_sane jsc -> TM_Events.len_sane enum -> Forall TM_Loop.isb (a ++ b)%list ->
  Forall (fun c => In c blank_bytes) w ->
  ShiftProofs.line_start a ->
  ShiftProofs.prefix_run jsc enum (a ++ b)%list (N.of_nat (List.length a)) = Some (g, acc) ->
  Forall (ShiftProofs.local_call jsc enum w b) (ShiftProofs.prefix_calls jsc enum (a ++ b)%list (N.of_nat (List.length a))) ->
  estk g = [] -> In (reg g) ShiftProofs.shift_states ->
  exists ls',
    fst (fst (scan jsc enum (a ++ w ++ b)%list)) = (rev acc ++ ls')%list /\
    fst (fst (scan jsc enum (a ++ b)%list)) = (rev acc ++ map (ShiftProofs.unL (N.of_nat (List.length w))) ls')%list /\
    snd (fst (scan jsc enum (a ++ b)%list)) =
    ShiftProofs.une (N.of_nat (List.length w)) (snd (fst (scan jsc enum (a ++ w ++ b)%list))).
Proof. exact ShiftProofs.blanks_removal_at_line_start_lemma. Qed.
Print Assumptions blanks_removed_at_line_start_only_shift_back.

Theorem comment_line_removed_at_line_start_only_shifts_back : forall jsc enum (a text b : bytes) g acc,
  TM_Events.len_sane jsc -> TM_Events.len_sane enum -> Forall TM_Loop.isb (a ++ b)%list -> Forall TM_Loop.isb text ->
  forallb plain_comment_byte text = true -> text <> [] ->
  ShiftProofs.line_start a ->
  let w := (35 :: text ++ [10])%list in
  ShiftProofs.prefix_run jsc enum (a ++ b)%list (N.of_nat (List.length a)) = Some (g, acc) ->
  Forall (ShiftProofs.local_call jsc enum w b) (ShiftProofs.prefix_calls jsc enum (a ++ b)%list (N.of_nat (List.length a))) ->
  estk g = [] -> In (reg g) ShiftProofs.shift_states -> In (reg g) comment_entry_states ->
  exists ls',
    fst (fst (scan jsc enum (a ++ w ++ b)%list)) = (rev acc ++ ls')%list /\
    fst (fst (scan jsc enum (a ++ b)%list)) = (rev acc ++ map (ShiftProofs.unL (N.of_nat (List.length w))) ls')%list /\
    snd (fst (scan jsc enum (a ++ b)%list)) =
    ShiftProofs.une (N.of_nat (List.length w)) (snd (fst (scan jsc enum (a ++ w ++ b)%list))).
Proof. exact ShiftProofs.comment_line_removal_at_line_start_lemma. Qed.
Print Assumptions comment_line_removed_at_line_start_only_shifts_back.

(* "JSIGHT 0.3 / URL /a / GET" and the same with the line "# note" inserted before GET: the premises of
   comment_line_at_line_start_only_shifts hold by computation (CommentExample.premises: the prefix run makes no call of
   the schema library; theorem_applies); GET moves from 18..20 to 25..27 *)
Theorem comment_line_between_directives_shifts :
  ShiftProofs.ShiftExample.spans (scan ShiftProofs.ShiftExample.o0 ShiftProofs.ShiftExample.o0
                                       (ShiftProofs.ShiftExample.a ++ ShiftProofs.ShiftExample.b)%list) =
    [(0, 5); (7, 9); (11, 13); (15, 16); (18, 20)] /\
  ShiftProofs.ShiftExample.spans (scan ShiftProofs.ShiftExample.o0 ShiftProofs.ShiftExample.o0
                                       (ShiftProofs.ShiftExample.a ++ ShiftProofs.CommentExample.cw ++ ShiftProofs.ShiftExample.b)%list) =
    [(0, 5); (7, 9); (11, 13); (15, 16); (25, 27)] /\
  ShiftProofs.verdict (scan ShiftProofs.ShiftExample.o0 ShiftProofs.ShiftExample.o0
                            (ShiftProofs.ShiftExample.a ++ ShiftProofs.CommentExample.cw ++ ShiftProofs.ShiftExample.b)%list) = SEof.
Proof. exact ShiftProofs.CommentExample.comment_line_between_directives. Qed.
Print Assumptions comment_line_between_directives_shifts.

(* ---- from lexemes to directives (proofs/ShapeScanProofs.v) ----
   Core.scan_project hands every lexeme of the scanner to process_lexeme, which reads its kind (lk) and its bytes
   (lex_value) to decide; lb and le go into the coordinates of the directive and into error positions only. *)

(* "the same up to positions": same length, same kinds, same bytes pairwise *)
Theorem lexeme_values_agree_means : forall D D' ls ls',
  ShapeScanProofs.lexeme_values_agree D D' ls ls' <->
  Forall2 (fun l l' => lk l = lk l' /\
                       lex_value D (N.of_nat (List.length D)) l = lex_value D' (N.of_nat (List.length D')) l') ls ls'.
Proof. exact (fun _ _ _ _ => conj (fun H => H) (fun H => H)). Qed.
Print Assumptions lexeme_values_agree_means.

Theorem no_include_means : forall D ls,
  ShapeScanProofs.no_include D ls <->
  Forall (fun l => lexkind_eqb (lk l) LKeyword = true ->
                   lex_value D (N.of_nat (List.length D)) l <> Ok (kind_keyword KInclude)) ls.
Proof. exact (fun _ _ => conj (fun H => H) (fun H => H)). Qed.
Print Assumptions no_include_means.

Theorem same_forest_shape_means : forall r r',
  ShapeScanProofs.same_forest_shape r r' =
  match r, r' with
  | COk f, COk f' => map tshape f = map tshape f'
  | CErr e, CErr e' => ce_kind e = ce_kind e'
  | CPanic x, CPanic x' => x = x'
  | CFuel, CFuel => True
  | _, _ => False
  end.
Proof. exact (fun _ _ => eq_refl). Qed.
Print Assumptions same_forest_shape_means.

(* two single-file projects whose scans reach the end of the file with lexemes that agree, no INCLUDE among them *)
Theorem same_values_same_forest_shape : forall jsc enum banned root root' D D' fuel fuel',
  snd (fst (scan jsc enum D)) = SEof -> snd (fst (scan jsc enum D')) = SEof ->
  ShapeScanProofs.lexeme_values_agree D D' (fst (fst (scan jsc enum D))) (fst (fst (scan jsc enum D'))) ->
  ShapeScanProofs.no_include D (fst (fst (scan jsc enum D))) ->
  (List.length (fst (fst (scan jsc enum D))) < fuel)%nat -> (List.length (fst (fst (scan jsc enum D'))) < fuel')%nat ->
  ShapeScanProofs.same_forest_shape (scan_forest_with fuel jsc enum [(root, FFile D)] banned root)
                                    (scan_forest_with fuel' jsc enum [(root', FFile D')] banned root').
Proof. exact ShapeScanProofs.same_values_same_forest_shape. Qed.
Print Assumptions same_values_same_forest_shape.

(* the loop of scan_project is the loop over the lexemes of the scan: process_lexeme for each, then processEOF
   (ShapeScanProofs.scan_lexemes_loop); stated up to coordinates, which is all the scanner registers can change *)
Theorem scan_project_is_lexeme_loop : forall jsc enum files banned root D fuel,
  snd (fst (scan jsc enum D)) = SEof ->
  ShapeScanProofs.no_include D (fst (fst (scan jsc enum D))) ->
  (List.length (fst (fst (scan jsc enum D))) < fuel)%nat ->
  ShapeScanProofs.same_forest_shape
    (scan_project jsc enum files banned fuel (init_state root D) >>=c fun s => COk (forest_of s))
    (ShapeScanProofs.scan_lexemes_loop jsc enum files banned (fst (fst (scan jsc enum D))) (init_state root D)
       >>=c fun s => COk (forest_of s)).
Proof. exact ShapeScanProofs.scan_project_is_lexeme_loop. Qed.
Print Assumptions scan_project_is_lexeme_loop.

(* where the lexemes lie: those returned before the insertion point end before it, those after it begin after it -
   so the bytes of each are the same in a ++ b and (shifted) in a ++ w ++ b *)
Theorem shifted_lexemes_have_the_same_values : forall (a w b : bytes) acc ls,
  Forall (fun l => le l < N.of_nat (List.length a)) acc ->
  Forall (fun l => N.of_nat (List.length a) <= lb l) ls ->
  ShapeScanProofs.lexeme_values_agree (a ++ b)%list (a ++ w ++ b)%list
    (rev acc ++ ls)%list (rev acc ++ map (ShiftProofs.shL (N.of_nat (List.length w))) ls)%list.
Proof. exact ShapeScanProofs.shifted_lists_agree. Qed.
Print Assumptions shifted_lexemes_have_the_same_values.

(* blank lines / indentation inserted at the start of a line: the forest keeps its shape *)
Theorem blank_lines_do_not_change_the_forest : forall jsc enum banned root root' (a w b : bytes) g acc fuel fuel',
  TM_Events.len_sane jsc -> TM_Events.len_sane enum -> Forall TM_Loop.isb (a ++ b)%list ->
  Forall (fun c => In c blank_bytes) w ->
  ShiftProofs.line_start a ->
  ShiftProofs.prefix_run jsc enum (a ++ b)%list (N.of_nat (List.length a)) = Some (g, acc) ->
  Forall (ShiftProofs.local_call jsc enum w b) (ShiftProofs.prefix_calls jsc enum (a ++ b)%list (N.of_nat (List.length a))) ->
  estk g = [] -> In (reg g) ShiftProofs.shift_states ->
  snd (fst (scan jsc enum (a ++ b)%list)) = SEof ->
  ShapeScanProofs.no_include (a ++ b)%list (fst (fst (scan jsc enum (a ++ b)%list))) ->
  (List.length (fst (fst (scan jsc enum (a ++ b)%list))) < fuel)%nat ->
  (List.length (fst (fst (scan jsc enum (a ++ b)%list))) < fuel')%nat ->
  ShapeScanProofs.same_forest_shape
    (scan_forest_with fuel jsc enum [(root, FFile (a ++ b)%list)] banned root)
    (scan_forest_with fuel' jsc enum [(root', FFile (a ++ w ++ b)%list)] banned root').
Proof. exact ShapeScanProofs.blank_lines_do_not_change_the_forest. Qed.
Print Assumptions blank_lines_do_not_change_the_forest.

(* a comment line "# text" + LF inserted at the start of a line: the forest keeps its shape *)
Theorem comment_lines_do_not_change_the_forest : forall jsc enum banned root root' (a text b : bytes) g acc fuel fuel',
  TM_Events.len_sane jsc -> TM_Events.len_sane enum -> Forall TM_Loop.isb (a ++ b)%list -> Forall TM_Loop.isb text ->
  forallb plain_comment_byte text = true -> text <> [] ->
  ShiftProofs.line_start a ->
  let w := (35 :: text ++ [10])%list in
  ShiftProofs.prefix_run jsc enum (a ++ b)%list (N.of_nat (List.length a)) = Some (g, acc) ->
  Forall (ShiftProofs.local_call jsc enum w b) (ShiftProofs.prefix_calls jsc enum (a ++ b)%list (N.of_nat (List.length a))) ->
  estk g = [] -> In (reg g) ShiftProofs.shift_states -> In (reg g) comment_entry_states ->
  snd (fst (scan jsc enum (a ++ b)%list)) = SEof ->
  ShapeScanProofs.no_include (a ++ b)%list (fst (fst (scan jsc enum (a ++ b)%list))) ->
  (List.length (fst (fst (scan jsc enum (a ++ b)%list))) < fuel)%nat ->
  (List.length (fst (fst (scan jsc enum (a ++ b)%list))) < fuel')%nat ->
  ShapeScanProofs.same_forest_shape
    (scan_forest_with fuel jsc enum [(root, FFile (a ++ b)%list)] banned root)
    (scan_forest_with fuel' jsc enum [(root', FFile (a ++ w ++ b)%list)] banned root').
Proof. exact ShapeScanProofs.comment_lines_do_not_change_the_forest. Qed.
Print Assumptions comment_lines_do_not_change_the_forest.

(* non-vacuity: "JSIGHT 0.3 / URL /a / GET", with a line of blanks (space, tab, CR, LF) and with the line "# note"
   before GET; both theorems apply (ForestExample.blank_line_theorem_applies, comment_line_theorem_applies: every
   premise by computation) and, computed: one shape, two top-level trees, GET at offsets 18, 22 and 25 *)
Theorem three_layouts_one_forest_shape :
  ShapeScanProofs.same_forest_shape
    (ShapeScanProofs.ForestExample.project (ShiftProofs.ShiftExample.a ++ ShiftProofs.ShiftExample.b)%list)
    (ShapeScanProofs.ForestExample.project (ShiftProofs.ShiftExample.a ++ ShiftProofs.ShiftExample.w ++ ShiftProofs.ShiftExample.b)%list) /\
  ShapeScanProofs.same_forest_shape
    (ShapeScanProofs.ForestExample.project (ShiftProofs.ShiftExample.a ++ ShiftProofs.ShiftExample.b)%list)
    (ShapeScanProofs.ForestExample.project (ShiftProofs.ShiftExample.a ++ ShiftProofs.CommentExample.cw ++ ShiftProofs.ShiftExample.b)%list) /\
  ShapeScanProofs.ForestExample.kw_offsets
    (ShapeScanProofs.ForestExample.project (ShiftProofs.ShiftExample.a ++ ShiftProofs.ShiftExample.b)%list) = [0; 11; 18] /\
  ShapeScanProofs.ForestExample.kw_offsets
    (ShapeScanProofs.ForestExample.project (ShiftProofs.ShiftExample.a ++ ShiftProofs.ShiftExample.w ++ ShiftProofs.ShiftExample.b)%list) = [0; 11; 22] /\
  ShapeScanProofs.ForestExample.kw_offsets
    (ShapeScanProofs.ForestExample.project (ShiftProofs.ShiftExample.a ++ ShiftProofs.CommentExample.cw ++ ShiftProofs.ShiftExample.b)%list) = [0; 11; 25].
Proof. exact ShapeScanProofs.ForestExample.three_layouts. Qed.
Print Assumptions three_layouts_one_forest_shape.
