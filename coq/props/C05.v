(* C05 - Surface syntax is immaterial.  What is proved here is the scanner's part, on the table REGENERATED from
   /repo/scanner on every run: no state can tell CR from LF or a blank from a tab; in the states between directives and
   before bodies a blank or a line end changes nothing at all; a comment is opened by saving the interrupted state, is
   read without any event or any change but the read position, and ends by handing the line end to the interrupted
   state.  These hold for every configuration, every input and every schema-library oracle.

   PARTIAL.  The full statement "the catalog does not change under the listed rewritings" also needs (i) invariance of
   all later stages under the SHIFT of lexeme positions that an insertion causes, (ii) the block comment "###...###" as
   a multi-step statement (its states are covered by comment_is_quiet, one step at a time), (iii) quoting of parameters
   (the round trip is C17's theorem unescape_quote), (iv) explicit parentheses (C06: the resolved parent depends on
   kinds and on the parentheses only, never on indentation - the context model has no notion of indentation at all).
   (i) is decided by the metamorphic runs of the check (generated documents under random trivia plans; fixtures under
   text-level rewritings), not by proof - EXCEPT for context resolution and macro expansion, for which (i) and (iv)
   are proved at the end of this file (context_ignores_coordinates, expansion_ignores_coordinates): these two stages
   read kinds, parameters, annotations and parentheses, never positions.  Still open for (i): the stages after
   expansion (catalog building reads bodies through their coordinates) and the scan loop itself (lexemes ->
   directives). *)
From Coq Require Import List NArith Bool String.
From JV.lib Require Import Bytes.
From JV.gen Require Import ScannerTable.
From JV.model Require Import ScannerSem.
From JV.gen Require Import DirectiveTables.
From JV.model Require Import Core.
From JV.spec Require Import ContextSpec.
From JV.proofs Require Import TriviaProofs ShapeProofs.
Import ListNotations.
Open Scope string_scope.
Open Scope N_scope.

(* LF, CR (and hence CRLF, read as two line ends) are the same to every state: one call of a step function and all its
   re-dispatches give the same result *)
Theorem cr_lf_indistinguishable : forall jsc enum data size f g,
  dispatch jsc enum data size f 10 g = dispatch jsc enum data size f 13 g.
Proof. exact cr_lf_dispatch_lemma. Qed.
Print Assumptions cr_lf_indistinguishable.

Theorem space_tab_indistinguishable : forall jsc enum data size f g,
  dispatch jsc enum data size f 32 g = dispatch jsc enum data size f 9 g.
Proof. exact space_tab_dispatch_lemma. Qed.
Print Assumptions space_tab_indistinguishable.

(* blank lines, indentation and trailing whitespace between directives and before bodies: in these 18 states a space,
   tab, CR or LF leaves the whole configuration as it was (only the caller moves the read position on) *)
Theorem blank_bytes_inert : forall jsc enum data size f c g g',
  In (reg g) blank_inert_states -> In c blank_bytes ->
  dispatch jsc enum data size (S f) c g = Ok g' -> g' = g.
Proof. exact blank_inert_lemma. Qed.
Print Assumptions blank_bytes_inert.

(* '#' in a state that admits a comment: the interrupted state is pushed, the scanner enters the comment machine,
   no lexeme event is recorded and nothing else changes *)
Theorem comment_opens_quietly : forall jsc enum data size g r,
  In (reg g) comment_entry_states ->
  one_step jsc enum data size 35 g = Ok r ->
  r = (set_reg (set_sstk g (reg g :: sstk g)) StCommentStarted, XNil).
Proof. exact comment_entry_lemma. Qed.
Print Assumptions comment_opens_quietly.

(* inside a comment (line or block), any byte: position, input, recorded events, open lexemes and remembered parameters
   stay as they are; the scanner either stays in the comment machine with the same state stack, or pops exactly the
   saved state *)
Theorem comment_is_quiet : forall jsc enum data size c g g' x,
  In (reg g) comment_states ->
  one_step jsc enum data size c g = Ok (g', x) ->
  same_but_state g g' /\
  ((In (reg g') comment_states /\ sstk g' = sstk g) \/ (exists s r, sstk g = s :: r /\ reg g' = s /\ sstk g' = r)).
Proof. exact comment_step_lemma. Qed.
Print Assumptions comment_is_quiet.

(* a whole line comment "#" text (text without '#', NUL, CR, LF; any length >= 1): after it the scanner has only
   moved its read position over it; it sits in stateSingleComment with the interrupted state on top of the stack *)
Theorem line_comment_skipped : forall jsc enum data size (text : list N) g,
  In (reg g) comment_entry_states -> forallb plain_comment_byte text = true -> text <> [] ->
  forall g1, step_over jsc enum data size 35 g = Ok g1 ->
  feed jsc enum data size text g1 =
  Ok (set_reg (set_sstk (advance_n g (S (List.length text))) (reg g :: sstk g)) StSingleComment).
Proof. exact line_comment_skipped_lemma. Qed.
Print Assumptions line_comment_skipped.

(* ... and the line end (or the end of the file) after it is handed to the interrupted state, restored *)
Theorem line_comment_end_returns : forall jsc enum data size f c g s k,
  (c = 10 \/ c = 13 \/ c = 0) -> reg g = StSingleComment -> sstk g = s :: k ->
  dispatch jsc enum data size (S f) c g = dispatch jsc enum data size f c (set_reg (set_sstk g k) s).
Proof. exact line_comment_end_lemma. Qed.
Print Assumptions line_comment_end_returns.

(* the premises are satisfiable: "# note" at the start of a file *)
Theorem line_comment_premises_met :
  let data := (bs "# note" ++ [10])%list in
  let g := init_cfg data in
  In (reg g) comment_entry_states /\
  exists g1, step_over (fun _ => LenOk 0) (fun _ => LenOk 0) data 7 35 g = Ok g1 /\
             feed (fun _ => LenOk 0) (fun _ => LenOk 0) data 7 (bs " note") g1 =
             Ok (set_reg (set_sstk (advance_n g 6) [StRoot]) StSingleComment).
Proof. exact line_comment_example. Qed.
Print Assumptions line_comment_premises_met.

(* ---- context is resolved by directive kind, not by indentation (proofs/ShapeProofs.v) ----
   Closes, for context resolution and macro expansion, parts (i) and (iv) of the gap above: whatever an
   insertion of blanks, line ends or comments does to the POSITIONS of the lexemes, the two stages after the
   scan that build the tree never look at them.  dshape d = kind, keyword bytes, named and unnamed parameters,
   annotation, body present or not, '(' flag - everything a directive carries except d_kw, the coordinates of
   its body and its include trace.  ishape of an item: the shape of the directive, or ')'.  Parentheses are
   part of the shape ('(' is the flag d_explicit, ')' is an item of its own): they decide; indentation is not
   in the model of these stages at all, and the offsets that are there decide nothing. *)
Theorem context_ignores_coordinates : forall l1 l2, map ishape l1 = map ishape l2 ->
  match resolve_all l1, resolve_all l2 with
  | COk f1, COk f2 => map tshape f1 = map tshape f2
  | CErr e1, CErr e2 => exists i, offence l1 i e1 /\ offence l2 i e2 /\ same_error l1 l2 i e1 e2
  | CPanic w1, CPanic w2 => w1 = w2
  | CFuel, CFuel => True
  | _, _ => False
  end.
Proof. exact ShapeProofs.context_ignores_coordinates. Qed.
Print Assumptions context_ignores_coordinates.

(* MACRO collection, the recursion check and PASTE expansion (with its second context resolution): forests of
   equal shapes expand to forests of equal shapes, or both fail with kw_err of the directives standing at the
   same place of the two forests (same_place: the same path from the top; same_place_is_same_number: the same
   number in reading order), with one and the same error kind k *)
Theorem expansion_ignores_coordinates : forall ts1 ts2, map tshape ts1 = map tshape ts2 ->
  match expand ts1, expand ts2 with
  | COk f1, COk f2 => map tshape f1 = map tshape f2
  | CErr e1, CErr e2 =>
    exists d1 d2 k, same_place ts1 ts2 d1 d2 /\ dshape d1 = dshape d2 /\ e1 = kw_err d1 k /\ e2 = kw_err d2 k
  | CPanic w1, CPanic w2 => w1 = w2
  | CFuel, CFuel => True
  | _, _ => False
  end.
Proof. exact ShapeProofs.expansion_ignores_coordinates. Qed.
Print Assumptions expansion_ignores_coordinates.

Theorem same_place_is_same_number : forall ts1 ts2 a b,
  same_place ts1 ts2 a b -> map tshape ts1 = map tshape ts2 ->
  exists i, nth_error (flatten ts1) i = Some a /\ nth_error (flatten ts2) i = Some b.
Proof. exact ShapeProofs.same_place_preorder. Qed.
Print Assumptions same_place_is_same_number.

(* both stages in a row *)
Theorem resolve_expand_ignores_coordinates : forall l1 l2, map ishape l1 = map ishape l2 ->
  match resolve_all l1 >>=c expand, resolve_all l2 >>=c expand with
  | COk f1, COk f2 => map tshape f1 = map tshape f2
  | CErr e1, CErr e2 => ce_kind e1 = ce_kind e2
  | CPanic w1, CPanic w2 => w1 = w2
  | CFuel, CFuel => True
  | _, _ => False
  end.
Proof. exact ShapeProofs.resolve_expand_ignores_coordinates. Qed.
Print Assumptions resolve_expand_ignores_coordinates.

(* one document in two layouts (flush left / blank lines, blanks and tabs before the keywords), through the
   scanner model: the forests have the same shape, JSIGHT and URL with GET under it; the keywords stand at
   offsets 0, 11, 18 and 0, 19, 28 *)
Theorem two_layouts_one_shape :
  map tshape (ShapeExamples.forest ShapeExamples.doc_a) = map tshape (ShapeExamples.forest ShapeExamples.doc_b) /\
  flat_map ShapeExamples.kinds_of (map tshape (ShapeExamples.forest ShapeExamples.doc_a)) = [KJsight; KURL; KGet] /\
  List.length (ShapeExamples.forest ShapeExamples.doc_a) = 2%nat /\
  map (fun d => c_beg (d_kw d)) (flatten (ShapeExamples.forest ShapeExamples.doc_a)) = [0; 11; 18] /\
  map (fun d => c_beg (d_kw d)) (flatten (ShapeExamples.forest ShapeExamples.doc_b)) = [0; 19; 28].
Proof. exact ShapeExamples.layouts_same_shape. Qed.
Print Assumptions two_layouts_one_shape.
