(* Hand model of the location arithmetic of /repo/jerr (utils.go, location.go).
   DEFINITIONS ONLY.  Every Go operation that can panic at run time is explicit:
     content[i]      ->  gidxN    (index out of range)
     content[a:b]    ->  gslice   (slice bounds out of range)
     a - b on uint   ->  usub     (wrap-around modulo 2^64)
   bytes.Index is Go `uint`; positions are N.  The `for { ... }` loops carry fuel
   (length of content + 1); running out of fuel is the distinct result
   GPanic "out of fuel" which the theorems in proofs/JerrProofs.v exclude.
   Additions (i++, n++, lineBeginning + maxLength) are plain: every value is bounded by
   len(content)+200 and a Go slice has fewer than 2^63 elements. *)
From Coq Require Import List NArith Bool String.
From JV.lib Require Import Bytes.
Import ListNotations.
Open Scope N_scope.

Definition w64 : N := 18446744073709551616.      (* 2^64 *)

(* unsigned subtraction of two uint values (a, b < 2^64): wraps around.  For a, b < 2^64
   this is (a + 2^64 - b) mod 2^64 (JerrProofs.usub_mod). *)
Definition usub (a b : N) : N := if b <=? a then a - b else a + w64 - b.

Definition glen (s : bytes) : N := N.of_nat (List.length s).

Definition oob : string := "index out of range".
Definition sob : string := "slice bounds out of range".
Definition oof : string := "out of fuel".

(* s[i] for an unsigned index, with Go's bounds check *)
Definition gidxN (s : bytes) (i : N) : gres N :=
  if i <? glen s then
    match nth_error s (N.to_nat i) with
    | Some b => GOk b
    | None => GPanic oob            (* unreachable *)
    end
  else GPanic oob.

(* the bytes s[a:b) without any check *)
Definition slice (s : bytes) (a b : N) : bytes := firstn (N.to_nat (b - a)) (skipn (N.to_nat a) s).

(* s[a:b] with Go's bounds check: panics unless a <= b <= len(s) (cap = len for file content) *)
Definition gslice (s : bytes) (a b : N) : gres bytes :=
  if (a <=? b) && (b <=? glen s) then GOk (slice s a b) else GPanic sob.

(* schema library bytes/byte.go: IsSpace, IsNewLine, IsBlank *)
Definition is_space (c : N) : bool := (c =? 32) || (c =? 9).       (* c == ' ' || c == '\t' *)
Definition is_new_line (c : N) : bool := (c =? 10) || (c =? 13).   (* c == '\n' || c == '\r' *)
Definition is_blank (c : N) : bool := is_space c || is_new_line c. (* IsSpace(c) || IsNewLine(c) *)

(* schema library bytes/bytes.go:
     func (b Bytes) TrimSpacesFromLeft() Bytes {
       for i, c := range b { if !IsBlank(c) { return b[i:] } }
       return b }                         <- an all-blank b is returned UNCHANGED, not emptied *)
Fixpoint tsfl_go (b rest : bytes) : bytes :=
  match rest with
  | [] => b                                            (* return b *)
  | c :: r => if is_blank c then tsfl_go b r else rest (* return b[i:] *)
  end.
Definition trim_spaces_from_left (b : bytes) : bytes := tsfl_go b b.

(* ---- utils.go: DetectNewLineSymbol ------------------------------------------------ *)
(*   for i < len(content) { ... i++ }   state: i, newLineByte, found *)
Fixpoint detect_nl_loop (fuel : nat) (content : bytes) (i nl : N) (found : bool) : gres N :=
  match fuel with
  | O => GPanic oof
  | S f =>
    if i <? glen content then                              (* for i < len(content) { *)
      gbind (gidxN content i) (fun c =>                    (*   c := content[i] *)
      if (c =? 10) || (c =? 13)                            (*   if c == '\n' || c == '\r' { *)
      then detect_nl_loop f content (i + 1) c true         (*     newLineByte = c; found = true;  i++ *)
      else if found then GOk nl                            (*   } else if found { break } *)
      else detect_nl_loop f content (i + 1) nl found)      (*   i++ } *)
    else GOk nl                                            (* return newLineByte *)
  end.

Definition detect_nl (content : bytes) : gres N :=
  (* newLineByte := byte('\n'); var found bool; var i = 0 *)
  detect_nl_loop (S (List.length content)) content 0 10 false.

(* ---- utils.go: LineNumber ---------------------------------------------------------- *)
(*   for { c := content[i]; if c == nl { if i != position { n++ } }; if i == 0 { break }; i-- } *)
Fixpoint line_number_loop (fuel : nat) (content : bytes) (position nl i n : N) : gres N :=
  match fuel with
  | O => GPanic oof
  | S f =>
    gbind (gidxN content i) (fun c =>                                  (* c := content[i] *)
    let n' := if (c =? nl) && negb (i =? position) then n + 1 else n   (* if c == nl { if i != position { n++ } } *)
    in
    if i =? 0 then GOk n'                                              (* if i == 0 { break } *)
    else line_number_loop f content position nl (usub i 1) n')         (* i-- *)
  end.

Definition line_number (content : bytes) (position nl : N) : gres N :=
  if glen content =? 0 then GOk 1 else                 (* if len(content) == 0 { return 1 } *)
  let i := position in                                 (* i := position *)
  let max := usub (glen content) 1 in                  (* max := bytes.Index(len(content) - 1) *)
  let i := if max <? i then max else i in              (* if i > max { i = max } *)
  gbind (line_number_loop (S (List.length content)) content position nl i 0)   (* var n uint; for {...} *)
        (fun n => GOk (n + 1)).                        (* return bytes.Index(n + 1) *)

(* ---- utils.go: LineBeginning ------------------------------------------------------- *)
(*   for { c := content[i]; if c == nl { if i != position { i++; break } }; if i == 0 { break }; i-- } *)
Fixpoint line_beginning_loop (fuel : nat) (content : bytes) (position nl i : N) : gres N :=
  match fuel with
  | O => GPanic oof
  | S f =>
    gbind (gidxN content i) (fun c =>                                  (* c := content[i] *)
    if (c =? nl) && negb (i =? position) then GOk (i + 1)              (* if c == nl { if i != position { i++; break } } *)
    else if i =? 0 then GOk i                                          (* if i == 0 { break } *)
    else line_beginning_loop f content position nl (usub i 1))         (* i-- *)
  end.

Definition line_beginning (content : bytes) (position nl : N) : gres N :=
  if glen content =? 0 then GOk 0 else                 (* if len(content) == 0 { return 0 } *)
  let i := position in                                 (* i := position *)
  let max := usub (glen content) 1 in                  (* max := bytes.Index(len(content) - 1) *)
  let i := if max <? i then max else i in              (* if i > max { i = max } *)
  line_beginning_loop (S (List.length content)) content position nl i.  (* for {...}; return i *)

(* ---- utils.go: LineEnd ------------------------------------------------------------- *)
(*   for i < bytes.Index(len(content)) { c := content[i]; if c == nl { break }; i++ } *)
Fixpoint line_end_loop (fuel : nat) (content : bytes) (nl i : N) : gres N :=
  match fuel with
  | O => GPanic oof
  | S f =>
    if i <? glen content then                              (* for i < bytes.Index(len(content)) { *)
      gbind (gidxN content i) (fun c =>                    (*   c := content[i] *)
      if c =? nl then GOk i                                (*   if c == nl { break } *)
      else line_end_loop f content nl (i + 1))             (*   i++ } *)
    else GOk i
  end.

Definition line_end (content : bytes) (position nl : N) : gres N :=
  gbind (line_end_loop (S (List.length content)) content nl position) (fun i =>  (* i := position; for ... *)
  if 0 <? i then                                                            (* if i > 0 { *)
    gbind (gidxN content (usub i 1)) (fun c =>                              (*   c := content[i-1] *)
    if ((nl =? 10) && (c =? 13)) || ((nl =? 13) && (c =? 10))               (*   if (nl == '\n' && c == '\r') || (nl == '\r' && c == '\n') { *)
    then GOk (usub i 1)                                                     (*     i-- } *)
    else GOk i)
  else GOk i).                                                              (* return i *)

(* ---- utils.go: quote ---------------------------------------------------------------- *)
Definition max_length : N := 200.                          (* const maxLength = 200 *)
Definition dots : bytes := [46; 46; 46].                   (* "..." *)

Definition quote (content : bytes) (position line_beg nl : N) : gres bytes :=
  gbind (line_end content position nl) (fun e =>                       (* end := LineEnd(content, position, nl) *)
  if max_length <? usub e line_beg then                                (* if end-lineBeginning > maxLength { *)
    let e' := usub (line_beg + max_length) 3 in                        (*   end = lineBeginning + maxLength - 3 *)
    gbind (gslice content line_beg e') (fun s =>                       (*   content[lineBeginning:end] *)
    GOk (trim_spaces_from_left s ++ dots))                             (*   return string(....TrimSpacesFromLeft()) + "..." } *)
  else
    gbind (gslice content line_beg e) (fun s =>                        (* content[lineBeginning:end] *)
    GOk (trim_spaces_from_left s))).                                   (* return string(....TrimSpacesFromLeft()) *)

(* utils.go: GetQuote *)
Definition get_quote (content : bytes) (position nl : N) : gres bytes :=
  gbind (line_beginning content position nl) (fun b =>     (* begin := LineBeginning(content, position, nl) *)
  quote content position b nl).                            (* return quote(content, position, begin, nl) *)

(* utils.go: PositionInLine *)
Definition position_in_line (content : bytes) (position nl : N) : gres N :=
  gbind (line_beginning content position nl) (fun lb =>    (* lb := LineBeginning(content, position, nl) *)
  GOk (usub position lb)).                                 (* return position - lb *)

(* ---- location.go: NewLocation ------------------------------------------------------- *)
(* Go evaluates the composite literal's fields in source order: quote(...) before LineNumber(...).
   Result: (index, line, quote). *)
Definition new_location (content : bytes) (i : N) : gres (N * N * bytes) :=
  gbind (detect_nl content) (fun nl =>                     (* nl := DetectNewLineSymbol(f.Content()) *)
  gbind (line_beginning content i nl) (fun lb =>           (* lb := LineBeginning(f.Content(), i, nl) *)
  gbind (quote content i lb nl) (fun q =>                  (* quote: quote(f.Content(), i, lb, nl) *)
  gbind (line_number content i nl) (fun ln =>              (* line:  LineNumber(f.Content(), i, nl) *)
  GOk (i, ln, q))))).                                      (* index: i *)
