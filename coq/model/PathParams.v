(* Hand model of core/path_parameter.go and core/simular_paths.go (property C13, string level).
   DEFINITIONS ONLY.  Every definition names the Go line it mirrors.  Go index and slice
   expressions that can panic are modelled with gres; PathParamsProofs.v proves that they
   never do. *)
From Coq Require Import List NArith Bool String Lia.
From JV.lib Require Import Bytes.
Import ListNotations.
Open Scope N_scope.

Definition pp_slash : N := 47.    (* '/' *)
Definition pp_lbrace : N := 123.  (* '{' *)
Definition pp_rbrace : N := 125.  (* '}' *)

Definition is_slash (c : N) : bool := c =? pp_slash.

(* str != "" *)
Definition nonempty_b (s : bytes) : bool := match s with [] => false | _ :: _ => true end.

(* removeEmptyStrings(s): keeps the strings != "", in order *)
Definition remove_empty_strings (l : list bytes) : list bytes := filter nonempty_b l.

(* splitPath: path = strings.Trim(path, "/"); a := strings.Split(path, "/"); removeEmptyStrings(a) *)
Definition split_path (path : bytes) : list bytes :=
  remove_empty_strings (split_byte pp_slash (trim is_slash path)).

(* s[lo:hi] on a string or a slice, with Go's bounds check (0 <= lo <= hi <= len(s)) *)
Definition gslice {A : Type} (s : list A) (lo hi : nat) : gres (list A) :=
  if (Nat.leb lo hi && Nat.leb hi (List.length s))%bool
  then GOk (firstn (hi - lo) (skipn lo s))
  else GPanic "slice bounds out of range".

(* One iteration of the loop of pathParameters for (i, segment):
     if segment[0] == '{' && segment[len(segment)-1] == '}' {      -- && is short-circuit
        pp = append(pp, PathParameter{
            path:      catalog.Path(strings.Join(s[0:i+1], "/")),
            parameter: segment[1 : len(segment)-1] })
     }
   len(segment)-1 is -1 for an empty segment: the index panics (nat subtraction gives 0, and
   gidx [] 0 panics as well). *)
Definition pp_segment (s : list bytes) (i : nat) (segment : bytes) : gres (option (bytes * bytes)) :=
  gbind (gidx segment 0) (fun c0 =>
    if c0 =? pp_lbrace then
      gbind (gidx segment (List.length segment - 1)) (fun cl =>
        if cl =? pp_rbrace then
          gbind (gslice s 0 (S i)) (fun pre =>
          gbind (gslice segment 1 (List.length segment - 1)) (fun inner =>
            GOk (Some (join_byte pp_slash pre, inner))))
        else GOk None)
    else GOk None).

(* for i, segment := range s { ... }  -- rest is s[i:] *)
Fixpoint pp_loop (s : list bytes) (i : nat) (rest : list bytes) : gres (list (bytes * bytes)) :=
  match rest with
  | [] => GOk []
  | segment :: rest' =>
    gbind (pp_segment s i segment) (fun o =>
    gbind (pp_loop s (S i) rest') (fun r =>
      GOk (match o with Some x => x :: r | None => r end)))
  end.

(* pathParameters(path): list of (PathParameter.path, PathParameter.parameter) *)
Definition path_parameters (path : bytes) : gres (list (bytes * bytes)) :=
  let s := split_path path in pp_loop s 0 s.

(* hasEmptyPathParameters: some pp.parameter == "" *)
Definition has_empty (p : list (bytes * bytes)) : bool :=
  existsb (fun x => negb (nonempty_b (snd x))) p.

Definition mem_bytes (x : bytes) (l : list bytes) : bool := existsb (beq x) l.

(* the loop of duplicatedPathParameters; uniq is the key set of the Go map:
     if _, ok := uniq[pp.parameter]; ok { return pp.parameter }; uniq[pp.parameter] = struct{}{}
   falls through to return "" *)
Fixpoint dup_loop (uniq : list bytes) (p : list (bytes * bytes)) : bytes :=
  match p with
  | [] => []
  | x :: r => if mem_bytes (snd x) uniq then snd x else dup_loop (snd x :: uniq) r
  end.

(* duplicatedPathParameters: if len(p) <= 1 { return "" }; loop.  "" means "none found". *)
Definition duplicated (p : list (bytes * bytes)) : bytes :=
  if Nat.leb (List.length p) 1 then [] else dup_loop [] p.

Inductive pres : Type :=
| POk (l : list (bytes * bytes))   (* return pp, nil *)
| PEmptyParam                      (* incorrect empty PATH parameter in "<path>" *)
| PDup (name : bytes).             (* the "<name>" parameter is duplicated in the path "<path>" *)

(* PathParameters(path) *)
Definition path_parameters_checked (path : bytes) : gres pres :=
  gbind (path_parameters path) (fun pp =>
    if has_empty pp then GOk PEmptyParam
    else match duplicated pp with
         | [] => GOk (POk pp)            (* s == "" *)
         | s => GOk (PDup s)
         end).

(* ------------------------------------------------------------------------------------ *)
(* core/simular_paths.go.  core.similarPaths (map[string]string) is an association list;
   m[k] = v conses a new binding, lookup returns the first (= latest) binding. *)

Definition sp_state := list (bytes * bytes).

Fixpoint sp_lookup (k : bytes) (st : sp_state) : option bytes :=
  match st with
  | [] => None
  | (k', v) :: st' => if beq k k' then Some v else sp_lookup k st'
  end.

(* removeLastSegment: ss := splitPath(p); if len(ss) != 0 { ss = ss[:len(ss)-1] }; strings.Join(ss, "/") *)
Definition remove_last_segment (p : bytes) : bytes :=
  let ss := split_path p in
  let ss' := match ss with [] => ss | _ :: _ => firstn (List.length ss - 1) ss end in
  join_byte pp_slash ss'.

Inductive spres : Type :=
| SPOk (st : sp_state)
  (* error; st is the map at that moment (the bindings of the earlier parameters of the
     same path have already been stored) *)
| SPReject (st : sp_state) (key old ppath : bytes).

(* checkSimilarPaths(pp):
     for _, p := range pp {
        path := removeLastSegment(p.path)
        if v, ok := core.similarPaths[path]; ok { if v != p.parameter { return error } }
        core.similarPaths[path] = p.parameter } *)
Fixpoint check_similar_paths (st : sp_state) (pp : list (bytes * bytes)) : spres :=
  match pp with
  | [] => SPOk st
  | (ppath, param) :: r =>
    let key := remove_last_segment ppath in
    match sp_lookup key st with
    | Some v => if beq v param then check_similar_paths ((key, param) :: st) r
                else SPReject st key v ppath
    | None => check_similar_paths ((key, param) :: st) r
    end
  end.

(* fmt.Errorf("disallow the use of \"similar\" paths: \"/%s/{%s}\", \"/%s\"", path, v, p.path) *)
Definition similar_msg (key old ppath : bytes) : bytes :=
  bs "disallow the use of ""similar"" paths: ""/" ++ key ++ bs "/{" ++ old ++ bs "}"", ""/" ++ ppath ++ bs """".

(* The directives of a project register their paths one after the other (addURL,
   addHTTPMethod): pathParameters then checkSimilarPaths on the shared map.  Result: the
   final map, or the index of the first rejected path with its message. *)
Inductive regres : Type :=
| RegOk (st : sp_state)
| RegReject (idx : nat) (msg : bytes).

Fixpoint register_paths (st : sp_state) (idx : nat) (paths : list bytes) : gres regres :=
  match paths with
  | [] => GOk (RegOk st)
  | p :: ps =>
    gbind (path_parameters p) (fun pp =>
      match check_similar_paths st pp with
      | SPOk st' => register_paths st' (S idx) ps
      | SPReject _ key old ppath => GOk (RegReject idx (similar_msg key old ppath))
      end)
  end.
