(* Model of the generated ordered maps of /repo (catalog/*_gen.go, directive/directives_gen.go;
   templates in internal/cmd/generator/orderedmap.go).  DEFINITIONS ONLY.

   Go state                      model
   m.data  map[K]V               data  : association list, at most one binding per key
                                         (the order of the bindings is immaterial: nothing
                                         observable iterates the Go map)
   m.order []K                   order : list K

   Every method body is one function below; under the mutex (gen/Collections.v records the
   lock each method holds, proofs/OrderedMapProofs.locks_ok checks it fits) a method is one
   atomic transition, so a concurrent history is a sequence of [mop]s: [om_run]. *)
From Coq Require Import List NArith Bool.
From JV.lib Require Import Bytes.
Import ListNotations.

Section OrderedMap.
  Variable K V : Type.
  Variable keq : K -> K -> bool.      (* Go's == on the key type *)
  Variable vzero : V.                 (* the zero value of V: what m.data[k] yields for a missing k *)

  Record omap : Type := { data : list (K * V); order : list K }.

  (* the zero value of the struct: nil map, nil slice *)
  Definition om_empty : omap := {| data := []; order := [] |}.

  (* v, ok := data[k] *)
  Fixpoint lookup (k : K) (d : list (K * V)) : option V :=
    match d with
    | [] => None
    | (k', v) :: r => if keq k' k then Some v else lookup k r
    end.

  (* data[k] = v *)
  Fixpoint assoc_set (k : K) (v : V) (d : list (K * V)) : list (K * V) :=
    match d with
    | [] => [(k, v)]
    | (k', v') :: r => if keq k' k then (k', v) :: r else (k', v') :: assoc_set k v r
    end.

  Fixpoint kmem (k : K) (l : list K) : bool :=
    match l with
    | [] => false
    | x :: r => keq x k || kmem k r
    end.

  (* m.data[k] as an expression *)
  Definition getz (d : list (K * V)) (k : K) : V :=
    match lookup k d with Some v => v | None => vzero end.

  (* func (m *T) has(k) bool { _, ok := m.data[k]; return ok } *)
  Definition om_has (m : omap) (k : K) : bool :=
    match lookup k (data m) with Some _ => true | None => false end.

  (* Get: v, ok := m.data[k]; return v, ok *)
  Definition om_get (m : omap) (k : K) : option V := lookup k (data m).

  (* GetValue: return m.data[k] *)
  Definition om_get_value (m : omap) (k : K) : V := getz (data m) k.

  (* Len: len(m.data) *)
  Definition om_len (m : omap) : nat := List.length (data m).

  (* Set: if !has(k) { order = append(order, k) }; data[k] = v
     (the `if m.data == nil` initialisation has no counterpart: [] is the nil map) *)
  Definition om_set (k : K) (v : V) (m : omap) : omap :=
    {| data := assoc_set k v (data m);
       order := if om_has m k then order m else order m ++ [k] |}.

  (* SetToTop: if !has(k) { order = append([]K{k}, order...) }; data[k] = v *)
  Definition om_set_to_top (k : K) (v : V) (m : omap) : omap :=
    {| data := assoc_set k v (data m);
       order := if om_has m k then order m else k :: order m |}.

  (* Update: if !has(k) { return }; data[k] = fn(data[k]) *)
  Definition om_update (k : K) (f : V -> V) (m : omap) : omap :=
    match lookup k (data m) with
    | None => m
    | Some v => {| data := assoc_set k (f v) (data m); order := order m |}
    end.

  (* Map: for _, k := range order { v, err := fn(k, data[k]); if err != nil { return err }; data[k] = v }
     [f k v = None] is the callback returning an error; the updates made before it stay. *)
  Fixpoint map_loop (f : K -> V -> option V) (ks : list K) (d : list (K * V)) : list (K * V) * bool :=
    match ks with
    | [] => (d, true)
    | k :: ks' =>
      match f k (getz d k) with
      | None => (d, false)
      | Some v => map_loop f ks' (assoc_set k v d)
      end
    end.

  Definition om_map (f : K -> V -> option V) (m : omap) : omap * bool :=
    let (d, ok) := map_loop f (order m) (data m) in
    ({| data := d; order := order m |}, ok).

  (* Each / EachSafe / Find visit (k, data[k]) for k in order; EachReverse in reverse *)
  Definition om_each_keys (m : omap) : list K := order m.
  Definition om_each (m : omap) : list (K * V) := map (fun k => (k, getz (data m) k)) (order m).
  Definition om_each_reverse (m : omap) : list (K * V) := rev (om_each m).
  Fixpoint find_loop (p : K -> V -> bool) (kvs : list (K * V)) : option (K * V) :=
    match kvs with
    | [] => None
    | (k, v) :: r => if p k v then Some (k, v) else find_loop p r
    end.
  Definition om_find (p : K -> V -> bool) (m : omap) : option (K * V) := find_loop p (om_each m).

  (* Each / EachReverse with a callback that may return an error:
       for _, k := range order { if err := fn(k, data[k]); err != nil { return err } }; return nil
     [stop k v = true] is the callback returning an error at that entry.  The result is the list of the
     entries the callback was called on (the failing one included) and whether the call returned an error. *)
  Fixpoint until_loop (stop : K -> V -> bool) (kvs : list (K * V)) : list (K * V) * bool :=
    match kvs with
    | [] => ([], false)
    | (k, v) :: r =>
      if stop k v then ([(k, v)], true)
      else let (vis, st) := until_loop stop r in ((k, v) :: vis, st)
    end.
  Definition om_each_until (stop : K -> V -> bool) (m : omap) : list (K * V) * bool :=
    until_loop stop (om_each m).
  Definition om_each_reverse_until (stop : K -> V -> bool) (m : omap) : list (K * V) * bool :=
    until_loop stop (om_each_reverse m).

  (* MarshalJSON: '{' key ':' value (',' key ':' value)* '}' for k in order, value = data[k] *)
  Definition om_marshal (m : omap) : list (K * V) := om_each m.

  (* one atomic method call *)
  Inductive mop : Type :=
  | OSet (k : K) (v : V)
  | OSetToTop (k : K) (v : V)
  | OUpdate (k : K) (f : V -> V)
  | OMap (f : K -> V -> option V)
  | OGet (k : K)
  | OHas (k : K)
  | OLen
  | OEach
  | OMarshal.

  Definition om_step (m : omap) (o : mop) : omap :=
    match o with
    | OSet k v => om_set k v m
    | OSetToTop k v => om_set_to_top k v m
    | OUpdate k f => om_update k f m
    | OMap f => fst (om_map f m)
    | OGet _ | OHas _ | OLen | OEach | OMarshal => m
    end.

  (* a linearised history, from the zero value *)
  Definition om_run_from (m : omap) (ops : list mop) : omap := fold_left om_step ops m.
  Definition om_run (ops : list mop) : omap := om_run_from om_empty ops.

  (* every Map call of the history returned nil *)
  Fixpoint maps_succeed_from (m : omap) (ops : list mop) : bool :=
    match ops with
    | [] => true
    | o :: r =>
      match o with
      | OMap f => snd (om_map f m)
      | _ => true
      end && maps_succeed_from (om_step m o) r
    end.
  Definition maps_succeed (ops : list mop) : bool := maps_succeed_from om_empty ops.

  (* ---- specification side: what one key / the order see of a history ---- *)

  (* the history projected on key k: the writers of k applied in sequence order *)
  Definition key_step (k : K) (cur : option V) (o : mop) : option V :=
    match o with
    | OSet k' v | OSetToTop k' v => if keq k' k then Some v else cur
    | OUpdate k' f => if keq k' k then option_map f cur else cur
    | OMap f =>
      match cur with
      | Some v => match f k v with Some v' => Some v' | None => Some v end
      | None => None
      end
    | OGet _ | OHas _ | OLen | OEach | OMarshal => cur
    end.
  Definition key_history (k : K) (ops : list mop) : option V := fold_left (key_step k) ops None.

  (* the history projected on the order: only the first Set/SetToTop of a key matters *)
  Definition order_step (acc : list K) (o : mop) : list K :=
    match o with
    | OSet k _ => if kmem k acc then acc else acc ++ [k]
    | OSetToTop k _ => if kmem k acc then acc else k :: acc
    | _ => acc
    end.
  Definition order_history (ops : list mop) : list K := fold_left order_step ops [].

  (* keys of l in order of first occurrence, skipping those already seen *)
  Fixpoint first_occ (seen : list K) (l : list K) : list K :=
    match l with
    | [] => []
    | k :: r => if kmem k seen then first_occ seen r else k :: first_occ (seen ++ [k]) r
    end.

  Fixpoint set_keys (ops : list mop) : list K :=
    match ops with
    | [] => []
    | OSet k _ :: r => k :: set_keys r
    | _ :: r => set_keys r
    end.

  Fixpoint no_set_to_top (ops : list mop) : bool :=
    match ops with
    | [] => true
    | OSetToTop _ _ :: _ => false
    | _ :: r => no_set_to_top r
    end.

  (* ---- the Set variant (catalog.StringSet): data map[K]struct{}, order []K ---- *)
  Record oset : Type := { sdata : list K; sorder : list K }.
  Definition os_empty : oset := {| sdata := []; sorder := [] |}.
  Definition os_has (s : oset) (k : K) : bool := kmem k (sdata s).
  (* Add: if !has(v) { order = append(order, v) }; data[v] = struct{}{} *)
  Definition os_add (k : K) (s : oset) : oset :=
    if os_has s k then s else {| sdata := sdata s ++ [k]; sorder := sorder s ++ [k] |}.
  Definition os_len (s : oset) : nat := List.length (sdata s).
  Definition os_data (s : oset) : list K := sorder s.
  (* NewStringSet(vv...): data = the set of vv; order = vv AS GIVEN (duplicates are kept) *)
  Definition os_new (vv : list K) : oset := {| sdata := first_occ [] vv; sorder := vv |}.
  Definition os_run_from (s : oset) (ks : list K) : oset := fold_left (fun s k => os_add k s) ks s.
End OrderedMap.

Arguments data {K V} _.
Arguments order {K V} _.
Arguments om_empty {K V}.
Arguments OGet {K V} k.
Arguments OHas {K V} k.
Arguments OLen {K V}.
Arguments OEach {K V}.
Arguments OMarshal {K V}.
Arguments OSet {K V} k v.
Arguments OSetToTop {K V} k v.
Arguments OUpdate {K V} k f.
Arguments OMap {K V} f.
Arguments sdata {K} _.
Arguments sorder {K} _.
Arguments os_empty {K}.

(* ---- instance used by the correspondence check: keys and values are byte strings ---- *)
Definition bmap := omap bytes bytes.

(* observable result of one call, as the runner prints it *)
Inductive bobs : Type :=
| BNone                                   (* Set, SetToTop, Update return nothing *)
| BGet (r : option bytes)
| BBool (b : bool)
| BLen (n : nat)
| BPairs (kvs : list (bytes * bytes))     (* Marshal, Each *)
| BVisit (kvs : list (bytes * bytes)) (stopped : bool)   (* Each / EachReverse with a failing callback *)
| BFound (r : option (bytes * bytes)).    (* Find *)

(* the script language of the `omap` command; U appends a suffix to the value *)
Inductive bcmd : Type :=
| CSet (k v : bytes)
| CSetToTop (k v : bytes)
| CUpdate (k suffix : bytes)
| CMapAppend (suffix : bytes)             (* Map with fn = append suffix, never failing *)
| CMapFailAt (k suffix : bytes)           (* Map with fn = append suffix, failing at key k *)
| CGet (k : bytes)
| CHas (k : bytes)
| CLen
| CEach
| CEachReverse
| CEachStopAt (k : bytes)                 (* Each, callback returns an error at key k *)
| CEachReverseStopAt (k : bytes)          (* EachReverse, callback returns an error at key k *)
| CEachStopVal (v : bytes)                (* Each, callback returns an error at the first entry whose value is v *)
| CFindKey (k : bytes)                    (* Find, predicate: key = k *)
| CFindVal (v : bytes)                    (* Find, predicate: value = v *)
| CMarshal.

Definition bcmd_step (m : bmap) (c : bcmd) : bmap * bobs :=
  match c with
  | CSet k v => (om_set _ _ beq k v m, BNone)
  | CSetToTop k v => (om_set_to_top _ _ beq k v m, BNone)
  | CUpdate k s => (om_update _ _ beq k (fun v => v ++ s) m, BNone)
  | CMapAppend s => let (m', ok) := om_map _ _ beq [] (fun _ v => Some (v ++ s)) m in (m', BBool ok)
  | CMapFailAt k s => let (m', ok) := om_map _ _ beq [] (fun k' v => if beq k' k then None else Some (v ++ s)) m in (m', BBool ok)
  | CGet k => (m, BGet (om_get _ _ beq m k))
  | CHas k => (m, BBool (om_has _ _ beq m k))
  | CLen => (m, BLen (om_len _ _ m))
  | CEach => (m, BPairs (om_each _ _ beq [] m))
  | CEachReverse => (m, BPairs (om_each_reverse _ _ beq [] m))
  | CEachStopAt k =>
    let (vis, st) := om_each_until _ _ beq [] (fun k' _ => beq k' k) m in (m, BVisit vis st)
  | CEachReverseStopAt k =>
    let (vis, st) := om_each_reverse_until _ _ beq [] (fun k' _ => beq k' k) m in (m, BVisit vis st)
  | CEachStopVal v =>
    let (vis, st) := om_each_until _ _ beq [] (fun _ v' => beq v' v) m in (m, BVisit vis st)
  | CFindKey k => (m, BFound (om_find _ _ beq [] (fun k' _ => beq k' k) m))
  | CFindVal v => (m, BFound (om_find _ _ beq [] (fun _ v' => beq v' v) m))
  | CMarshal => (m, BPairs (om_marshal _ _ beq [] m))
  end.

Fixpoint bcmd_run (m : bmap) (cs : list bcmd) : list bobs :=
  match cs with
  | [] => []
  | c :: r => let (m', o) := bcmd_step m c in o :: bcmd_run m' r
  end.

Definition omap_script (cs : list bcmd) : list bobs := bcmd_run om_empty cs.

(* Set variant script: A:k (Add), H:k, L, D (Data); N:k1/k2/.. starts from NewStringSet *)
Inductive scmd : Type := SAdd (k : bytes) | SHas (k : bytes) | SLen | SData.
Definition scmd_step (s : oset bytes) (c : scmd) : oset bytes * bobs :=
  match c with
  | SAdd k => (os_add _ beq k s, BNone)
  | SHas k => (s, BBool (os_has _ beq s k))
  | SLen => (s, BLen (os_len _ s))
  | SData => (s, BPairs (map (fun k => (k, [])) (os_data _ s)))
  end.
Fixpoint scmd_run (s : oset bytes) (cs : list scmd) : list bobs :=
  match cs with
  | [] => []
  | c :: r => let (s', o) := scmd_step s c in o :: scmd_run s' r
  end.
Definition oset_script (init : list bytes) (cs : list scmd) : list bobs := scmd_run (os_new _ beq init) cs.
