(* C12 — allOf inheritance: executable HEAP model of core/compile_catalog.go
   (ProcessAllOf, processUserTypes, process…AllOf, processSchemaContentJSightAllOf,
   inheritPropertiesFromUserType) and of the parts of catalog/schema_jsight.go they use
   (SchemaContentJSight, ObjectProperty, Unshift).  DEFINITIONS ONLY.

   Why a heap: the Go code mutates *SchemaContentJSight nodes in place, copies a child BY VALUE
   (`vv := *v`: a new node with the same fields, hence the SAME grandchildren pointers) and
   memoises per type name for the whole run (core.processedByAllOf).  Whether the result for one
   schema depends on what was processed before is the question, so aliasing is explicit:

     id    = position in the heap (a node is allocated by appending: ids are never reused, the
             heap is the association list 0 -> n0, 1 -> n1, ...);
     node  = the fields of SchemaContentJSight the stage reads or writes;
     `Unshift` builds a NEW slice (append([]*T{v}, c.Children...)), therefore a copy made earlier
             never sees a later Unshift on the original: children are Coq lists.

   Inputs are ASTs of schemas (`tree`), not schema text: parsing text is the schema library's
   job (github.com/jsightapi/jsight-schema-go-library), and so is a first validation of allOf
   (unknown type, non-object type, recursion, duplicate keys) which happens BEFORE this stage;
   that validation is stated separately (spec/AllOfSpec.v, lib_ok) and is not part of this model:
   the functions below are the Go functions alone, with their own error returns. *)
From Coq Require Import List NArith Bool String.
From JV.lib Require Import Bytes.
Import ListNotations.
Open Scope nat_scope.

(* ------------------------------------------------------------------------------------- *)
(* schema ASTs (the model's input) *)

(* SchemaContentJSight.TokenType: "object", "array", anything else (scalars, "reference") *)
Inductive tok := TObject | TArray | TOther.

Definition tok_eqb (a b : tok) : bool :=
  match a, b with TObject, TObject | TArray, TArray | TOther, TOther => true | _, _ => false end.

(* allof = the type names of the allOf rule in rule order ([] = no allOf rule; a rule written
   as a single reference "@a" is the one-element list: the two forms of the `switch
   rule.TokenType` in processSchemaContentJSightAllOf do the same thing);
   kids = object properties (Some key) or array items (None), in source order. *)
Inductive tree := Tree (tk : tok) (allof : list bytes) (kids : list (option bytes * tree)).

(* where a schema is used *)
Inductive ukind :=
| UPath | UQuery | UReqHeaders | UReqBody | URespHeaders | URespBody   (* HTTP *)
| URpcParams | URpcResult.                                             (* JSON-RPC *)

Definition is_rpc (k : ukind) : bool := match k with URpcParams | URpcResult => true | _ => false end.

Definition ukind_eqb (a b : ukind) : bool :=
  match a, b with
  | UPath, UPath | UQuery, UQuery | UReqHeaders, UReqHeaders | UReqBody, UReqBody
  | URespHeaders, URespHeaders | URespBody, URespBody | URpcParams, URpcParams
  | URpcResult, URpcResult => true
  | _, _ => false
  end.

(* A project, as far as this stage is concerned: the user types in CATALOG ORDER (= order of the
   TYPE directives) — None = a type whose notation is not jsight (regex/any: ContentJSight is a
   nil pointer) — and the use sites in document order. *)
Record env := { e_types : list (bytes * option tree); e_uses : list (ukind * tree) }.

(* ------------------------------------------------------------------------------------- *)
(* heap *)

Definition id := nat.

Record node := {
  n_key : option bytes;      (* Key *string *)
  n_tok : tok;               (* TokenType *)
  n_allof : list bytes;      (* Rules.Get("allOf"), immutable *)
  n_children : list id;      (* Children []*SchemaContentJSight *)
  n_inh : bytes              (* InheritedFrom string; [] = "" *)
}.

Record state := {
  heap : list node;
  memo : list bytes;              (* core.processedByAllOf *)
  ulog : list (nat * bytes)       (* calls uut.Add(name), oldest first: (schema number, name) *)
}.

Definition get (st : state) (i : id) : option node := nth_error (heap st) i.

Definition set_heap (st : state) (h : list node) : state :=
  {| heap := h; memo := memo st; ulog := ulog st |}.

Fixpoint replace_nth {A} (l : list A) (i : nat) (x : A) : list A :=
  match l, i with
  | [], _ => []
  | _ :: r, O => x :: r
  | y :: r, S j => y :: replace_nth r j x
  end.

(* allocation: &vv *)
Definition alloc (st : state) (n : node) : state * id :=
  (set_heap st (heap st ++ [n]), List.length (heap st)).

Definition set_children (n : node) (cs : list id) : node :=
  {| n_key := n_key n; n_tok := n_tok n; n_allof := n_allof n; n_children := cs; n_inh := n_inh n |}.

Definition set_inh (b : bytes) (n : node) : node :=
  {| n_key := n_key n; n_tok := n_tok n; n_allof := n_allof n; n_children := n_children n; n_inh := b |}.

Definition update (st : state) (i : id) (n : node) : state := set_heap st (replace_nth (heap st) i n).

Definition add_memo (name : bytes) (st : state) : state :=
  {| heap := heap st; memo := name :: memo st; ulog := ulog st |}.

Definition add_log (u : nat) (name : bytes) (st : state) : state :=
  {| heap := heap st; memo := memo st; ulog := ulog st ++ [(u, name)] |}.

Fixpoint mem (x : bytes) (l : list bytes) : bool :=
  match l with [] => false | y :: r => beq x y || mem x r end.

Fixpoint lookup {A} (l : list (bytes * A)) (k : bytes) : option A :=
  match l with [] => None | (k', v) :: r => if beq k' k then Some v else lookup r k end.

(* building the initial heap from the ASTs: children first, then the node (ids are post-order) *)
Fixpoint build_tree (h : list node) (key : option bytes) (t : tree) : list node * id :=
  match t with
  | Tree tk ao kids =>
    let fix go (h : list node) (ks : list (option bytes * tree)) : list node * list id :=
      match ks with
      | [] => (h, [])
      | (k, c) :: r =>
        let (h1, i) := build_tree h k c in
        let (h2, is) := go h1 r in
        (h2, i :: is)
      end in
    let (h1, ids) := go h kids in
    (h1 ++ [{| n_key := key; n_tok := tk; n_allof := ao; n_children := ids; n_inh := [] |}], List.length h1)
  end.

Fixpoint build_types (h : list node) (ts : list (bytes * option tree)) : list node * list (bytes * option id) :=
  match ts with
  | [] => (h, [])
  | (name, None) :: r => let (h1, out) := build_types h r in (h1, (name, None) :: out)
  | (name, Some t) :: r =>
    let (h1, i) := build_tree h None t in
    let (h2, out) := build_types h1 r in
    (h2, (name, Some i) :: out)
  end.

Fixpoint build_uses (h : list node) (us : list (ukind * tree)) : list node * list (ukind * id) :=
  match us with
  | [] => (h, [])
  | (k, t) :: r =>
    let (h1, i) := build_tree h None t in
    let (h2, out) := build_uses h1 r in
    (h2, (k, i) :: out)
  end.

(* ------------------------------------------------------------------------------------- *)
(* results *)

Inductive aerr :=
| ENotFound (name : bytes)            (* the user type %q not found *)
| ENotObject (name : bytes)           (* the user type %q is not an object *)
| EOverride (key name : bytes)        (* it is not allowed to override the %q property from the user type %q *)
| EInternal.                          (* v.Key == nil: jerr.InternalServerError *)

Inductive res (A : Type) :=
| ROk (a : A)
| RErr (e : aerr)          (* the Go function returns an error: the document is rejected *)
| RPanic (why : string)    (* the Go code would panic (nil dereference, index out of range) *)
| RFuel.                   (* the model ran out of fuel: says nothing about the Go code *)
Arguments ROk {A} a.
Arguments RErr {A} e.
Arguments RPanic {A} why.
Arguments RFuel {A}.

Definition rbind {A B} (x : res A) (f : A -> res B) : res B :=
  match x with ROk a => f a | RErr e => RErr e | RPanic w => RPanic w | RFuel => RFuel end.

Fixpoint fold_res {A B} (f : A -> B -> res A) (l : list B) (a : A) : res A :=
  match l with
  | [] => ROk a
  | x :: r => rbind (f a x) (fold_res f r)
  end.

(* ------------------------------------------------------------------------------------- *)
(* catalog/schema_jsight.go *)

(* func (c *SchemaContentJSight) ObjectProperty(k string) *SchemaContentJSight
     for _, v := range c.Children { if *(v.Key) == k { return v } }; return nil
   `*(v.Key)` on a child without key is a nil dereference. *)
Fixpoint object_property (st : state) (cs : list id) (k : bytes) : res (option node) :=
  match cs with
  | [] => ROk None
  | c :: r =>
    match get st c with
    | None => RPanic "dangling child pointer"
    | Some cn =>
      match n_key cn with
      | None => RPanic "nil dereference: *(v.Key) in ObjectProperty"
      | Some k' => if beq k' k then ROk (Some cn) else object_property st r k
      end
    end
  end.

(* ------------------------------------------------------------------------------------- *)
(* core/compile_catalog.go *)

Section Process.
  (* core.catalog.UserTypes: name -> root of Schema.ContentJSight (None = nil ContentJSight) *)
  Variable types : list (bytes * option id).
  (* uut: the StringSet of the schema whose processing was started from ProcessAllOf; it is
     passed down unchanged, also into the base types *)
  Variable u : nat.

  (* one turn of
       for i := len(ut.Schema.ContentJSight.Children) - 1; i >= 0; i-- {
         v := ut.Schema.ContentJSight.Children[i]     <- re-read from the heap every turn
         ...
       } *)
  Definition inherit_step (name : bytes) (sc rb : id) (st : state) (i : nat) : res state :=
    match get st rb with
    | None => RPanic "nil dereference: ut.Schema.ContentJSight"
    | Some rbn =>
      match nth_error (n_children rbn) i with
      | None => RPanic "index out of range: ut.Schema.ContentJSight.Children[i]"
      | Some v =>
        match get st v with
        | None => RPanic "dangling child pointer"
        | Some vn =>
          match n_key vn with
          | None => RErr EInternal                                   (* if v.Key == nil *)
          | Some k =>
            match get st sc with
            | None => RPanic "nil dereference: sc"
            | Some scn =>
              rbind (object_property st (n_children scn) k) (fun p =>   (* p := sc.ObjectProperty(key of v) *)
              match p with
              | Some pn =>
                match n_inh pn with
                | [] => RErr (EOverride k name)                      (* p != nil && p.InheritedFrom == "" *)
                | _ :: _ => ROk st                                   (* p != nil && p.InheritedFrom != "": continue *)
                end
              | None =>
                (* vv := *v; if vv.InheritedFrom == "" { uut.Add(userTypeName) };
                   vv.InheritedFrom = userTypeName; sc.Unshift(&vv) *)
                let st1 := match n_inh vn with [] => add_log u name st | _ :: _ => st end in
                let (st2, nid) := alloc st1 (set_inh name vn) in
                ROk (update st2 sc (set_children scn (nid :: n_children scn)))
              end)
            end
          end
        end
      end
    end.

  Fixpoint inherit_loop (name : bytes) (sc rb : id) (cnt : nat) (st : state) : res state :=
    match cnt with
    | O => ROk st
    | S i => rbind (inherit_step name sc rb st i) (inherit_loop name sc rb i)
    end.

  (* func (core *JApiCore) inheritPropertiesFromUserType(sc, uut, userTypeName) error
     proc = processSchemaContentJSightAllOf (one unit of fuel less) *)
  Definition inherit (proc : state -> id -> res state) (sc : id) (st : state) (name : bytes) : res state :=
    match lookup types name with
    | None => RErr (ENotFound name)                                  (* UserTypes.Get: !ok *)
    | Some None => RPanic "nil dereference: ut.Schema.ContentJSight.TokenType"
    | Some (Some rb) =>
      match get st rb with
      | None => RPanic "nil dereference: ut.Schema.ContentJSight.TokenType"
      | Some rbn =>
        if negb (tok_eqb (n_tok rbn) TObject) then RErr (ENotObject name) else
        rbind (if mem name (memo st) then ROk st                     (* processedByAllOf[userTypeName] *)
               else proc (add_memo name st) rb)                      (* marked BEFORE it is processed *)
        (fun st1 =>
          (* if sc.Children == nil { sc.Children = make(...) }: not observable *)
          match get st1 rb with
          | None => RPanic "nil dereference: ut.Schema.ContentJSight"
          | Some rbn1 => inherit_loop name sc rb (List.length (n_children rbn1)) st1
          end)
      end
    end.

  (* func (core *JApiCore) processSchemaContentJSightAllOf(sc, uut) error *)
  Fixpoint process (fuel : nat) (st : state) (sc : id) : res state :=
    match fuel with
    | O => RFuel
    | S f =>
      match get st sc with
      | None => RPanic "nil dereference: sc.TokenType"
      | Some n =>
        (* if sc.TokenType != object && sc.TokenType != array { return nil } *)
        if negb (tok_eqb (n_tok n) TObject) && negb (tok_eqb (n_tok n) TArray) then ROk st else
        (* for _, v := range sc.Children: the slice is read once, before the loop; array items too *)
        rbind (fold_res (fun st1 c => process f st1 c) (n_children n) st) (fun st1 =>
        (* if sc.TokenType != object { return nil }: TokenType is never written *)
        if negb (tok_eqb (n_tok n) TObject) then ROk st1 else
        match n_allof n with
        | [] => ROk st1                                              (* rule, ok := sc.Rules.Get("allOf"); !ok *)
        | names =>
          (* for i := len(rule.Children) - 1; i >= 0; i-- (a single reference is the list of one) *)
          fold_res (inherit (process f) sc) (rev names) st1
        end)
      end
    end.
End Process.

(* func (core *JApiCore) ProcessAllOf(): user types in catalog order (each with ITS OWN uut and
   WITHOUT consulting or setting processedByAllOf), then base-url variables (none can exist: the
   only writer of Server.BaseUrlVariables is commented out in catalog/setters.go), raw path
   variables, then — each a full pass over the interactions in catalog order, HTTP interactions
   only — query, request headers, request body, response headers, response bodies; last
   (processJsonRpcAllOf) one pass over the JSON-RPC interactions: Params, then Result of each. *)
Definition phases : list ukind := [UPath; UQuery; UReqHeaders; UReqBody; URespHeaders; URespBody].

(* the schemas numbered for uut: type i -> i, use site j -> (number of types) + j *)
Fixpoint number_from {A} (n : nat) (l : list A) : list (nat * A) :=
  match l with [] => [] | x :: r => (n, x) :: number_from (S n) r end.

Definition process_types (fuel : nat) (types : list (bytes * option id)) (st : state) : res state :=
  fold_res (fun st1 (e : nat * (bytes * option id)) =>
              match snd (snd e) with
              | None => ROk st1                                      (* Notation != jsight *)
              | Some r => process types (fst e) fuel st1 r
              end) (number_from 0 types) st.

Definition process_phase (fuel : nat) (types : list (bytes * option id)) (uses : list (nat * (ukind * id)))
           (st : state) (k : ukind) : res state :=
  fold_res (fun st1 (e : nat * (ukind * id)) =>
              if ukind_eqb (fst (snd e)) k then process types (fst e) fuel st1 (snd (snd e)) else ROk st1)
           uses st.

(* the use sites are listed in document order: the Params of a method stands before its Result *)
Definition process_rpc (fuel : nat) (types : list (bytes * option id)) (uses : list (nat * (ukind * id)))
           (st : state) : res state :=
  fold_res (fun st1 (e : nat * (ukind * id)) =>
              if is_rpc (fst (snd e)) then process types (fst e) fuel st1 (snd (snd e)) else ROk st1)
           uses st.

Definition process_all (fuel : nat) (types : list (bytes * option id)) (uses : list (ukind * id))
           (st : state) : res state :=
  rbind (process_types fuel types st) (fun st1 =>
  rbind (fold_res (process_phase fuel types (number_from (List.length types) uses)) phases st1) (fun st2 =>
  process_rpc fuel types (number_from (List.length types) uses) st2)).

(* ------------------------------------------------------------------------------------- *)
(* the whole stage on a project *)

Record world := { w_types : list (bytes * option id); w_uses : list (ukind * id); w_state : state }.

Definition init_world (e : env) : world :=
  let (h1, ts) := build_types [] (e_types e) in
  let (h2, us) := build_uses h1 (e_uses e) in
  {| w_types := ts; w_uses := us; w_state := {| heap := h2; memo := []; ulog := [] |} |}.

Definition run_fuel (fuel : nat) (e : env) : res world :=
  let w := init_world e in
  rbind (process_all fuel (w_types w) (w_uses w) (w_state w)) (fun st =>
  ROk {| w_types := w_types w; w_uses := w_uses w; w_state := st |}).

(* Fuel: every recursive call of process either goes to a child (the heap of a run is a finite
   DAG: depth <= number of nodes ever allocated) or to a base type that has just been put into
   the memo set (at most once per type name).  A run allocates at most one node per (schema
   object, inherited property), so this bound is generous for every project the search visits;
   the theorems in proofs/AllOfProofs.v state the fuel they need explicitly. *)
Fixpoint tree_size (t : tree) : nat :=
  match t with
  | Tree _ _ kids => S ((fix go (ks : list (option bytes * tree)) : nat :=
                           match ks with [] => O | (_, c) :: r => tree_size c + go r end) kids)
  end.

Definition env_size (e : env) : nat :=
  fold_right (fun (x : bytes * option tree) a => match snd x with Some t => tree_size t | None => O end + a) O (e_types e)
  + fold_right (fun (x : ukind * tree) a => tree_size (snd x) + a) O (e_uses e).

Definition default_fuel (e : env) : nat := 3 * (env_size e) + 2 * List.length (e_types e) + 8.

Definition run (e : env) : res world := run_fuel (default_fuel e) e.

(* ------------------------------------------------------------------------------------- *)
(* observation: what MarshalJSON shows of a schema (key, tokenType, inheritedFrom, children) *)

Inductive rtree := RNode (key : option bytes) (tk : tok) (inh : bytes) (kids : list rtree).

Fixpoint all_some {A} (l : list (option A)) : option (list A) :=
  match l with
  | [] => Some []
  | None :: _ => None
  | Some x :: r => match all_some r with Some xs => Some (x :: xs) | None => None end
  end.

(* None = dangling pointer or out of fuel (a cyclic heap) *)
Fixpoint render (fuel : nat) (st : state) (i : id) : option rtree :=
  match fuel with
  | O => None
  | S f =>
    match get st i with
    | None => None
    | Some n =>
      match all_some (map (render f st) (n_children n)) with
      | Some ks => Some (RNode (n_key n) (n_tok n) (n_inh n) ks)
      | None => None
      end
    end
  end.

Definition render_st (st : state) (i : id) : option rtree := render (S (List.length (heap st))) st i.

(* usedUserTypes of schema number u: what the parser collected (allOf names in pre-order; the
   generated projects mention types in allOf rules only) followed by the uut.Add calls, each
   name once, first occurrence wins (catalog.StringSet) *)
Fixpoint tree_allof_names (fuel : nat) (t : tree) : list bytes :=
  match fuel with
  | O => []
  | S f => match t with Tree _ ao kids => ao ++ flat_map (fun kc => tree_allof_names f (snd kc)) kids end
  end.

Fixpoint dedup (seen l : list bytes) : list bytes :=
  match l with
  | [] => []
  | x :: r => if mem x seen then dedup seen r else x :: dedup (x :: seen) r
  end.

Definition used_types (t : tree) (u : nat) (st : state) : list bytes :=
  dedup [] (tree_allof_names (S (tree_size t)) t
            ++ map snd (filter (fun e => Nat.eqb (fst e) u) (ulog st))).

Record observation := {
  o_types : list (bytes * option (option rtree));   (* per user type; None = not jsight *)
  o_uses : list (ukind * option rtree);
  o_used_types : list (list bytes);                  (* usedUserTypes of the jsight types, then of the use sites *)
}.

Definition observe (e : env) (w : world) : observation :=
  let st := w_state w in
  {| o_types := map (fun x : bytes * option id =>
                       (fst x, match snd x with Some r => Some (render_st st r) | None => None end)) (w_types w);
     o_uses := map (fun x : ukind * id => (fst x, render_st st (snd x))) (w_uses w);
     o_used_types :=
       map (fun x : nat * (bytes * option tree) =>
              match snd (snd x) with Some t => used_types t (fst x) st | None => [] end)
           (number_from 0 (e_types e))
       ++ map (fun x : nat * (ukind * tree) => used_types (snd (snd x)) (fst x) st)
              (number_from (List.length (e_types e)) (e_uses e)) |}.

Definition run_observe (e : env) : res observation := rbind (run e) (fun w => ROk (observe e w)).
