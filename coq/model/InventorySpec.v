(* C03 / C16 — the AUDIT of the regenerated inventory (gen/Inventory.v).  DEFINITIONS ONLY.

   Go code is a deterministic function of its input except for (a) the iteration order of maps,
   (b) goroutines, select, time, random numbers, the environment, unsafe/runtime/reflect,
   sync.Pool / sync.Map, (c) behaviour that depends on addresses.  go2coq lists every such site of
   the CURRENT source; this file says which sites have been read and argued harmless, and
   [inventory_check] compares the two.  The obligation [inventory_check ... = true] is
   discharged by computation in proofs/InventoryProofs.v; it breaks when a site appears that
   nobody has audited, or when an audited loop changes its shape.

   DIRECTION.  The check is "every regenerated site is audited" (plus: its class/body is the one
   the argument was written for).  An audited site that has DISAPPEARED from the source cannot
   make anything non-deterministic, so it does not fail the check; it is reported by the
   [stale_*] helpers for the evidence file.  Order of discovery is irrelevant: membership only.

   GENERIC classes.  Two syntactic classes carry their own proof, whatever the site:
     RB_appends true  (collect, then sort.Strings/Ints/Float64s/slices.Sort before any other use)
                      -> InventoryProofs.appends_sorted_order_irrelevant
     RB_lookup_only   (no call, no write, identical literal returns)
                      -> InventoryProofs.lookup_only_order_irrelevant
   A site of such a class is accepted without being named (it is still named below when it
   exists today, for the record).  Every other class needs an entry here, with the loop body the
   argument was written for. *)
From Coq Require Import List String Bool.
From JV.gen Require Import Inventory.
Import ListNotations.
Local Open Scope string_scope.

Fixpoint s_in (s : string) (l : list string) : bool :=
  match l with
  | [] => false
  | x :: r => String.eqb x s || s_in s r
  end.

Definition rb_eqb (a b : range_body) : bool :=
  match a, b with
  | RB_lookup_only, RB_lookup_only => true
  | RB_insert_into_map_or_set, RB_insert_into_map_or_set => true
  | RB_calls_per_element f, RB_calls_per_element g => String.eqb f g
  | RB_appends x, RB_appends y => Bool.eqb x y
  | RB_other, RB_other => true
  | _, _ => false
  end.

Definition generic_class (c : range_body) : bool :=
  match c with
  | RB_appends true => true
  | RB_lookup_only => true
  | _ => false
  end.

(* ---------------------------------------------------------------------------------------- *)
(* packages *)
Definition audited_packages : list string :=
  ["catalog"; "core"; "directive"; "jerr"; "kit"; "notation"; "scanner"].

(* ---------------------------------------------------------------------------------------- *)
(* 1. ranges over maps *)
Record audited_range : Set := {
  ar_pkg : string; ar_func : string; ar_operand : string;
  ar_class : range_body;
  ar_body : string;        (* compared for non-generic classes only *)
  ar_theorem : string;     (* the theorem of props/C03.v that carries the argument *)
  ar_argument : string }.

Definition audited_map_ranges : list audited_range :=
  [ {| ar_pkg := "catalog"; ar_func := "prepareJSightSchema"; ar_operand := "enumRules";
       ar_class := RB_calls_per_element "s.AddRule";
       ar_body := "{ if err := s.AddRule(n, v); err != nil { return nil, err } }";
       ar_theorem := "prepare_schema_order_irrelevant";
       ar_argument := "s is the schema created two lines above (jschema.New), so AddRule's `already compiled` branch is dead; every value of every map[string]jschema.Rule is a non-nil *enum.Enum that was stored by core.buildRule right after r.Check() returned nil (rules_premise_check on the regenerated map writes and flows), and Check() is memoised (compileOnce), so no call fails and the loop only stores distinct keys into s.rules: the stores commute.  Without the premise the loop IS order-dependent (prepare_schema_needs_premise)." |};
    {| ar_pkg := "core"; ar_func := "JApiCore.addRulesToUserTypes"; ar_operand := "core.rules";
       ar_class := RB_appends true;
       ar_body := "{ names = append(names, n) }";
       ar_theorem := "add_rules_to_user_types_order_irrelevant";
       ar_argument := "collects the keys, sort.Strings(names), and only then uses them: the rest of the function sees the sorted list, the same for every iteration order." |};
    {| ar_pkg := "core"; ar_func := "JApiCore.getPropertiesNames"; ar_operand := "pp";
       ar_class := RB_appends true;
       ar_body := "{ names = append(names, k) }";
       ar_theorem := "get_properties_names_order_irrelevant";
       ar_argument := "collects the keys, sort.Strings(names), strings.Join: the message lists the names in sorted order.  Without the sort (before commit a938349) the message followed the iteration order (get_properties_names_unsorted_order_relevant)." |}
  ].

Definition range_matches (r : map_range) (a : audited_range) : bool :=
  String.eqb (mr_pkg r) (ar_pkg a) && String.eqb (mr_func r) (ar_func a) && String.eqb (mr_operand r) (ar_operand a)
  && rb_eqb (mr_class r) (ar_class a)
  && (generic_class (mr_class r) || String.eqb (mr_body r) (ar_body a)).

Definition range_audited (r : map_range) : bool :=
  generic_class (mr_class r) || existsb (range_matches r) audited_map_ranges.

Definition unexpected_ranges (rs : list map_range) : list map_range :=
  filter (fun r => negb (range_audited r)) rs.

(* audited entries whose site is no longer in the source (harmless; reported) *)
Definition stale_ranges (rs : list map_range) : list audited_range :=
  filter (fun a => negb (existsb (fun r => range_matches r a) rs)) audited_map_ranges.

(* ---- the premise of the AddRule site, on regenerated facts ----
   Closed world for the type map[string]jschema.Rule: the only such map is the field
   JApiCore.rules (created empty in NewJApiCore), it only travels as a parameter, it is never
   returned, handed to a function value or to code outside the module, and its only element
   store is the one in core.buildRule, whose previous statement returns when r.Check() fails. *)
Definition T_rule : string := "map[string]jschema.Rule".
Definition F_rules : string := "field:JApiCore.rules".

Definition is_param (k : string) : bool := String.prefix "param:" k.

Definition audited_rule_writes : list (string * string * string * string * string) :=
  [ ("core", "JApiCore.buildRule", "index-assign", "core.rules[name] = r",
     "if err := r.Check(); err != nil { return jschemaToJAPIError(err, d) }");
    ("core", "NewJApiCore", "literal-field", "rules: map[string]jschema.Rule{}", "fresh") ].

Definition rule_write_audited (w : map_write) : bool :=
  existsb (fun a => match a with (p, f, k, s, pv) =>
     String.eqb (mw_pkg w) p && String.eqb (mw_func w) f && String.eqb (mw_kind w) k
     && String.eqb (mw_stmt w) s && String.eqb (mw_prev w) pv end) audited_rule_writes.

Definition unexpected_rule_writes (ws : list map_write) : list map_write :=
  filter (fun w => String.eqb (mw_map_type w) T_rule && negb (rule_write_audited w)) ws.

Definition rule_flow_ok (f : map_flow) : bool :=
  negb (String.prefix "<" (mf_callee f))
  && (String.eqb (mf_arg_kind f) F_rules || is_param (mf_arg_kind f)).

Definition unexpected_rule_flows (fs : list map_flow) : list map_flow :=
  filter (fun f => String.eqb (mf_map_type f) T_rule && negb (rule_flow_ok f)) fs.

Definition unexpected_rule_ranges (rs : list map_range) : list map_range :=
  filter (fun r => String.eqb (mr_map_type r) T_rule
                   && negb (String.eqb (mr_operand_kind r) F_rules || is_param (mr_operand_kind r))) rs.

Definition rules_premise_check : bool :=
  match unexpected_rule_writes map_writes, unexpected_rule_flows map_flows, unexpected_rule_ranges map_ranges with
  | [], [], [] => true
  | _, _, _ => false
  end.

(* ---------------------------------------------------------------------------------------- *)
(* 2. goroutines, select, time, rand, env, unsafe, runtime, reflect, sync.Pool, sync.Map *)
Definition audited_nondeterminism_sources : list (string * string * string) := [].

Definition source_audited (s : nd_source) : bool :=
  existsb (fun a => match a with (p, f, w) =>
     String.eqb (nd_pkg s) p && String.eqb (nd_func s) f && String.eqb (nd_what s) w end)
   audited_nondeterminism_sources.

Definition unexpected_sources (ss : list nd_source) : list nd_source :=
  filter (fun s => negb (source_audited s)) ss.

(* ---------------------------------------------------------------------------------------- *)
(* 3. package-level variables (needed by C16 too) *)
Inductive global_flag : Set :=
| G_read_only        (* initialised by its declaration, never written afterwards *)
| G_once_guarded     (* written only inside a function literal passed to sync.Once.Do *)
| G_once             (* the sync.Once itself *)
| G_mutex_guarded.   (* none today *)

Record audited_global : Set := { ag_pkg : string; ag_name : string; ag_flag : global_flag; ag_why : string }.

Definition audited_globals : list audited_global :=
  [ {| ag_pkg := "catalog"; ag_name := "annotationReplacer"; ag_flag := G_read_only;
       ag_why := "regexp.MustCompile at declaration; *regexp.Regexp is safe for concurrent use and ReplaceAllString does not change it" |};
    {| ag_pkg := "catalog"; ag_name := "mainRegexMarshaller"; ag_flag := G_read_only;
       ag_why := "zero-value struct, value receiver methods only" |};
    {| ag_pkg := "directive"; ag_name := "ss"; ag_flag := G_read_only; ag_why := "table of directive names, only indexed" |};
    {| ag_pkg := "directive"; ag_name := "eeOnce"; ag_flag := G_once; ag_why := "guards the construction of ee" |};
    {| ag_pkg := "directive"; ag_name := "ee"; ag_flag := G_once_guarded;
       ag_why := "name -> directive table built once under eeOnce from the constant table ss, in index order (a plain for loop), only read afterwards" |};
    {| ag_pkg := "directive"; ag_name := "directiveAllowedToDirectiveContext"; ag_flag := G_read_only; ag_why := "literal table, only looked up" |};
    {| ag_pkg := "scanner"; ag_name := "lexemeEventTypeStringMap"; ag_flag := G_read_only; ag_why := "literal table, only looked up" |};
    {| ag_pkg := "scanner"; ag_name := "lexemeTypeStringMap"; ag_flag := G_read_only; ag_why := "literal table, only looked up" |};
    {| ag_pkg := "scanner"; ag_name := "ErrRecursionDetected"; ag_flag := G_read_only; ag_why := "sentinel error" |};
    {| ag_pkg := "scanner"; ag_name := "emptyTracer"; ag_flag := G_read_only; ag_why := "empty struct" |};
    {| ag_pkg := "scanner"; ag_name := "anyType"; ag_flag := G_read_only; ag_why := "constant byte string, only compared" |};
    {| ag_pkg := "scanner"; ag_name := "emptyType"; ag_flag := G_read_only; ag_why := "constant byte string, only compared" |};
    {| ag_pkg := "scanner"; ag_name := "regexType"; ag_flag := G_read_only; ag_why := "constant byte string, only compared" |}
  ].

Fixpoint find_global (p n : string) (l : list audited_global) : option audited_global :=
  match l with
  | [] => None
  | a :: r => if String.eqb (ag_pkg a) p && String.eqb (ag_name a) n then Some a else find_global p n r
  end.

Definition unexpected_globals (gs : list global_var) : list global_var :=
  filter (fun g => match find_global (gv_pkg g) (gv_name g) audited_globals with Some _ => false | None => true end) gs.

Definition stale_globals (gs : list global_var) : list audited_global :=
  filter (fun a => negb (existsb (fun g => String.eqb (gv_pkg g) (ag_pkg a) && String.eqb (gv_name g) (ag_name a)) gs)) audited_globals.

(* writes outside init / Once.Do / declarations that have been read and are harmless:
   (package, function, variable, kind) *)
Definition audited_unguarded_writes : list (string * string * string * string) :=
  [ ("catalog", "Annotation", "annotationReplacer", "pointer-method ReplaceAllString");
      (* a READ: regexp methods have pointer receivers; Regexp is immutable after Compile *)
    ("directive", "NewDirectiveType", "eeOnce", "pointer-method Do")
      (* the Once itself *)
  ].

Definition flag_is (f : global_flag) (p n : string) : bool :=
  match find_global p n audited_globals with
  | Some a => match ag_flag a, f with
              | G_read_only, G_read_only | G_once_guarded, G_once_guarded | G_once, G_once
              | G_mutex_guarded, G_mutex_guarded => true
              | _, _ => false
              end
  | None => false
  end.

Definition write_ok (w : global_write) : bool :=
  if String.eqb (gw_guard w) "decl" then true
  else if String.eqb (gw_guard w) "init" then true
  else if String.eqb (gw_guard w) "once" then flag_is G_once_guarded (gw_pkg w) (gw_var w)
  else existsb (fun a => match a with (p, f, v, k) =>
         String.eqb (gw_pkg w) p && String.eqb (gw_func w) f && String.eqb (gw_var w) v && String.eqb (gw_kind w) k end)
       audited_unguarded_writes.

Definition unexpected_global_writes (ws : list global_write) : list global_write :=
  filter (fun w => negb (write_ok w)) ws.

(* ---------------------------------------------------------------------------------------- *)
(* 4. recover() *)
Definition audited_recovers : list (string * string * string) :=
  [ ("catalog", "UnmarshalJSightSchema", "re-panics anything that is not an error; an error value becomes the returned error: a function of the panic value alone");
    ("catalog", "regexMarshaller.Marshal", "same shape as UnmarshalJSightSchema");
    ("kit", "readPanicFree", "turns the reader's panic (missing file) into an error with the same text") ].

Definition recover_audited (r : recover_site) : bool :=
  existsb (fun a => match a with (p, f, _) => String.eqb (rc_pkg r) p && String.eqb (rc_func r) f end) audited_recovers.

Definition unexpected_recovers (rs : list recover_site) : list recover_site :=
  filter (fun r => negb (recover_audited r)) rs.

Definition unexpected_packages (ps : list string) : list string :=
  filter (fun p => negb (s_in p audited_packages)) ps.

(* ---------------------------------------------------------------------------------------- *)
Definition is_nil {A} (l : list A) : bool := match l with [] => true | _ => false end.

Definition ranges_check : bool := is_nil (unexpected_ranges map_ranges) && rules_premise_check.
Definition sources_check : bool := is_nil (unexpected_sources nondeterminism_sources).
Definition globals_check : bool :=
  is_nil (unexpected_globals globals) && is_nil (unexpected_global_writes global_writes).
Definition recovers_check : bool := is_nil (unexpected_recovers recovers).
Definition packages_check : bool := is_nil (unexpected_packages packages).

Definition inventory_check : bool :=
  packages_check && ranges_check && sources_check && globals_check && recovers_check.

(* one line per problem, for the replay file: (kind, package, function, what, position) *)
Definition diagnosis : list (string * string * string * string * string) :=
  map (fun p => ("package reachable from kit but not audited", p, "", "", "")) (unexpected_packages packages)
  ++ map (fun r => ("range over a map, not audited (or its body/class changed)", mr_pkg r, mr_func r,
                    mr_operand r ++ " :: " ++ mr_body r, mr_pos r)) (unexpected_ranges map_ranges)
  ++ map (fun w => ("store into a map[string]jschema.Rule outside the audited one", mw_pkg w, mw_func w, mw_stmt w, mw_pos w))
         (unexpected_rule_writes map_writes)
  ++ map (fun f => ("map[string]jschema.Rule flows somewhere unaudited", mf_pkg f, mf_func f,
                    mf_callee f ++ " <- " ++ mf_arg f, mf_pos f)) (unexpected_rule_flows map_flows)
  ++ map (fun r => ("range over a map[string]jschema.Rule that is not JApiCore.rules or a parameter", mr_pkg r, mr_func r, mr_operand r, mr_pos r))
         (unexpected_rule_ranges map_ranges)
  ++ map (fun s => ("source of nondeterminism", nd_pkg s, nd_func s, nd_what s, nd_pos s)) (unexpected_sources nondeterminism_sources)
  ++ map (fun g => ("package-level variable, not audited", gv_pkg g, "", gv_name g ++ " : " ++ gv_type g, gv_pos g)) (unexpected_globals globals)
  ++ map (fun w => ("write to a package-level variable outside init/Once", gw_pkg w, gw_func w, gw_var w ++ " (" ++ gw_kind w ++ ")", gw_pos w))
         (unexpected_global_writes global_writes)
  ++ map (fun r => ("recover() site, not audited", rc_pkg r, rc_func r, "", rc_pos r)) (unexpected_recovers recovers).

Definition stale : list (string * string * string) :=
  map (fun a => (ar_pkg a, ar_func a, ar_operand a)) (stale_ranges map_ranges)
  ++ map (fun a => (ag_pkg a, "(global)", ag_name a)) (stale_globals globals).
