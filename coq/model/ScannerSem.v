(* Hand-written semantics of the scanner driver (scanner/scanner.go: Next,
   processLexemeEvent, found/foundAt/shiftFound; scanner/step-helpers.go: the
   context predicates) interpreting the decision trees REGENERATED in
   gen/ScannerTable.v.  Definitions only.

   Every Go operation that can panic is an explicit [Panic]; unsigned
   subtraction below zero is [Panic "underflow"] (in Go it wraps around and a
   later slice/index panics or reads garbage: the theorems show it never
   happens).  The schema library's Len() is an abstract oracle. *)
From Coq Require Import List NArith Bool String.
From JV.lib Require Import Bytes.
From JV.gen Require Import DirectiveTables ScannerTable.
Import ListNotations.
Open Scope N_scope.

Inductive len_result : Set :=
| LenOk (n : N)
| LenErr (pos : N) (msg : bytes).

Inductive errinfo : Set :=
| EStep (e : errkind)           (* a step function returned an error *)
| ELib (msg : bytes)            (* the schema library rejected a body *)
| ENul                          (* "File cannot contain byte zero" *)
| EMismatch                     (* "Ending lexeme event does not match beginning event" *)
| EUnsupportedEvent.

Inductive outcome (A : Type) : Type :=
| Ok (a : A)
| Err (pos : N) (e : errinfo)
| Panic (why : string)
| OutOfFuel.
Arguments Ok {A} a.
Arguments Err {A} pos e.
Arguments Panic {A} why.
Arguments OutOfFuel {A}.

Definition obind {A B} (x : outcome A) (f : A -> outcome B) : outcome B :=
  match x with
  | Ok a => f a
  | Err p e => Err p e
  | Panic w => Panic w
  | OutOfFuel => OutOfFuel
  end.
Notation "x >>= f" := (obind x f) (at level 50, left associativity).

Record lexeme : Set := { lk : lexkind; lb : N; le : N }.

(* The read position is kept as a zipper over the file content: [pre] = the bytes
   before curIndex (nearest first), [rest] = the bytes from curIndex on, [pos] =
   curIndex itself (it may exceed the length of the file by one after the end-of-file
   pseudo byte has been processed). *)
Record cfg : Set := {
  reg : state;                  (* s.step *)
  sstk : list state;            (* s.stepStack, top first *)
  pos : N;                      (* s.curIndex *)
  pre : bytes;                  (* s.data[:curIndex], reversed *)
  rest : bytes;                 (* s.data[curIndex:] *)
  finds : list (evt * N);       (* s.finds, oldest first *)
  estk : list (evt * N);        (* s.stack, top first *)
  lastp : list lexeme           (* s.lastDirectiveParameters *)
}.

Definition set_reg (c : cfg) r := {| reg := r; sstk := sstk c; pos := pos c; pre := pre c; rest := rest c; finds := finds c; estk := estk c; lastp := lastp c |}.
Definition set_sstk (c : cfg) s := {| reg := reg c; sstk := s; pos := pos c; pre := pre c; rest := rest c; finds := finds c; estk := estk c; lastp := lastp c |}.
Definition set_zip (c : cfg) p a b := {| reg := reg c; sstk := sstk c; pos := p; pre := a; rest := b; finds := finds c; estk := estk c; lastp := lastp c |}.
Definition set_finds (c : cfg) f := {| reg := reg c; sstk := sstk c; pos := pos c; pre := pre c; rest := rest c; finds := f; estk := estk c; lastp := lastp c |}.
Definition set_estk (c : cfg) e := {| reg := reg c; sstk := sstk c; pos := pos c; pre := pre c; rest := rest c; finds := finds c; estk := e; lastp := lastp c |}.
Definition set_lastp (c : cfg) l := {| reg := reg c; sstk := sstk c; pos := pos c; pre := pre c; rest := rest c; finds := finds c; estk := estk c; lastp := l |}.

Definition init_cfg (data : bytes) : cfg :=
  {| reg := initial_state; sstk := []; pos := 0; pre := []; rest := data; finds := []; estk := []; lastp := [] |}.

(* move n bytes from rest to pre (curIndex += n) / from pre to rest (curIndex -= n) *)
Fixpoint fwd (n : nat) (a b : bytes) : bytes * bytes :=
  match n, b with
  | S k, c :: b' => fwd k (c :: a) b'
  | _, _ => (a, b)
  end.
Definition advance (g : cfg) (n : N) : cfg :=
  let ab := fwd (N.to_nat n) (pre g) (rest g) in set_zip g (pos g + n) (fst ab) (snd ab).
Definition retreat (g : cfg) (n : N) : cfg :=
  let ba := fwd (N.to_nat n) (rest g) (pre g) in set_zip g (pos g - n) (snd ba) (fst ba).

Definition evt_eqb (a b : evt) : bool := evt_idx a =? evt_idx b.
Definition evt_in (e : evt) (l : list evt) : bool := existsb (evt_eqb e) l.
Definition pair_ok (b e : evt) : bool :=
  existsb (fun p => evt_eqb (fst p) b && evt_eqb (snd p) e) evt_pairs.

(* ---- bytes helpers of the schema library used by the context predicates ---- *)

Definition in_quotes (v : bytes) : bool :=
  match v with
  | q :: r => (q =? 34) && match rev r with q2 :: _ => q2 =? 34 | [] => false end
  | [] => false
  end.

(* the escapes the quoted-parameter states let through: backslash-backslash and backslash-quote *)
Fixpoint unescape_go (s : bytes) (esc : bool) : bytes :=
  match s with
  | [] => if esc then [92] else []
  | c :: r =>
    if esc then
      (if (c =? 92) || (c =? 34) then c :: unescape_go r false else 92 :: c :: unescape_go r false)
    else if c =? 92 then unescape_go r true else c :: unescape_go r false
  end.
Definition unescape_simple (s : bytes) : bytes := unescape_go s false.

(* bytes.Unquote restricted to what the scanner can hand it: JSON unquoting fails
   (value returned unchanged) when a control byte occurs inside the quotes *)
Definition lib_unquote (v : bytes) : bytes :=
  if in_quotes v then
    let inner := removelast (tl v) in
    if existsb (fun c => c <? 32) inner then v else unescape_simple inner
  else v.

Definition trim_square_brackets (v : bytes) : bytes :=
  match v with
  | o :: r =>
    if o =? 91 then
      match rev r with
      | c :: m => if c =? 93 then rev m else v
      | [] => v
      end
    else v
  | [] => v
  end.

Definition valid_type_name_byte (c : N) : bool :=
  (c =? 45) || (c =? 95) || ((97 <=? c) && (c <=? 122)) || ((65 <=? c) && (c <=? 90)) || ((48 <=? c) && (c <=? 57)).

Definition is_user_type_name (v : bytes) : bool :=
  match v with
  | a :: (_ :: _) as r => (a =? 64) && forallb valid_type_name_byte r
  | _ => false
  end.

Definition w_any : bytes := bs "any".
Definition w_empty : bytes := bs "empty".
Definition w_regex : bytes := bs "regex".

(* directive.IsStartWithDirective *)
Definition is_digit (c : N) : bool := (48 <=? c) && (c <=? 57).
Definition is_start_with_directive (b : bytes) : bool :=
  match b with
  | b0 :: b1 :: b2 :: _ =>
    ((49 <=? b0) && (b0 <=? 53) && is_digit b1 && is_digit b2 &&
     (let code := (b0 - 48) * 100 + (b1 - 48) * 10 + (b2 - 48) in
      (response_code_lo <=? code) && (code <=? response_code_hi)))
    || existsb (fun k => negb (kind_eqb k KHTTPResponseCode) && has_prefix (kind_keyword k) b) all_kinds
  | _ => false
  end.

Fixpoint take_until_lf (s : bytes) : bytes :=
  match s with
  | [] => []
  | c :: r => if c =? 10 then [] else c :: take_until_lf r
  end.

Section Sem.
  Variable jsc_len : bytes -> len_result.
  Variable enum_len : bytes -> len_result.
  Variable data : bytes.
  Variable size : N.              (* len(s.data), computed once by [scan] *)

  Definition suffix (p : N) : bytes := skipn (N.to_nat p) data.

  (* Lexeme.Value(): content.Slice(begin, end) = content[begin : end+1] *)
  Definition lex_value (l : lexeme) : outcome bytes :=
    if (lb l <=? le l + 1) && (le l + 1 <=? size)
    then Ok (firstn (N.to_nat (le l + 1 - lb l)) (suffix (lb l)))
    else Panic "slice bounds out of range".

  Fixpoint values (ls : list lexeme) : outcome (list bytes) :=
    match ls with
    | [] => Ok []
    | l :: r => lex_value l >>= fun v => values r >>= fun vs => Ok (v :: vs)
    end.

  Definition has_type_or_any_or_empty (vs : list bytes) : bool :=
    existsb (fun v0 => let v := trim_square_brackets (lib_unquote v0) in
                       beq v w_any || beq v w_empty || is_user_type_name v) vs.
  (* isDirectiveParameterHasAnyOrEmpty: true when NO parameter is any/empty *)
  Definition has_any_or_empty (vs : list bytes) : bool :=
    negb (existsb (fun v0 => let v := trim_square_brackets (lib_unquote v0) in
                             beq v w_any || beq v w_empty) vs).
  Definition has_regex (vs : list bytes) : bool :=
    existsb (fun v0 => beq (lib_unquote v0) w_regex) vs.

  (* s.isDirective(): LineFrom(curIndex) fails when curIndex > len *)
  Definition is_directive_at (g : cfg) : bool :=
    if size <? pos g then false else is_start_with_directive (take_until_lf (rest g)).

  Definition eval_cond (k : cond) (c : N) (g : cfg) : outcome bool :=
    match k with
    | CByteIn l => Ok (in_set l c)
    | CIsDirective => Ok (is_directive_at g)
    | CHasTypeOrAnyOrEmpty => values (lastp g) >>= fun vs => Ok (has_type_or_any_or_empty vs)
    | CHasAnyOrEmpty => values (lastp g) >>= fun vs => Ok (has_any_or_empty vs)
    | CHasRegex => values (lastp g) >>= fun vs => Ok (has_regex vs)
    | CPrevIs k =>
      match pre g with
      | b :: _ => if size <? pos g then Panic "index out of range" else Ok (b =? k)
      | [] => Panic "index out of range (curIndex-1 wraps)"
      end
    end.

  Fixpoint eval_tree (t : tree) (c : N) (g : cfg) : outcome (list act * exit) :=
    match t with
    | Leaf acts x => Ok (acts, x)
    | Node k a b => eval_cond k c g >>= fun v => if v then eval_tree a c g else eval_tree b c g
    end.

  Definition read_body (len_of : bytes -> len_result) (g : cfg) : outcome cfg :=
    match len_of (rest g) with
    | LenErr p msg => Err (pos g + p) (ELib msg)
    | LenOk n => Ok (if 0 <? n then advance g (n - 1) else g)
    end.

  Definition exec_act (a : act) (g : cfg) : outcome cfg :=
    match a with
    | AFound back e =>
      if pos g <? back then Panic "underflow"
      else Ok (set_finds g (finds g ++ [(e, pos g - back)]))
    | ASetStep s => Ok (set_reg g s)
    | APush s => Ok (set_sstk g (s :: sstk g))
    | APushCur => Ok (set_sstk g (reg g :: sstk g))
    | APop =>
      match sstk g with
      | s :: r => Ok (set_reg (set_sstk g r) s)
      | [] => Panic "Reading from empty stack"
      end
    | ARewind n => if pos g <? n then Panic "underflow" else Ok (retreat g n)
    | AReadSchema => read_body jsc_len g
    | AReadEnum => read_body enum_len g
    end.

  Fixpoint exec_acts (l : list act) (g : cfg) : outcome cfg :=
    match l with
    | [] => Ok g
    | a :: r => exec_act a g >>= exec_acts r
    end.

  (* one call of s.step(s, c), following `return s.step(s, c)` re-dispatches *)
  Fixpoint dispatch (fuel : nat) (c : N) (g : cfg) : outcome cfg :=
    match fuel with
    | O => OutOfFuel
    | S f =>
      eval_tree (step_tree (reg g)) c g >>= fun ax =>
      exec_acts (fst ax) g >>= fun g' =>
      match snd ax with
      | XNil => Ok g'
      | XRedo => dispatch f c g'
      | XErr e => Err (pos g') (EStep e)
      end
    end.

  (* processLexemeEvent *)
  Definition process_event (ev : evt * N) (g : cfg) : outcome (cfg * option lexeme) :=
    let (e, p) := ev in
    if evt_in e evt_beginning then Ok (set_estk g (ev :: estk g), None)
    else if evt_in e evt_ending then
      match estk g with
      | [] => Panic "Reading from empty stack"
      | (se, sp) :: r =>
        if pair_ok se e then
          match evt_lexkind e with
          | Some k => Ok (set_estk g r, Some {| lk := k; lb := sp; le := p |})
          | None => Panic "Unknown lexeme event type"
          end
        else Err (pos g) EMismatch
      end
    else if evt_in e evt_single then
      match evt_lexkind e with
      | Some k => Ok (g, Some {| lk := k; lb := p; le := p |})
      | None => Panic "Unknown lexeme event type"
      end
    else Err (pos g) EUnsupportedEvent.

  Definition lexkind_eqb (a b : lexkind) : bool := lexkind_idx a =? lexkind_idx b.

  Definition note_lexeme (l : lexeme) (g : cfg) : cfg :=
    if lexkind_eqb (lk l) LParameter then set_lastp g (lastp g ++ [l])
    else if lexkind_eqb (lk l) LKeyword then set_lastp g []
    else g.

  (* `for range s.finds { … shiftFound … }`: n = len(s.finds) when the loop starts *)
  Fixpoint drain (n : nat) (g : cfg) : outcome (cfg * option lexeme) :=
    match n with
    | O => Ok (g, None)
    | S n' =>
      match finds g with
      | [] => Panic "Empty set of found lexemes"
      | ev :: fs =>
        process_event ev (set_finds g fs) >>= fun r =>
        match snd r with
        | Some l => Ok (note_lexeme l (fst r), Some l)
        | None => drain n' (fst r)
        end
      end
    end.

  Definition redo_fuel : nat := 64.

  (* the `for s.curIndex <= s.dataSize` loop of Next() *)
  Fixpoint main_loop (fuel : nat) (g : cfg) : outcome (cfg * option lexeme) :=
    match fuel with
    | O => OutOfFuel
    | S f =>
      if pos g <=? size then
        let c := if pos g =? size then Some 0 else hd_error (rest g) in
        match c with
        | None => Panic "index out of range"
        | Some c =>
          if (c =? 0) && negb (pos g =? size) then Err (pos g) ENul
          else
            dispatch redo_fuel c g >>= fun g1 =>
            let g2 := advance g1 1 in
            drain (List.length (finds g2)) g2 >>= fun r =>
            match snd r with
            | Some l => Ok r
            | None => main_loop f (fst r)
            end
        end
      else Ok (g, None)
    end.

  (* Scanner.Next(): None = end of file *)
  Definition next (fuel : nat) (g : cfg) : outcome (cfg * option lexeme) :=
    match finds g with
    | ev :: fs =>
      process_event ev (set_finds g fs) >>= fun r =>
      match snd r with
      | Some l => Ok r
      | None => main_loop fuel (fst r)
      end
    | [] => main_loop fuel g
    end.

  (* diagnosis only: the state the machine is in when it reads each byte *)
  Fixpoint trace_states (fuel : nat) (g : cfg) (acc : list (N * state)) : list (N * state) :=
    match fuel with
    | O => rev acc
    | S f =>
      if pos g <=? size then
        let c := if pos g =? size then Some 0 else hd_error (rest g) in
        match c with
        | None => rev acc
        | Some c =>
          if (c =? 0) && negb (pos g =? size) then rev acc
          else
            match dispatch redo_fuel c g with
            | Ok g1 =>
              let g2 := advance g1 1 in
              match drain (List.length (finds g2)) g2 with
              | Ok r => trace_states f (fst r) ((pos g, reg g) :: acc)
              | _ => rev ((pos g, reg g) :: acc)
              end
            | _ => rev ((pos g, reg g) :: acc)
            end
        end
      else rev acc
    end.

  Inductive scan_end : Set :=
  | SEof
  | SErr (pos : N) (e : errinfo)
  | SPanic (why : string)
  | SFuel.

  (* draining Next() until it reports the end of the file *)
  Fixpoint scan_all (fuel : nat) (g : cfg) (acc : list lexeme) : list lexeme * scan_end * cfg :=
    match fuel with
    | O => (rev acc, SFuel, g)
    | S f =>
      match next fuel g with
      | Ok (g', Some l) => scan_all f g' (l :: acc)
      | Ok (g', None) => (rev acc, SEof, g')
      | Err p e => (rev acc, SErr p e, g)
      | Panic w => (rev acc, SPanic w, g)
      | OutOfFuel => (rev acc, SFuel, g)
      end
    end.

End Sem.

(* generous: the metatheory needs 7 * (6 * (len + 1) + 60) + 1 *)
Definition scan_fuel (data : bytes) : nat := 42 * List.length data + 512.

Definition scan_trace (jsc_len enum_len : bytes -> len_result) (data : bytes) : list (N * state) :=
  trace_states jsc_len enum_len data (N.of_nat (List.length data)) (scan_fuel data) (init_cfg data) [].

Definition scan (jsc_len enum_len : bytes -> len_result) (data : bytes) : list lexeme * scan_end * cfg :=
  scan_all jsc_len enum_len data (N.of_nat (List.length data)) (scan_fuel data) (init_cfg data) [].
