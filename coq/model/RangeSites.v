(* C03 — Gallina models of the loops of the library that range over a Go map.  The iteration
   order the runtime picks is an EXPLICIT parameter [order : list key] (a duplicate-free
   enumeration of the map's keys); a loop is deterministic iff its result is the same for every
   permutation of [order].  DEFINITIONS ONLY; the theorems are in proofs/InventoryProofs.v.

   Which loops exist is not decided here: gen/Inventory.v (regenerated) lists them and
   model/InventorySpec.v ties every listed loop to one of the models below, by its syntactic
   class. *)
From Coq Require Import List NArith Bool String.
From JV.lib Require Import Bytes.
Import ListNotations.
Open Scope N_scope.

(* ---------------------------------------------------------------------------------------- *)
(* sorting: insertion sort is the specification of sort.Strings / sort.Ints (any correct sort
   of a TOTAL order on values that are equal when they compare equal returns this list) *)
Section Sorting.
  Variable K : Type.
  Variable leb : K -> K -> bool.

  Fixpoint insert (x : K) (l : list K) : list K :=
    match l with
    | [] => [x]
    | y :: r => if leb x y then x :: y :: r else y :: insert x r
    end.

  Definition isort (l : list K) : list K := fold_right insert [] l.
End Sorting.
Arguments insert {K}.
Arguments isort {K}.

(* Go's < on strings: bytewise lexicographic *)
Fixpoint bytes_leb (a b : bytes) : bool :=
  match a, b with
  | [], _ => true
  | _ :: _, [] => false
  | x :: a', y :: b' => if x <? y then true else if x =? y then bytes_leb a' b' else false
  end.

(* ---------------------------------------------------------------------------------------- *)
(* CLASS RB_appends: `for k := range m { s = append(s, e k ...) }`, then the rest of the function
   [cont] reads s.  [per_key k] is what one iteration appends (call-free, so a function of the
   loop variables alone).
     sorted_after = true : `sort.Strings(s)` (Ints, Float64s, slices.Sort) runs before s is read
     sorted_after = false: s is read as collected *)
Section Appends.
  Variables (K V R : Type).
  Variable leb : V -> V -> bool.
  Variable per_key : K -> list V.
  Variable cont : list V -> R.

  Definition collected (prefix : list V) (order : list K) : list V := prefix ++ flat_map per_key order.

  Definition appends_sorted (prefix : list V) (order : list K) : R := cont (isort leb (collected prefix order)).
  Definition appends_unsorted (prefix : list V) (order : list K) : R := cont (collected prefix order).
End Appends.
Arguments appends_sorted {K V R}.
Arguments appends_unsorted {K V R}.

(* ---------------------------------------------------------------------------------------- *)
(* CLASS RB_calls_per_element: `for k, v := range m { if err := f(k, v); err != nil { return err } }`.
   [step s k] is one call: a new state or the error that ends the loop. *)
Section CallsPerElement.
  Variables (K S E : Type).
  Variable step : S -> K -> S + E.

  Fixpoint run_until_error (s : S) (order : list K) : S + E :=
    match order with
    | [] => inl s
    | k :: r => match step s k with
                | inl s' => run_until_error s' r
                | inr e => inr e
                end
    end.
End CallsPerElement.
Arguments run_until_error {K S E}.

(* CLASS RB_lookup_only: no call, no write, every `return` returns the same literals [hit]:
   the loop computes "is there a key whose iteration reaches a return". *)
Section LookupOnly.
  Variables (K R : Type).
  Variable reaches_return : K -> bool.
  Variables (hit miss : R).
  Definition lookup_only (order : list K) : R := if existsb reaches_return order then hit else miss.
End LookupOnly.
Arguments lookup_only {K R}.

(* ======================================================================================== *)
(* SITE core.JApiCore.getPropertiesNames (core/compile_catalog.go):
       names := make([]string, 0, len(pp))
       for k := range pp { names = append(names, k) }
       sort.Strings(names)
       return strings.Join(names, ", ")
   feeds the message `Has unused parameters "<names>" in schema`. *)
Fixpoint join_sep (sep : bytes) (l : list bytes) : bytes :=
  match l with
  | [] => []
  | [x] => x
  | x :: r => x ++ sep ++ join_sep sep r
  end.

Definition properties_names (names : list bytes) : bytes := join_sep (bs ", "%string) names.

Definition get_properties_names (order : list bytes) : bytes :=
  appends_sorted bytes_leb (fun k => [k]) properties_names [] order.

(* the same function before /repo commit a938349 (no sort.Strings): kept because its refutation
   is the reason the sort must stay *)
Definition get_properties_names_unsorted (order : list bytes) : bytes :=
  appends_unsorted (fun k => [k]) properties_names [] order.

(* ======================================================================================== *)
(* SITE core.JApiCore.addRulesToUserTypes (core/build_catalog.go):
       for n := range core.rules { names = append(names, n) }
       sort.Strings(names)
       err := core.userTypes.Each(func(typeName, ut) error {
           for _, n := range names {
               if err := ut.AddRule(n, core.rules[n]); err != nil {
                   return jschemaToJAPIError(err, dd.GetValue(typeName)) } } return nil })
   userTypes is an ORDERED map (its Each follows insertion order, C16), so [types] is a list.
   [add_rule_error t n]: the error AddRule(n, rules[n]) on type t returns, if any (it depends on
   t's loaded flag and on the rule, never on what was added before).  The diagnostic is located
   by the type AND carries the library's message: both are in the result. *)
Section AddRulesToUserTypes.
  Variable E : Type.
  Variable add_rule_error : bytes -> bytes -> option E.

  Fixpoint first_rule_error (t : bytes) (names : list bytes) : option (bytes * E) :=
    match names with
    | [] => None
    | n :: r => match add_rule_error t n with
                | Some e => Some (t, e)
                | None => first_rule_error t r
                end
    end.

  Fixpoint first_type_error (types names : list bytes) : option (bytes * E) :=
    match types with
    | [] => None
    | t :: r => match first_rule_error t names with
                | Some e => Some e
                | None => first_type_error r names
                end
    end.

  Definition add_rules_to_user_types (types : list bytes) (order : list bytes) : option (bytes * E) :=
    appends_sorted bytes_leb (fun n => [n]) (first_type_error types) [] order.
End AddRulesToUserTypes.
Arguments add_rules_to_user_types {E}.

(* ======================================================================================== *)
(* SITE catalog.prepareJSightSchema (catalog/schema_jsight.go):
       s := jschema.New(name, b)
       for n, v := range enumRules { if err := s.AddRule(n, v); err != nil { return nil, err } }
   jschema.Schema.AddRule (schema library, read in the module cache):
       if s.inner != nil { return errors.New("schema is already compiled") }
       if r == nil      { return errors.New("rule is nil") }
       if err := r.Check(); err != nil { return err }
       s.rules[n] = r; return nil
   The schema's rule table is an abstract finite map [M] with its store operation [mset]; what
   the proof needs from it is stated as an explicit premise of the theorem. *)
Inductive add_rule_err (E : Type) : Type :=
| AlreadyCompiled
| RuleIsNil
| CheckFailed (e : E).
Arguments AlreadyCompiled {E}.
Arguments RuleIsNil {E}.
Arguments CheckFailed {E}.

Section PrepareSchema.
  Variables (K Rule M E : Type).
  Variable mset : M -> K -> Rule -> M.
  Variable check : Rule -> option E.           (* r.Check(): None = nil error *)

  Record schema : Type := { compiled : bool; srules : M }.

  (* [r = None] is a nil rule *)
  Definition add_rule (lookup : K -> option Rule) (s : schema) (n : K) : schema + add_rule_err E :=
    if compiled s then inr AlreadyCompiled
    else match lookup n with
         | None => inr RuleIsNil
         | Some r => match check r with
                     | Some e => inr (CheckFailed e)
                     | None => inl {| compiled := compiled s; srules := mset (srules s) n r |}
                     end
         end.

  (* jschema.New: not loaded, no rules *)
  Definition fresh_schema (empty : M) : schema := {| compiled := false; srules := empty |}.

  Definition prepare_schema (empty : M) (lookup : K -> option Rule) (order : list K) : schema + add_rule_err E :=
    run_until_error (add_rule lookup) (fresh_schema empty) order.

  (* the loop that stood in core.compileUserTypeWithAllDependencies until /repo commit 78504eb:
     same body, but on a user type that an earlier fetchUsedUserTypes may already have loaded,
     and the error is LOCATED by the rule name n (dd.GetValue(n)) *)
  Definition add_rules_located (lookup : K -> option Rule) (s : schema) (n : K) : schema + (K * add_rule_err E) :=
    match add_rule lookup s n with
    | inl s' => inl s'
    | inr e => inr (n, e)
    end.
  Definition add_rules_loop_pre_78504eb (s0 : schema) (lookup : K -> option Rule) (order : list K) :=
    run_until_error (add_rules_located lookup) s0 order.
End PrepareSchema.
Arguments add_rule {K Rule M E}.
Arguments prepare_schema {K Rule M E}.
Arguments add_rules_loop_pre_78504eb {K Rule M E}.
Arguments fresh_schema {M}.
Arguments compiled {M}.
Arguments srules {M}.

(* a concrete rule table for the witnesses and to show the premise is satisfiable: the sorted
   association list of the stores (distinct keys) *)
Definition pair_leb (a b : bytes * bytes) : bool := bytes_leb (fst a) (fst b).
Definition table := list (bytes * bytes).
Definition table_set (m : table) (k : bytes) (r : bytes) : table := insert pair_leb (k, r) m.

(* ======================================================================================== *)
(* SITE (historical) core.JApiCore.checkMacroForRecursion until /repo commit b71ee7a:
       for macroName, macro := range core.macro {
           if je := findPaste(macroName, macro); je != nil { return je } }
   [paste_error name] = the error findPaste reports inside that macro (located at the offending
   PASTE directive), if any; no state. *)
Section MacroRecursion.
  Variable E : Type.
  Variable paste_error : bytes -> option E.
  Definition macro_step (_ : unit) (name : bytes) : unit + E :=
    match paste_error name with Some e => inr e | None => inl tt end.
  Definition check_macro_for_recursion_pre_b71ee7a (order : list bytes) : unit + E :=
    run_until_error macro_step tt order.
End MacroRecursion.
Arguments check_macro_for_recursion_pre_b71ee7a {E}.
