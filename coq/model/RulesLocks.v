(* What the regenerated facts of gen/RulesFacts.v (catalog/rules_builder.go, catalog/rules.go) must satisfy
   for model/RulesBuilder.v to be the model of the code.  DEFINITIONS ONLY; the obligations
   [rules_locks_check = true], [rules_ops_check = true] are discharged by computation in
   proofs/RulesBuilderProofs.v and break when the mutex is removed, a writer is downgraded to RLock or loses
   its lock prefix (a statement moved in front of Lock() makes the generator fail: the lock prefix must be
   the first two statements and the body must match the normal form), a locked method starts to call
   another method of the builder, a method body starts to denote another operation, a new method appears,
   or a field of the two structs is written outside their files.

   [rules_readers_unlocked] RECORDS (it is not a safety condition) that Rules() and the methods of *Rules
   take no lock: it is the premise of the finding [readers_not_atomic] and of the reading "readers are
   functions of a quiescent state" in model/RulesBuilder.v.  If the library starts to lock its readers the
   obligation fails and the model has to be revisited. *)
From Coq Require Import List String Bool.
From JV.gen Require Import RulesFacts.
Import ListNotations.
Local Open Scope string_scope.

Definition rop_eqb (a b : rules_op) : bool :=
  match a, b with
  | RoNewBuilder, RoNewBuilder | RoSet, RoSet | RoAppend, RoAppend | RoRules, RoRules
  | RoNewRules, RoNewRules | RoLen, RoLen | RoHas, RoHas | RoGet, RoGet | RoEach, RoEach
  | RoMarshalJSON, RoMarshalJSON => true
  | _, _ => false
  end.

Definition rlock_eqb (a b : rules_lock) : bool :=
  match a, b with
  | RlWrite, RlWrite | RlRead, RlRead | RlNone, RlNone => true
  | _, _ => false
  end.

Inductive raccess : Set := RaWrite | RaRead | RaFresh | RaHandle.

(* what the normal form of each operation does to data / index *)
Definition rop_access (o : rules_op) : raccess :=
  match o with
  | RoSet | RoAppend => RaWrite
  | RoLen | RoHas | RoGet | RoEach | RoMarshalJSON => RaRead
  | RoNewBuilder | RoNewRules => RaFresh      (* constructors: build a value nobody else can see yet *)
  | RoRules => RaHandle                       (* reads the field b.rules only, which only the constructor writes *)
  end.

(* the operation every name must carry *)
Definition rules_expected_op (typ name : string) : option rules_op :=
  if String.eqb typ "RulesBuilder" then
    if String.eqb name "newRulesBuilder" then Some RoNewBuilder
    else if String.eqb name "Set" then Some RoSet
    else if String.eqb name "Append" then Some RoAppend
    else if String.eqb name "Rules" then Some RoRules
    else None
  else if String.eqb typ "Rules" then
    if String.eqb name "NewRules" then Some RoNewRules
    else if String.eqb name "Len" then Some RoLen
    else if String.eqb name "Has" then Some RoHas
    else if String.eqb name "Get" then Some RoGet
    else if String.eqb name "Each" then Some RoEach
    else if String.eqb name "MarshalJSON" then Some RoMarshalJSON
    else None
  else None.

Definition rules_required : list (string * string) :=
  [("RulesBuilder", "newRulesBuilder"); ("RulesBuilder", "Set"); ("RulesBuilder", "Append"); ("RulesBuilder", "Rules");
   ("Rules", "Len"); ("Rules", "Has"); ("Rules", "Get"); ("Rules", "Each"); ("Rules", "MarshalJSON")].

Definition rm_is (typ name : string) (m : rules_method) : bool :=
  String.eqb (rm_type m) typ && String.eqb (rm_name m) name.

Definition rules_method_ops_ok (m : rules_method) : bool :=
  match rules_expected_op (rm_type m) (rm_name m) with
  | Some o => rop_eqb o (rm_op m)
  | None => false
  end.

Definition rules_ops_check_of (ms : list rules_method) : bool :=
  forallb rules_method_ops_ok ms
  && forallb (fun tn => existsb (rm_is (fst tn) (snd tn)) ms) rules_required.

(* a writer holds the write lock for its whole body and calls nothing of the builder
   (sync.RWMutex is not re-entrant); constructors and the handle accessor need no lock *)
Definition rules_method_lock_ok (m : rules_method) : bool :=
  match rop_access (rm_op m) with
  | RaWrite => rlock_eqb (rm_lock m) RlWrite && match rm_calls m with [] => true | _ => false end
  | RaFresh => rlock_eqb (rm_lock m) RlNone && match rm_calls m with [] => true | _ => false end
  | RaHandle => match rm_calls m with [] => true | _ => false end
  | RaRead => match rm_calls m with [] => true | _ => false end
  end.

Definition is_write_use (u : string * string * string * bool) : bool := snd u.

Definition rules_locks_check_of (has_mutex : bool) (ms : list rules_method)
           (uses : list (string * string * string * bool)) : bool :=
  has_mutex
  && forallb rules_method_lock_ok ms
  && negb (existsb is_write_use uses).

Definition rules_locks_check : bool :=
  rules_locks_check_of rules_builder_has_mutex rules_methods rules_outside_uses.
Definition rules_ops_check : bool := rules_ops_check_of rules_methods.

(* the recorded premise of the finding: no reader and not the accessor takes a lock *)
Definition rules_readers_unlocked_of (ms : list rules_method) : bool :=
  forallb (fun m => match rop_access (rm_op m) with
                    | RaRead | RaHandle => rlock_eqb (rm_lock m) RlNone
                    | _ => true
                    end) ms.
Definition rules_readers_unlocked : bool :=
  negb rules_has_mutex && rules_readers_unlocked_of rules_methods.

(* diagnosis for the check: the (type, method, what) that make the obligations fail *)
Definition rules_failures : list (string * string * string) :=
  app (if rules_builder_has_mutex then [] else [("RulesBuilder", "", "no mutex field")])
  (app (map (fun m => (rm_type m, rm_name m, "lock does not cover the operation, or the body calls a builder method"))
            (filter (fun m => negb (rules_method_lock_ok m)) rules_methods))
  (app (map (fun m => (rm_type m, rm_name m, "the body denotes another operation than the name"))
            (filter (fun m => negb (rules_method_ops_ok m)) rules_methods))
  (app (map (fun tn => (fst tn, snd tn, "required method is missing"))
            (filter (fun tn => negb (existsb (rm_is (fst tn) (snd tn)) rules_methods)) rules_required))
  (app (map (fun u => (fst (fst (fst u)), snd (fst u), "field written outside rules.go / rules_builder.go"))
            (filter is_write_use rules_outside_uses))
       (map (fun m => (rm_type m, rm_name m, "a reader takes a lock now: the model of the readers is out of date"))
            (filter (fun m => match rop_access (rm_op m) with
                              | RaRead | RaHandle => negb (rlock_eqb (rm_lock m) RlNone)
                              | _ => false
                              end) rules_methods)))))).
