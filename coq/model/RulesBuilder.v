(* Model of /repo/catalog/rules_builder.go (RulesBuilder) and /repo/catalog/rules.go (Rules).
   DEFINITIONS ONLY.

   Go state (one struct, reached through b.rules)      model
   rules.data  []Rule                                  rdata  : list rule   (a Rule = its Key + the rest, V)
   rules.index map[string]int                          rindex : association list, at most one binding per key
                                                                (nothing iterates the Go map)

   WHAT THE CODE DOES (read in the source, re-checked on every run through gen/RulesFacts.v):
   - (b *RulesBuilder) Set(k, r)    rules_builder.go:19-27   b.mx.Lock(); defer b.mx.Unlock() are the first two
       statements, so the lock is held for the whole body:  r.Key = k;  index[k] = len(data);
       data = append(data, r).   The key of the rule passed in is discarded.  NOTHING IS OVERWRITTEN IN PLACE:
       a second Set of the same key appends a second rule carrying that key and moves the index entry to it;
       the older rule stays in data (Each and MarshalJSON still list it, Get no longer reaches it).
   - (b *RulesBuilder) Append(r)    rules_builder.go:29-34   same lock prefix, whole body:  data = append(data, r).
       The rule keeps whatever Key the caller left in it and is NOT indexed.
   - (b *RulesBuilder) Rules()      rules_builder.go:36-38   NO lock.  Returns the pointer b.rules: an ALIAS of the
       state Set/Append keep writing, not a copy.  (The field b.rules is written by the constructor only.)
   - (rr *Rules) Len/Has/Get/Each/MarshalJSON   rules.go:25-66   NO lock (the struct has no mutex).
   - NewRules(d)                    rules.go:14-23           data = d, index[r.Key] = i for i, r in d (last wins).
   - newRulesBuilder(n)             rules_builder.go:10-17   empty data, empty index (n is a capacity hint only).

   CONSEQUENCE FOR THE MODEL.  Set and Append are each ONE atomic step with respect to each other (both
   hold the write lock for their whole body): a concurrent history of writers is a sequence of [wop]s,
   [rb_run].  The readers are NOT atomic steps with respect to the writers: they take no lock.  They are
   modelled as functions of the state and are meaningful (a) on a state no writer is working on (after the
   goroutines have been joined; this is how the library uses the pair: the builder never leaves the function
   that created it) and (b) for any number of concurrent readers, since they write nothing.  What an unlocked
   reader can see DURING Set is the intermediate state [rb_set_index] (index written, rule not yet appended);
   proofs/RulesBuilderProofs.v proves that Get panics there. *)
From Coq Require Import List NArith Bool String.
From JV.lib Require Import Bytes.
From JV.model Require Import OrderedMap.
Import ListNotations.

Section RulesBuilder.
  Variable K V : Type.
  Variable keq : K -> K -> bool.      (* Go's == on string *)

  (* catalog.Rule: the Key field and everything else *)
  Record rule : Type := { rkey : K; rval : V }.

  Record rstate : Type := { rdata : list rule; rindex : list (K * nat) }.

  (* newRulesBuilder(n) *)
  Definition rb_new : rstate := {| rdata := []; rindex := [] |}.

  (* i, ok := index[k] *)
  Fixpoint idx_get (k : K) (ix : list (K * nat)) : option nat :=
    match ix with
    | [] => None
    | (k', i) :: r => if keq k' k then Some i else idx_get k r
    end.

  (* index[k] = i *)
  Fixpoint idx_set (k : K) (i : nat) (ix : list (K * nat)) : list (K * nat) :=
    match ix with
    | [] => [(k, i)]
    | (k', i') :: r => if keq k' k then (k', i) :: r else (k', i') :: idx_set k i r
    end.

  (* ---- writers: the two statements of Set, in source order ---- *)

  (* b.rules.index[k] = len(b.rules.data) *)
  Definition rb_set_index (k : K) (s : rstate) : rstate :=
    {| rdata := rdata s; rindex := idx_set k (List.length (rdata s)) (rindex s) |}.

  (* b.rules.data = append(b.rules.data, r) *)
  Definition rb_push (r : rule) (s : rstate) : rstate :=
    {| rdata := rdata s ++ [r]; rindex := rindex s |}.

  (* Set(k, r): r.Key = k; index[k] = len(data); data = append(data, r) *)
  Definition rb_set (k : K) (r : rule) (s : rstate) : rstate :=
    rb_push {| rkey := k; rval := rval r |} (rb_set_index k s).

  (* Append(r) *)
  Definition rb_append (r : rule) (s : rstate) : rstate := rb_push r s.

  (* Rules(): the pointer.  Reads through it are reads of the CURRENT state. *)
  Definition rb_rules (s : rstate) : rstate := s.

  (* ---- readers (methods of *Rules) ---- *)
  Definition rs_len (s : rstate) : nat := List.length (rdata s).

  Definition rs_has (s : rstate) (k : K) : bool :=
    match idx_get k (rindex s) with Some _ => true | None => false end.

  (* i, ok := index[k]; if !ok { return Rule{}, false }; return data[i], true
     data[i] panics when i is out of range *)
  Definition rs_get (s : rstate) (k : K) : gres (option rule) :=
    match idx_get k (rindex s) with
    | None => GOk None
    | Some i =>
      match nth_error (rdata s) i with
      | Some r => GOk (Some r)
      | None => GPanic "index out of range"%string
      end
    end.

  (* Each: fn(v.Key, v) for v in data (the Go loop stops at the first error the callback returns; this is
     what a callback that never fails is shown) *)
  Definition rs_each (s : rstate) : list (K * rule) := map (fun r => (rkey r, r)) (rdata s).

  (* Each with a callback that may fail: for _, v := range data { if err := fn(v.Key, v); err != nil { return err } }
     - the entries the callback was called on (the failing one included) and whether an error came back
     (the loop of OrderedMap.until_loop) *)
  Definition rs_each_until (stop : K -> rule -> bool) (s : rstate) : list (K * rule) * bool :=
    until_loop K rule stop (rs_each s).

  (* MarshalJSON: json.Marshal(data), an array in data order *)
  Definition rs_marshal (s : rstate) : list rule := rdata s.

  (* NewRules(d) *)
  Fixpoint new_index (i : nat) (d : list rule) (ix : list (K * nat)) : list (K * nat) :=
    match d with
    | [] => ix
    | r :: d' => new_index (S i) d' (idx_set (rkey r) i ix)
    end.
  Definition rs_new (d : list rule) : rstate := {| rdata := d; rindex := new_index 0 d [] |}.

  (* the invariant of the pair: every index entry points inside data, at a rule that carries the key *)
  Definition rb_inv (s : rstate) : Prop :=
    forall k i, idx_get k (rindex s) = Some i ->
      (i < List.length (rdata s))%nat /\ exists r, nth_error (rdata s) i = Some r /\ rkey r = k.

  (* the rules Get can reach: those whose position is the index entry of their key, in data order *)
  Fixpoint indexed_from (ix : list (K * nat)) (i : nat) (d : list rule) : list rule :=
    match d with
    | [] => []
    | r :: d' =>
      match idx_get (rkey r) ix with
      | Some j => if Nat.eqb j i then r :: indexed_from ix (S i) d' else indexed_from ix (S i) d'
      | None => indexed_from ix (S i) d'
      end
    end.
  Definition rs_indexed (s : rstate) : list rule := indexed_from (rindex s) 0 (rdata s).

  (* ---- one atomic writer call; a linearised history of writers ---- *)
  Inductive wop : Type :=
  | WSet (k : K) (r : rule)
  | WAppend (r : rule).

  Definition rb_step (s : rstate) (o : wop) : rstate :=
    match o with
    | WSet k r => rb_set k r s
    | WAppend r => rb_append r s
    end.

  Definition rb_run_from (s : rstate) (ops : list wop) : rstate := fold_left rb_step ops s.
  Definition rb_run (ops : list wop) : rstate := rb_run_from rb_new ops.

  (* ---- specification side: what a history says, without running it ---- *)

  (* the rule a call leaves in data *)
  Definition entry_of (o : wop) : rule :=
    match o with
    | WSet k r => {| rkey := k; rval := rval r |}
    | WAppend r => r
    end.

  Definition is_set (o : wop) : bool := match o with WSet _ _ => true | WAppend _ => false end.

  Definition sets_key (k : K) (o : wop) : bool :=
    match o with WSet k' _ => keq k' k | WAppend _ => false end.

  (* keys of the Set calls, in history order *)
  Fixpoint rb_set_keys (ops : list wop) : list K :=
    match ops with
    | [] => []
    | WSet k _ :: r => k :: rb_set_keys r
    | WAppend _ :: r => rb_set_keys r
    end.

  (* position in the history (counting from [base]) of the LAST Set of k *)
  Fixpoint last_set_pos (k : K) (base : nat) (ops : list wop) : option nat :=
    match ops with
    | [] => None
    | o :: r =>
      match last_set_pos k (S base) r with
      | Some p => Some p
      | None => if sets_key k o then Some base else None
      end
    end.

  (* the value passed to the LAST Set of k *)
  Fixpoint last_set (k : K) (ops : list wop) : option V :=
    match ops with
    | [] => None
    | o :: r =>
      match last_set k r with
      | Some v => Some v
      | None => match o with
                | WSet k' x => if keq k' k then Some (rval x) else None
                | WAppend _ => None
                end
      end
    end.

  (* ---- concurrency: schedules and interleavings ---- *)

  (* a schedule: which goroutine made which call, in the order the lock was granted *)
  Definition rb_sched : Type := list (nat * wop).
  Definition rb_sched_ops (sc : rb_sched) : list wop := map snd sc.
  (* the calls of goroutine t, in its program order *)
  Definition rb_proj (t : nat) (sc : rb_sched) : list wop :=
    map snd (filter (fun x => Nat.eqb (fst x) t) sc).
  Definition rb_run_sched (sc : rb_sched) : rstate := rb_run (rb_sched_ops sc).

  (* goroutine t is the only one that Sets the keys it Sets *)
  Definition keys_owned (sc : rb_sched) : Prop :=
    forall t1 t2 k r1 r2, In (t1, WSet k r1) sc -> In (t2, WSet k r2) sc -> t1 = t2.

  (* the same on per-goroutine call lists *)
  Definition keys_disjoint (ths : list (list wop)) : Prop :=
    forall i j k, In k (rb_set_keys (nth i ths [])) -> In k (rb_set_keys (nth j ths [])) -> i = j.
End RulesBuilder.

Arguments rkey {K V} _.
Arguments rval {K V} _.
Arguments rdata {K V} _.
Arguments rindex {K V} _.
Arguments rb_new {K V}.
Arguments WSet {K V} k r.
Arguments WAppend {K V} r.

(* [l] is an interleaving of the lists [ths]: every element of every list exactly once, each
   list in its own order.  (Generic in the element type: used for calls and for stored rules.) *)
Inductive interleaves {A : Type} : list (list A) -> list A -> Prop :=
| il_done : forall ths, (forall th, In th ths -> th = []) -> interleaves ths []
| il_step : forall pre o tl post l,
    interleaves (pre ++ tl :: post) l -> interleaves (pre ++ (o :: tl) :: post) (o :: l).

(* ---- instance used by the correspondence check: keys and values are byte strings ---- *)
Definition brule := rule bytes bytes.
Definition bstate := rstate bytes bytes.

(* observable result of one call, as the runner prints it *)
Inductive robs : Type :=
| RONone                                   (* Set, Append return nothing *)
| ROGet (r : gres (option (bytes * bytes)))
| ROBool (b : bool)
| ROLen (n : nat)
| ROPairs (kvs : list (bytes * bytes))     (* Each, MarshalJSON: (Key, value) in data order *)
| ROVisit (kvs : list (bytes * bytes)) (stopped : bool).  (* Each with a failing callback *)

(* script language of the `rules` command *)
Inductive rcmd : Type :=
| RCSet (k j v : bytes)                    (* Set(k, Rule{Key: j, value v}) *)
| RCAppend (j v : bytes)                   (* Append(Rule{Key: j, value v}) *)
| RCGet (k : bytes)
| RCHas (k : bytes)
| RCLen
| RCEach
| RCEachStopKey (k : bytes)                (* Each, callback fails at the first rule whose Key is k *)
| RCEachStopVal (v : bytes)                (* Each, callback fails at the first rule whose value is v *)
| RCMarshal.

Definition rule_pair (r : brule) : bytes * bytes := (rkey r, rval r).

Definition rcmd_step (s : bstate) (c : rcmd) : bstate * robs :=
  match c with
  | RCSet k j v => (rb_set _ _ beq k {| rkey := j; rval := v |} s, RONone)
  | RCAppend j v => (rb_append _ _ {| rkey := j; rval := v |} s, RONone)
  | RCGet k => (s, ROGet (match rs_get _ _ beq (rb_rules _ _ s) k with
                          | GOk o => GOk (option_map rule_pair o)
                          | GPanic w => GPanic w
                          end))
  | RCHas k => (s, ROBool (rs_has _ _ beq (rb_rules _ _ s) k))
  | RCLen => (s, ROLen (rs_len _ _ (rb_rules _ _ s)))
  | RCEach => (s, ROPairs (map (fun kr => (fst kr, rval (snd kr))) (rs_each _ _ (rb_rules _ _ s))))
  | RCEachStopKey k =>
    let (vis, st) := rs_each_until _ _ (fun k' _ => beq k' k) (rb_rules _ _ s) in
    (s, ROVisit (map (fun kr => (fst kr, rval (snd kr))) vis) st)
  | RCEachStopVal v =>
    let (vis, st) := rs_each_until _ _ (fun _ r => beq (rval r) v) (rb_rules _ _ s) in
    (s, ROVisit (map (fun kr => (fst kr, rval (snd kr))) vis) st)
  | RCMarshal => (s, ROPairs (map rule_pair (rs_marshal _ _ (rb_rules _ _ s))))
  end.

Fixpoint rcmd_run (s : bstate) (cs : list rcmd) : list robs :=
  match cs with
  | [] => []
  | c :: r => let (s', o) := rcmd_step s c in o :: rcmd_run s' r
  end.

(* init = None: the script runs on newRulesBuilder(..);  init = Some d: on NewRules(d), readers only
   make sense there but nothing stops a script from being run *)
Definition rules_script (init : option (list (bytes * bytes))) (cs : list rcmd) : list robs :=
  rcmd_run (match init with
            | None => rb_new
            | Some d => rs_new _ _ beq (map (fun kv => {| rkey := fst kv; rval := snd kv |}) d)
            end) cs.
