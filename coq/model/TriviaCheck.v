(* A second boolean checker over the REGENERATED scanner table: which bytes may be consumed
   without ending up inside a lexeme.  Like TableCheck it is relative to the (untrusted) typing
   of the states, of which only [lexopen] is used, and to a SKIP SPECIFICATION written by hand:
   per state, the bytes that state may consume without a lexeme covering them.
   Definitions only; soundness is proofs/TM_Trivia.v. *)
From Coq Require Import List NArith ZArith Bool String.
From JV.lib Require Import Bytes.
From JV.gen Require Import ScannerTable.
From JV.model Require Import ScannerSem TableCheck.
Import ListNotations.
Open Scope N_scope.

(* every leaf the byte c can reach, with the value of the previous byte when the path to the leaf
   went through the true branch of a [CPrevIs] test *)
Fixpoint leaves_prev (t : tree) (c : N) (pk : option N) : list (option N * (list act * exit)) :=
  match t with
  | Leaf a x => [(pk, (a, x))]
  | Node (CByteIn l) a b => if in_set l c then leaves_prev a c pk else leaves_prev b c pk
  | Node (CPrevIs k) a b => leaves_prev a c (Some k) ++ leaves_prev b c pk
  | Node _ a b => leaves_prev a c pk ++ leaves_prev b c pk
  end.

Record skipspec : Type := {
  (* the state consumes this byte and no lexeme covers it *)
  skip_ok : state -> N -> bool;
  (* [skip_prev_ok st k c]: the state, reading c after k, closes the open lexeme BEFORE k,
     so the already consumed k is left outside (the '*' of a closing '*/') *)
  skip_prev_ok : state -> N -> N -> bool
}.

Definition is_some {A} (o : option A) : bool := match o with Some _ => true | None => false end.

Section TCheck.
  Variable ty : typing.
  Variable sp : skipspec.

  (* abstract state of one leaf: the open lexeme; whether the current byte got covered by a lexeme
     that was closed on it; whether the read position was rewound / a body was read; whether the
     open lexeme was opened by this very leaf exactly at the current byte *)
  Record tst : Set := { t_open : option evt; t_cov : bool; t_rw : bool; t_rd : bool; t_new : bool }.

  Definition tstep (st : state) (c : N) (pk : option N) (x : exit) (a : tst) (y : act) : option tst :=
    match y with
    | AFound b e =>
      if t_rw a || t_rd a then None
      else if evt_in e evt_beginning then
        match t_open a with
        | None => Some {| t_open := Some e; t_cov := t_cov a; t_rw := false; t_rd := false; t_new := (b =? 0) |}
        | Some _ => None
        end
      else if evt_in e evt_ending then
        match t_open a with
        | Some _ =>
          if b =? 0 then Some {| t_open := None; t_cov := true; t_rw := false; t_rd := false; t_new := false |}
          else if b =? 1 then Some {| t_open := None; t_cov := t_cov a; t_rw := false; t_rd := false; t_new := false |}
          else if b =? 2 then
            match pk, x with
            | Some k, XNil =>
              if skip_prev_ok sp st k c
              then Some {| t_open := None; t_cov := t_cov a; t_rw := false; t_rd := false; t_new := false |}
              else None
            | _, _ => None
            end
          else None
        | None => None
        end
      else if evt_in e evt_single then
        match t_open a with
        | None =>
          if b =? 0 then Some {| t_open := None; t_cov := true; t_rw := false; t_rd := false; t_new := false |}
          else if b =? 1 then Some a
          else None
        | Some _ => None
        end
      else None
    | ARewind n =>
      if n =? 0 then Some a
      else Some {| t_open := t_open a; t_cov := t_cov a; t_rw := true; t_rd := t_rd a; t_new := t_new a |}
    | AReadSchema | AReadEnum =>
      (* a body is only read right after its lexeme was opened at the current byte *)
      if t_new a && negb (t_rw a)
      then Some {| t_open := t_open a; t_cov := t_cov a; t_rw := false; t_rd := true; t_new := true |}
      else None
    | _ => Some a
    end.

  Fixpoint tfold (st : state) (c : N) (pk : option N) (x : exit) (a : tst) (l : list act) : option tst :=
    match l with
    | [] => Some a
    | y :: r => match tstep st c pk x a y with Some a' => tfold st c pk x a' r | None => None end
    end.

  Definition tst0 (st : state) : tst :=
    {| t_open := lexopen ty st; t_cov := false; t_rw := false; t_rd := false; t_new := false |}.

  (* the verdict on a leaf that ends the handling of the byte ([XNil]) *)
  Definition final_ok (st : state) (c : N) (a : tst) : bool :=
    (negb (t_rd a) || t_new a) &&
    (* the byte is inside the lexeme that stays open, or inside one closed on it, or will be read
       again, or is the end-of-file pseudo byte, or the state may skip it *)
    (is_some (t_open a) || t_cov a || t_rw a || (c =? 0) || skip_ok sp st c).

  (* separately: at the end of the file nothing stays open but a lexeme that starts there *)
  Definition eof_final_ok (a : tst) : bool :=
    t_rw a || negb (is_some (t_open a)) || t_new a.

  Definition leaf_triv_ok (st : state) (c : N) (lf : option N * (list act * exit)) : bool :=
    match tfold st c (fst lf) (snd (snd lf)) (tst0 st) (fst (snd lf)) with
    | None => false
    | Some a =>
      match snd (snd lf) with
      | XNil => final_ok st c a && (negb (c =? 0) || eof_final_ok a)
      | _ => true
      end
    end.

  Definition trivia_ok : bool :=
    forallb (fun st => forallb (fun c =>
      forallb (leaf_triv_ok st c) (leaves_prev (step_tree st) c None)) all_byte_values) all_states.

  (* the states in which the end of the file is accepted while a lexeme that covers real bytes is open *)
  Definition eof_open_states : list state :=
    filter (fun st => negb (forallb (fun lf =>
      match tfold st 0 (fst lf) (snd (snd lf)) (tst0 st) (fst (snd lf)) with
      | None => false
      | Some a => match snd (snd lf) with XNil => eof_final_ok a | _ => true end
      end) (leaves_prev (step_tree st) 0 None))) all_states.

  (* diagnosis: the offending (state, byte) pairs *)
  Definition trivia_bad : list (state * N) :=
    flat_map (fun st => flat_map (fun c =>
      if forallb (leaf_triv_ok st c) (leaves_prev (step_tree st) c None) then [] else [(st, c)])
      all_byte_values) all_states.
End TCheck.

(* ---------------------------------------------------------------------------------------------- *)
(* A third checker: the events one dispatch (a step function call with its re-dispatches) emits.
   Next() hands out one lexeme per call and keeps the remaining events pending; a pending Begin that
   is followed by further events when the end of the file has been passed is lost together with them.
   The phase of an event sequence: 0 = no lexeme completed yet (these events are all processed in the
   same call), 1 = a lexeme was completed, 2 = ... and then a Begin came, 3 = ... and then more.
   The checker shows (a) a dispatch that does not pass the end of the file stays below phase 3, so
   that between calls of Next() a pending Begin is always the LAST pending event; (b) a Begin
   emitted while reading the end-of-file pseudo byte is placed AT the end of the file, so that what
   is lost there covers no byte.  [ph c st] is an (untrusted, inferred) bound of the phase in which
   state st can be re-dispatched to while byte c is being handled. *)
Definition ph_step (phi : N) (e : evt) : N :=
  if evt_in e evt_beginning then (if phi =? 0 then 0 else if phi =? 1 then 2 else 3)
  else (if phi <=? 1 then 1 else 3).

Section PCheck.
  Variable ty : typing.
  Variable ph : N -> state -> N.

  (* (phase, whether the read position has been moved by this leaf) *)
  Fixpoint ph_acts (c : N) (a : N * bool) (l : list act) : option (N * bool) :=
    match l with
    | [] => Some a
    | AFound b e :: r =>
      if (c =? 0) && evt_in e evt_beginning && (snd a || negb (b =? 0)) then None
      else ph_acts c (ph_step (fst a) e, snd a) r
    | ARewind _ :: r | AReadSchema :: r | AReadEnum :: r => ph_acts c (fst a, true) r
    | _ :: r => ph_acts c a r
    end.

  Definition leaf_pend_ok (st : state) (c : N) (lf : list act * exit) : bool :=
    match ph_acts c (ph c st, false) (fst lf) with
    | None => false
    | Some a =>
      match snd lf with
      | XErr _ => true
      | XNil => ((c =? 0) && (rewind_total (fst lf) =? 0)%Z) || (fst a <=? 2)
      | XRedo =>
        match sfold ty st (st, SE_none) (fst lf) with
        | Some sa => forallb (fun t => fst a <=? ph c t) (targets_of ty st sa)
        | None => false
        end
      end
    end.

  Definition pend_ok : bool :=
    forallb (fun st => forallb (fun c =>
      forallb (leaf_pend_ok st c) (leaves_for (step_tree st) c)) all_byte_values) all_states.
End PCheck.

(* untrusted inference of [ph], byte by byte, by iteration from 0 *)
Definition ph_row (row : list N) (st : state) : N := nth (N.to_nat (state_idx st)) row 0.
Definition ph_of (tbl : list (list N)) (c : N) (st : state) : N := ph_row (nth (N.to_nat c) tbl []) st.

Definition ph_edges (ty : typing) (c : N) (row : list N) : list (N * N) :=
  flat_map (fun st => flat_map (fun lf =>
    match snd lf with
    | XRedo =>
      match ph_acts c (ph_row row st, false) (fst lf), sfold ty st (st, SE_none) (fst lf) with
      | Some a, Some sa => map (fun t => (state_idx t, fst a)) (targets_of ty st sa)
      | _, _ => []
      end
    | _ => []
    end) (leaves_for (step_tree st) c)) all_states.

Definition ph_join (row : list N) (edges : list (N * N)) : list N :=
  map (fun st => fold_left (fun m e => if (fst e =? state_idx st) then N.max m (snd e) else m) edges (ph_row row st)) all_states.

Fixpoint ph_iter (ty : typing) (c : N) (n : nat) (row : list N) : list N :=
  match n with O => row | S k => ph_iter ty c k (ph_join row (ph_edges ty c row)) end.

Definition infer_ph (ty : typing) : list (list N) :=
  map (fun c => ph_iter ty c 4 (map (fun _ => 0) all_states)) all_byte_values.
