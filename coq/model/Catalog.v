(* Hand-written model of the catalog construction at SKELETON level:
     core/compile_core_tags.go, compile_core_rules.go (names only), collect_core_path.go,
     build_catalog.go (buildCatalog), build_catalog_directives.go, catalog/setters.go,
     core/path_variables.go + compile_catalog.go (BuildResourceMethodsPathVariables),
     validate_catalog.go (the parts that do not look inside schemas).
   Schemas are opaque descriptors (where the schema text came from); what the schema library
   decides (is the text a valid schema, which types does it use, what are the properties of a
   Path body) is supplied by the oracle [path_props] or left out.  Definitions only. *)
From Coq Require Import List NArith Bool String.
From JV.lib Require Import Bytes.
From JV.gen Require Import DirectiveTables TagName.
From JV.model Require Import ScannerSem Core Description PathParams TagTitle.
Import ListNotations.
Open Scope N_scope.

Inductive proto : Set := PHttp | PRpc.

Record iid : Set := { i_proto : proto; i_method : bytes; i_path : bytes }.

Definition proto_eqb (a b : proto) : bool :=
  match a, b with PHttp, PHttp => true | PRpc, PRpc => true | _, _ => false end.
Definition iid_eqb (a b : iid) : bool :=
  proto_eqb (i_proto a) (i_proto b) && beq (i_method a) (i_method b) && beq (i_path a) (i_path b).
(* InteractionID.String(): the JSON key *)
Definition iid_string (i : iid) : bytes :=
  (match i_proto i with PHttp => bs "http " | PRpc => bs "json-rpc-2.0 " end) ++ i_method i ++ [32] ++ i_path i.

(* where a schema comes from *)
Inductive sdesc : Set :=
| SBody (c : coords)            (* the body text of a directive *)
| STypeRef (t : bytes)          (* a Type parameter: "@cat" / "[@cat]" *)
| SNone.                        (* NewSchema(notation) for any / empty *)

Record body_ : Set := { b_format : bytes; b_schema : sdesc }.
Record response : Set := { r_code : bytes; r_annot : bytes; r_body : option body_; r_headers : option sdesc; r_dir : directive }.
Record request : Set := { q_body : option body_; q_headers : option sdesc; q_dir : directive }.
Record query : Set := { qu_format : bytes; qu_example : bytes; qu_schema : sdesc }.

Record http_i : Set := {
  hi_annot : bytes; hi_desc : option bytes; hi_tags : list bytes;
  hi_query : option query; hi_request : option request; hi_responses : list response;
  hi_pathvars : list bytes
}.
Record rpc_i : Set := {
  ri_annot : bytes; ri_desc : option bytes; ri_tags : list bytes;
  ri_params : option sdesc; ri_result : option sdesc
}.
Inductive interaction : Set := IHttp (h : http_i) | IRpc (r : rpc_i).

(* t_auto: made from the path of an interaction (catalog.newPathTag); a Tags directive can name declared tags only *)
Record tag : Set := { t_title : bytes; t_desc : option bytes; t_http : list iid; t_rpc : list iid; t_auto : bool }.
Record server : Set := { s_annot : bytes; s_base : bytes }.
Record utype : Set := { ut_annot : bytes; ut_notation : bytes; ut_schema : sdesc }.
Record info : Set := { in_title : bytes; in_version : bytes; in_desc : option bytes; in_dir : directive }.

Record catalog : Set := {
  c_jsight : bytes;
  c_info : option info;
  c_servers : list (bytes * server);       (* ordered maps: insertion order *)
  c_types : list (bytes * utype);
  c_enums : list (bytes * bytes);           (* name, annotation *)
  c_inters : list (iid * interaction);
  c_tags : list (bytes * tag)
}.

Definition empty_catalog : catalog :=
  {| c_jsight := []; c_info := None; c_servers := []; c_types := []; c_enums := []; c_inters := []; c_tags := [] |}.

(* ---- ordered-map operations on association lists ---- *)
Section OMap.
  Context {K V : Type} (keq : K -> K -> bool).
  Definition om_has (m : list (K * V)) (k : K) : bool := existsb (fun e => keq (fst e) k) m.
  Definition om_get (m : list (K * V)) (k : K) : option V :=
    match find (fun e => keq (fst e) k) m with Some e => Some (snd e) | None => None end.
  Definition om_set (m : list (K * V)) (k : K) (v : V) : list (K * V) :=
    if om_has m k then map (fun e => if keq (fst e) k then (fst e, v) else e) m else m ++ [(k, v)].
  Definition om_update (m : list (K * V)) (k : K) (f : V -> V) : list (K * V) :=
    map (fun e => if keq (fst e) k then (fst e, f (snd e)) else e) m.
End OMap.

Definition msg (cls : string) : cerr_kind := CEMsg cls.
Definition kerr {A} (d : directive) (cls : string) : cres A := CErr (kw_err d (msg cls)).
(* directive.BodyError: located at the body when there is one *)
Definition berr {A} (d : directive) (cls : string) : cres A :=
  match d_body d with
  | Some c => CErr {| ce_file := c_file c; ce_idx := c_beg c; ce_kind := msg cls; ce_trace := rev (d_trace d) |}
  | None => kerr d cls
  end.

(* ---- walks up the ancestors (innermost first) ---- *)
Definition has_slash_prefix (p : bytes) : bool := match p with c :: _ => c =? 47 | [] => false end.

(* directive.Path() *)
Fixpoint path_raw (d : directive) (anc : list dtree) : option bytes :=
  if kind_eqb (d_kind d) KURL then Some (named d (bs "Path"))
  else if is_http_method (d_kind d) && negb (beq (named d (bs "Path")) []) then Some (named d (bs "Path"))
  else match anc with
       | [] => None
       | a :: rest => path_raw (tree_dir a) rest
       end.

Inductive path_res : Set := PathOk (p : bytes) | PathNotFound | PathIncorrect.
Definition path_of (d : directive) (anc : list dtree) : path_res :=
  match path_raw d anc with
  | None => PathNotFound
  | Some p => if has_slash_prefix p then PathOk p else PathIncorrect
  end.

(* directive.HTTPMethod() *)
Fixpoint http_method_of (d : directive) (anc : list dtree) : option kind :=
  if is_http_method (d_kind d) then Some (d_kind d)
  else match anc with [] => None | a :: rest => http_method_of (tree_dir a) rest end.

(* directive.JsonRpcMethodName() *)
Fixpoint rpc_method_of (d : directive) (anc : list dtree) : option bytes :=
  if kind_eqb (d_kind d) KMethod then Some (named d (bs "MethodName"))
  else match anc with [] => None | a :: rest => rpc_method_of (tree_dir a) rest end.

Definition method_name (k : kind) : bytes := kind_keyword k.   (* "GET", "POST", ... *)

Inductive id_res : Set := IdOk (i : iid) | IdErr (cls : string).
Definition http_id (d : directive) (anc : list dtree) : id_res :=
  match path_of d anc with
  | PathNotFound => IdErr "path not found"
  | PathIncorrect => IdErr "incorrect path"
  | PathOk p =>
    match http_method_of d anc with
    | None => IdErr "HTTP method not found"
    | Some k => IdOk {| i_proto := PHttp; i_method := method_name k; i_path := p |}
    end
  end.
Definition rpc_id (d : directive) (anc : list dtree) : id_res :=
  match path_of d anc with
  | PathNotFound => IdErr "path not found"
  | PathIncorrect => IdErr "incorrect path"
  | PathOk p =>
    match rpc_method_of d anc with
    | None => IdErr "JSON-RPC method not found"
    | Some m => IdOk {| i_proto := PRpc; i_method := m; i_path := p |}
    end
  end.

(* ---- tags (catalog/setters.go tags / tagNames / pathTag) ---- *)
Definition child_of_kind (k : kind) (kids : list dtree) : option directive :=
  match find (fun t => kind_eqb (d_kind (tree_dir t)) k) kids with Some t => Some (tree_dir t) | None => None end.

Definition auto_tag_name (path : bytes) : bytes :=
  match tagName (pathTagTitle path) with GOk n => n | GPanic _ => [] end.

Definition tag_add_iid (t : tag) (i : iid) : tag :=
  match i_proto i with
  | PHttp => {| t_title := t_title t; t_desc := t_desc t; t_http := t_http t ++ [i]; t_rpc := t_rpc t; t_auto := t_auto t |}
  | PRpc => {| t_title := t_title t; t_desc := t_desc t; t_http := t_http t; t_rpc := t_rpc t ++ [i]; t_auto := t_auto t |}
  end.

(* tagsFromTagsDirective: the directive is well-formed and every name is a declared tag; [i] = the
   interaction to register in each named tag (None: CheckTags, the directive is only checked) *)
Definition tags_from_directive (td : directive) (i : option iid) (tags : list (bytes * tag))
  : cres (list bytes * list (bytes * tag)) :=
  if negb (beq (d_annot td) []) then kerr td "annotation is forbidden"
  else match d_unnamed td with
       | [] => kerr td "required parameter"
       | names =>
         (fix go (ns : list bytes) (acc : list bytes) (tg : list (bytes * tag)) : cres (list bytes * list (bytes * tag)) :=
            match ns with
            | [] => COk (acc, tg)
            | n :: r =>
              match om_get beq tg n with
              | None => kerr td "tag not found"
              | Some t => if t_auto t then kerr td "tag not found"
                          else go r (acc ++ [n]) (match i with Some j => om_update beq tg n (fun t => tag_add_iid t j) | None => tg end)
              end
            end) names [] tags
       end.

(* returns the tag names of the interaction and the updated tag collection *)
Definition tags_for (me : dtree) (anc : list dtree) (i : iid) (tags : list (bytes * tag))
  : cres (list bytes * list (bytes * tag)) :=
  let from_tags_directive (td : directive) := tags_from_directive td (Some i) tags in
  match child_of_kind KTags (tree_kids me) with
  | Some td => from_tags_directive td
  | None =>
    let parent_tags :=
        match anc with
        | a :: _ => if kind_eqb (d_kind (tree_dir a)) KURL then child_of_kind KTags (tree_kids a) else None
        | [] => None
        end in
    match parent_tags with
    | Some td => from_tags_directive td
    | None =>
      let n := auto_tag_name (i_path i) in
      let tg := if om_has beq tags n then tags
                else tags ++ [(n, {| t_title := pathTagTitle (i_path i); t_desc := None; t_http := []; t_rpc := []; t_auto := true |})] in
      COk ([n], om_update beq tg n (fun t => tag_add_iid t i))
    end
  end.

(* ---- notation / format ---- *)
Definition norm_notation (n : bytes) : option bytes :=
  if beq n [] || beq n (bs "jsight") then Some (bs "jsight")
  else if beq n (bs "regex") then Some (bs "regex")
  else if beq n (bs "any") then Some (bs "any")
  else if beq n (bs "empty") then Some (bs "empty")
  else None.
Definition format_of (n : bytes) : bytes :=
  if beq n (bs "jsight") then bs "json" else if beq n (bs "regex") then bs "plainString" else bs "binary".
Definition is_any_or_empty (n : bytes) : bool := beq n (bs "any") || beq n (bs "empty").

Definition upd_inters (c : catalog) (x : list (iid * interaction)) : catalog :=
  {| c_jsight := c_jsight c; c_info := c_info c; c_servers := c_servers c; c_types := c_types c; c_enums := c_enums c; c_inters := x; c_tags := c_tags c |}.
Definition upd_tags (c : catalog) (x : list (bytes * tag)) : catalog :=
  {| c_jsight := c_jsight c; c_info := c_info c; c_servers := c_servers c; c_types := c_types c; c_enums := c_enums c; c_inters := c_inters c; c_tags := x |}.
Definition upd_info (c : catalog) (x : option info) : catalog :=
  {| c_jsight := c_jsight c; c_info := x; c_servers := c_servers c; c_types := c_types c; c_enums := c_enums c; c_inters := c_inters c; c_tags := c_tags c |}.
Definition upd_servers (c : catalog) (x : list (bytes * server)) : catalog :=
  {| c_jsight := c_jsight c; c_info := c_info c; c_servers := x; c_types := c_types c; c_enums := c_enums c; c_inters := c_inters c; c_tags := c_tags c |}.
Definition upd_types (c : catalog) (x : list (bytes * utype)) : catalog :=
  {| c_jsight := c_jsight c; c_info := c_info c; c_servers := c_servers c; c_types := x; c_enums := c_enums c; c_inters := c_inters c; c_tags := c_tags c |}.
Definition upd_enums (c : catalog) (x : list (bytes * bytes)) : catalog :=
  {| c_jsight := c_jsight c; c_info := c_info c; c_servers := c_servers c; c_types := c_types c; c_enums := x; c_inters := c_inters c; c_tags := c_tags c |}.
Definition upd_jsight (c : catalog) (x : bytes) : catalog :=
  {| c_jsight := x; c_info := c_info c; c_servers := c_servers c; c_types := c_types c; c_enums := c_enums c; c_inters := c_inters c; c_tags := c_tags c |}.

Definition upd_http (c : catalog) (i : iid) (f : http_i -> http_i) : catalog :=
  upd_inters c (om_update iid_eqb (c_inters c) i (fun x => match x with IHttp h => IHttp (f h) | y => y end)).
Definition upd_rpc (c : catalog) (i : iid) (f : rpc_i -> rpc_i) : catalog :=
  upd_inters c (om_update iid_eqb (c_inters c) i (fun x => match x with IRpc h => IRpc (f h) | y => y end)).

Definition get_http (c : catalog) (i : iid) : option http_i :=
  match om_get iid_eqb (c_inters c) i with Some (IHttp h) => Some h | _ => None end.
Definition get_rpc (c : catalog) (i : iid) : option rpc_i :=
  match om_get iid_eqb (c_inters c) i with Some (IRpc h) => Some h | _ => None end.

Definition parent_dir (anc : list dtree) : option directive :=
  match anc with a :: _ => Some (tree_dir a) | [] => None end.
Definition parent_kind_is (anc : list dtree) (k : kind) : bool :=
  match parent_dir anc with Some p => kind_eqb (d_kind p) k | None => false end.

Definition schema_of (d : directive) : sdesc :=
  match d_body d with Some c => SBody c | None => SNone end.

Definition set_last_response (h : http_i) (f : response -> response) : http_i :=
  {| hi_annot := hi_annot h; hi_desc := hi_desc h; hi_tags := hi_tags h; hi_query := hi_query h; hi_request := hi_request h;
     hi_responses := (match rev (hi_responses h) with [] => [] | r :: rs => rev (f r :: rs) end);
     hi_pathvars := hi_pathvars h |}.

Section Build.
  (* the one question about schema CONTENT the skeleton needs: the property names of a Path body
     (None = the library rejects it / it is not a flat object) *)
  Variable path_props : coords -> option (list bytes).
  Variable body_text : coords -> bytes.          (* the bytes of a body lexeme *)
  Variable banned : list kind.

  (* run-wide sets of core.JApiCore *)
  Record bstate : Set := {
    b_cat : catalog;
    b_urls : list bytes;                 (* uniqURLPath *)
    b_similar : sp_state;                (* similarPaths *)
    b_protocols : list coords            (* onlyOneProtocolIntoURL: URL directives that already have a Protocol *)
  }.
  Definition with_cat (b : bstate) (c : catalog) : bstate :=
    {| b_cat := c; b_urls := b_urls b; b_similar := b_similar b; b_protocols := b_protocols b |}.

  Definition coords_eqb (a b : coords) : bool := beq (c_file a) (c_file b) && (c_beg a =? c_beg b).

  (* PathParameters + checkSimilarPaths: shared by addURL and addHTTPMethod *)
  Definition check_path (d : directive) (b : bstate) (p : bytes) : cres bstate :=
    match path_parameters_checked p with
    | GPanic w => CPanic w
    | GOk PEmptyParam => kerr d "incorrect empty PATH parameter"
    | GOk (PDup _) => kerr d "parameter is duplicated in the path"
    | GOk (POk pp) =>
      match check_similar_paths (b_similar b) pp with
      | SPOk st => COk {| b_cat := b_cat b; b_urls := b_urls b; b_similar := st; b_protocols := b_protocols b |}
      | SPReject _ _ _ _ => kerr d "similar paths"
      end
    end.

  (* addRequest (shared by Request and by Body under Request) *)
  Definition add_request (d : directive) (anc : list dtree) (b : bstate) : cres bstate :=
    let c := b_cat b in
    if negb (beq (d_annot d) []) then kerr d "annotation is forbidden"
    else
      let sn := named d (bs "SchemaNotation") in
      let typ := named d (bs "Type") in
      if negb (beq sn []) && negb (beq typ []) then kerr d "cannot use the Type and SchemaNotation parameters together"
      else match norm_notation sn with
      | None => kerr d "unknown schema notation"
      | Some n =>
        match http_id d anc with
        | IdErr cls => kerr d cls
        | IdOk i =>
          (* AddRequest: only for the Request directive itself; Update of a missing interaction is a no-op *)
          let c1 := if kind_eqb (d_kind d) KRequest
                    then upd_http c i (fun h => match hi_request h with
                                                | Some _ => h
                                                | None => {| hi_annot := hi_annot h; hi_desc := hi_desc h; hi_tags := hi_tags h; hi_query := hi_query h;
                                                             hi_request := Some {| q_body := None; q_headers := None; q_dir := d |};
                                                             hi_responses := hi_responses h; hi_pathvars := hi_pathvars h |}
                                                end)
                    else c in
          let has_body := match d_body d with Some _ => true | None => false end in
          let add_body (s : sdesc) : cres bstate :=
              match get_http c1 i with
              | None => kerr d "resource not found"
              | Some h =>
                match hi_request h with
                | None => kerr d "request is empty"
                | Some rq =>
                  match q_body rq with
                  | Some _ => kerr d "not a unique directive"
                  | None =>
                    COk (with_cat b (upd_http c1 i (fun h =>
                      {| hi_annot := hi_annot h; hi_desc := hi_desc h; hi_tags := hi_tags h; hi_query := hi_query h;
                         hi_request := Some {| q_body := Some {| b_format := format_of n; b_schema := s |}; q_headers := q_headers rq; q_dir := q_dir rq |};
                         hi_responses := hi_responses h; hi_pathvars := hi_pathvars h |})))
                  end
                end
              end in
          if beq n (bs "jsight") && negb (beq typ []) && negb has_body then add_body (STypeRef typ)
          else if beq n (bs "jsight") && beq typ [] && has_body then add_body (schema_of d)
          else if beq n (bs "regex") && beq typ [] && has_body then add_body (schema_of d)
          else if is_any_or_empty n && negb has_body then add_body SNone
          else if kind_eqb (d_kind d) KBody then kerr d "incorrect request"
          else COk (with_cat b c1)
        end
      end.

  (* addResponse (shared by the response-code directive and by Body under it) *)
  Definition add_response (d : directive) (anc : list dtree) (b : bstate) : cres bstate :=
    let c := b_cat b in
    let sn := named d (bs "SchemaNotation") in
    let typ := named d (bs "Type") in
    if negb (beq sn []) && negb (beq typ []) then kerr d "cannot use the Type and SchemaNotation parameters together"
    else match norm_notation sn with
    | None => kerr d "unknown schema notation"
    | Some n =>
      if kind_eqb (d_kind d) KBody && parent_kind_is anc KHTTPResponseCode && negb (beq typ []) &&
         negb (beq (match parent_dir anc with Some p => named p (bs "Type") | None => [] end) [])
      then kerr d "You cannot specify User Type in the response directive if it has a child Body directive"
      else
        let step1 : cres catalog :=
            if kind_eqb (d_kind d) KHTTPResponseCode then
              match http_id d anc with
              | IdErr cls => kerr d cls
              | IdOk i => COk (upd_http c i (fun h =>
                  {| hi_annot := hi_annot h; hi_desc := hi_desc h; hi_tags := hi_tags h; hi_query := hi_query h; hi_request := hi_request h;
                     hi_responses := hi_responses h ++ [{| r_code := d_keyword d; r_annot := d_annot d; r_body := None; r_headers := None; r_dir := d |}];
                     hi_pathvars := hi_pathvars h |}))
              end
            else COk c in
        step1 >>=c fun c1 =>
        let has_body := match d_body d with Some _ => true | None => false end in
        let add_body (s : sdesc) : cres bstate :=
            match http_id d anc with
            | IdErr cls => kerr d cls
            | IdOk i =>
              match get_http c1 i with
              | None => kerr d "resource not found"
              | Some h =>
                match rev (hi_responses h) with
                | [] => kerr d "responses is empty"
                | last :: _ =>
                  match r_body last with
                  | Some _ => kerr d "not a unique directive"
                  | None => COk (with_cat b (upd_http c1 i (fun h =>
                         set_last_response h (fun r => {| r_code := r_code r; r_annot := r_annot r;
                                                          r_body := Some {| b_format := format_of n; b_schema := s |}; r_headers := r_headers r; r_dir := r_dir r |}))))
                  end
                end
              end
            end in
        if negb (beq typ []) then add_body (STypeRef typ)
        else if has_body then add_body (schema_of d)
        else if is_any_or_empty n then add_body SNone
        else if kind_eqb (d_kind d) KBody then kerr d "body is empty"
        else COk (with_cat b c1)
    end.

  (* addDirective: one case per kind with an adder; Path and the rest: nothing *)
  Definition add_directive (t : dtree) (anc : list dtree) (b : bstate) : cres bstate :=
    let d := tree_dir t in
    let c := b_cat b in
    let k := d_kind d in
    if kind_in k banned then CErr (kw_err d (CENotAllowed k))
    else if kind_eqb k KJsight then
      let v := named d (bs "Version") in
      if beq v [] then kerr d "required parameter"
      else if negb (beq v (bs "0.3")) then kerr d "unsupported version of JSIGHT"
      else if negb (beq (d_annot d) []) then kerr d "annotation is forbidden"
      else if negb (beq (c_jsight c) []) then kerr d "directive JSIGHT gotta be only one time"
      else COk (with_cat b (upd_jsight c v))
    else if kind_eqb k KInfo then
      if negb (match d_named d with [] => true | _ => false end) then kerr d "parameters are forbidden"
      else if negb (beq (d_annot d) []) then kerr d "annotation is forbidden"
      else match c_info c with
           | Some _ => kerr d "directive INFO gotta be only one time"
           | None => COk (with_cat b (upd_info c (Some {| in_title := []; in_version := []; in_desc := None; in_dir := d |})))
           end
    else if kind_eqb k KTitle then
      let v := named d (bs "Title") in
      if beq v [] then kerr d "required parameter"
      else if negb (beq (d_annot d) []) then kerr d "annotation is forbidden"
      else match c_info c with
           | None => CPanic "nil Info"
           | Some i => if negb (beq (in_title i) []) then kerr d "not a unique directive"
                       else COk (with_cat b (upd_info c (Some {| in_title := v; in_version := in_version i; in_desc := in_desc i; in_dir := in_dir i |})))
           end
    else if kind_eqb k KVersion then
      let v := named d (bs "Version") in
      if beq v [] then kerr d "required parameter"
      else if negb (beq (d_annot d) []) then kerr d "annotation is forbidden"
      else match c_info c with
           | None => CPanic "nil Info"
           | Some i => if negb (beq (in_version i) []) then kerr d "not a unique directive"
                       else COk (with_cat b (upd_info c (Some {| in_title := in_title i; in_version := v; in_desc := in_desc i; in_dir := in_dir i |})))
           end
    else if kind_eqb k KDescription then
      if negb (beq (d_annot d) []) then kerr d "annotation is forbidden"
      else match d_body d with
      | None => kerr d "empty description"
      | Some bc =>
        match description (body_text bc) with
        | (_, Some _) => berr d "apart from the opening parenthesis"
        | ([], None) => kerr d "empty description"
        | (text, None) =>
        match parent_dir anc with
        | None => CPanic "nil Parent"
        | Some p =>
          let pk := d_kind p in
          if kind_eqb pk KInfo then
            match c_info c with
            | None => CPanic "nil Info"
            | Some i => match in_desc i with
                        | Some _ => kerr d "not a unique directive"
                        | None => COk (with_cat b (upd_info c (Some {| in_title := in_title i; in_version := in_version i; in_desc := Some text; in_dir := in_dir i |})))
                        end
            end
          else if is_http_method pk then
            match http_id d anc with
            | IdErr cls => kerr d cls
            | IdOk i => match get_http c i with
                        | None => kerr d "resource not found"
                        | Some h => match hi_desc h with
                                    | Some _ => kerr d "not a unique directive"
                                    | None => COk (with_cat b (upd_http c i (fun h =>
                                        {| hi_annot := hi_annot h; hi_desc := Some text; hi_tags := hi_tags h; hi_query := hi_query h;
                                           hi_request := hi_request h; hi_responses := hi_responses h; hi_pathvars := hi_pathvars h |})))
                                    end
                        end
            end
          else if kind_eqb pk KMethod then
            match rpc_id d anc with
            | IdErr cls => kerr d cls
            | IdOk i => match get_rpc c i with
                        | None => kerr d "resource not found"
                        | Some h => match ri_desc h with
                                    | Some _ => kerr d "not a unique directive"
                                    | None => COk (with_cat b (upd_rpc c i (fun h =>
                                        {| ri_annot := ri_annot h; ri_desc := Some text; ri_tags := ri_tags h; ri_params := ri_params h; ri_result := ri_result h |})))
                                    end
                        end
            end
          else if kind_eqb pk KTAG then
            let n := named p (bs "TagName") in
            match om_get beq (c_tags c) n with
            | None => kerr d "tag not found"
            | Some t => match t_desc t with
                        | Some _ => kerr d "not a unique directive"
                        | None => COk (with_cat b (upd_tags c (om_update beq (c_tags c) n (fun t =>
                                   {| t_title := t_title t; t_desc := Some text; t_http := t_http t; t_rpc := t_rpc t; t_auto := t_auto t |}))))
                        end
            end
          else kerr d "wrong description context"
        end
        end
      end
    else if kind_eqb k KServer then
      let n := named d (bs "Name") in
      if beq n [] then kerr d "required parameter"
      else if om_has beq (c_servers c) n then kerr d "duplicate names"
      else COk (with_cat b (upd_servers c (c_servers c ++ [(n, {| s_annot := d_annot d; s_base := [] |})])))
    else if kind_eqb k KBaseURL then
      let p := named d (bs "Path") in
      if beq p [] then kerr d "required parameter"
      else if negb (beq (d_annot d) []) then kerr d "annotation is forbidden"
      else match parent_dir anc with
      | None => CPanic "nil Parent"
      | Some srv =>
        let n := named srv (bs "Name") in
        match om_get beq (c_servers c) n with
        | None => kerr d "server not found"
        | Some s => if negb (beq (s_base s) []) then kerr d "BaseURL already defined"
                    else COk (with_cat b (upd_servers c (om_update beq (c_servers c) n (fun s => {| s_annot := s_annot s; s_base := p |}))))
        end
      end
    else if kind_eqb k KType then
      let n := named d (bs "Name") in
      if beq n [] then kerr d "required parameter"
      else if om_has beq (c_types c) n then kerr d "duplicate names"
      else match norm_notation (named d (bs "SchemaNotation")) with
      | None => kerr d "unknown schema notation"
      | Some nt =>
        if (beq nt (bs "jsight") || beq nt (bs "regex")) && (match d_body d with None => true | Some _ => false end)
        then kerr d "empty body"
        else COk (with_cat b (upd_types c (c_types c ++ [(n, {| ut_annot := d_annot d; ut_notation := nt; ut_schema := schema_of d |})])))
      end
    else if kind_eqb k KURL then
      if negb (beq (d_annot d) []) then kerr d "annotation is forbidden"
      else match path_of d anc with
      | PathNotFound => kerr d "path not found"
      | PathIncorrect => kerr d "incorrect path"
      | PathOk p =>
        check_path d b p >>=c fun b1 =>
        if existsb (beq p) (b_urls b1) then kerr d "non-unique path"
        else
          let b2 := {| b_cat := b_cat b1; b_urls := p :: b_urls b1; b_similar := b_similar b1; b_protocols := b_protocols b1 |} in
          (* checkJsonRpcUrlChildCompatible *)
          let is_rpc (t : dtree) := kind_eqb (d_kind (tree_dir t)) KProtocol || kind_eqb (d_kind (tree_dir t)) KMethod in
          (* Tags children apply to HTTP and JSON-RPC methods alike: they are skipped *)
          match filter (fun x => negb (kind_eqb (d_kind (tree_dir x)) KTags)) (tree_kids t) with
          | [] => COk b2
          | first :: rest =>
            match find (fun x => negb (Bool.eqb (is_rpc x) (is_rpc first))) rest with
            | Some bad => kerr (tree_dir bad) "cannot be within the same URL directive"
            | None => COk b2
            end
          end
      end
    else if is_http_method k then
      match path_of d anc with
      | PathNotFound => kerr d "path not found"
      | PathIncorrect => kerr d "incorrect path"
      | PathOk p =>
        check_path d b p >>=c fun b1 =>
        let c1 := b_cat b1 in
        let i := {| i_proto := PHttp; i_method := method_name k; i_path := p |} in
        if om_has iid_eqb (c_inters c1) i then kerr d "method is already defined"
        else
          tags_for t anc i (c_tags c1) >>=c fun tg =>
          let h := {| hi_annot := d_annot d; hi_desc := None; hi_tags := fst tg; hi_query := None; hi_request := None;
                      hi_responses := []; hi_pathvars := [] |} in
          COk (with_cat b1 (upd_inters (upd_tags c1 (snd tg)) (c_inters c1 ++ [(i, IHttp h)])))
      end
    else if kind_eqb k KQuery then
      if negb (beq (d_annot d) []) then kerr d "annotation is forbidden"
      else match d_body d with
      | None => kerr d "empty body"
      | Some _ =>
        let fmt := named d (bs "Format") in
        let q := {| qu_format := (if beq fmt [] then bs "htmlFormEncoded" else fmt); qu_example := named d (bs "QueryExample"); qu_schema := schema_of d |} in
        match http_id d anc with
        | IdErr cls => kerr d cls
        | IdOk i => match get_http c i with
                    | None => kerr d "resource not found"
                    | Some h => match hi_query h with
                                | Some _ => kerr d "not a unique directive"
                                | None => COk (with_cat b (upd_http c i (fun h =>
                                    {| hi_annot := hi_annot h; hi_desc := hi_desc h; hi_tags := hi_tags h; hi_query := Some q;
                                       hi_request := hi_request h; hi_responses := hi_responses h; hi_pathvars := hi_pathvars h |})))
                                end
                    end
        end
      end
    else if kind_eqb k KRequest then add_request d anc b
    else if kind_eqb k KHTTPResponseCode then add_response d anc b
    else if kind_eqb k KHeaders then
      if negb (beq (d_annot d) []) then kerr d "annotation is forbidden"
      else match d_body d with
      | None => kerr d "empty body"
      | Some _ =>
        if parent_kind_is anc KRequest then
          match http_id d anc with
          | IdErr cls => kerr d cls
          | IdOk i => match get_http c i with
                      | None => kerr d "resource not found"
                      | Some h => match hi_request h with
                                  | None => kerr d "request is empty"
                                  | Some rq => match q_headers rq with
                                               | Some _ => kerr d "not a unique directive"
                                               | None => COk (with_cat b (upd_http c i (fun h =>
                                                   {| hi_annot := hi_annot h; hi_desc := hi_desc h; hi_tags := hi_tags h; hi_query := hi_query h;
                                                      hi_request := Some {| q_body := q_body rq; q_headers := Some (schema_of d); q_dir := q_dir rq |};
                                                      hi_responses := hi_responses h; hi_pathvars := hi_pathvars h |})))
                                               end
                                  end
                      end
          end
        else if parent_kind_is anc KHTTPResponseCode then
          match http_id d anc with
          | IdErr cls => kerr d cls
          | IdOk i => match get_http c i with
                      | None => kerr d "resource not found"
                      | Some h => match rev (hi_responses h) with
                                  | [] => kerr d "responses is empty"
                                  | r :: _ => match r_headers r with
                                              | Some _ => kerr d "not a unique directive"
                                              | None => COk (with_cat b (upd_http c i (fun h =>
                                                  set_last_response h (fun r => {| r_code := r_code r; r_annot := r_annot r; r_body := r_body r; r_headers := Some (schema_of d); r_dir := r_dir r |}))))
                                              end
                                  end
                      end
          end
        else kerr d "incorrect directive context"
      end
    else if kind_eqb k KBody then
      match parent_dir anc with
      | None => CPanic "nil Parent"
      | Some p =>
        if negb (match d_named p with [] => true | _ => false end) && negb (kind_eqb (d_kind p) KMacro)
        then kerr p "parameters are unacceptable, according to the Body directive"
        else if kind_eqb (d_kind p) KRequest then add_request d anc b
        else if kind_eqb (d_kind p) KHTTPResponseCode then add_response d anc b
        else COk b
      end
    else if kind_eqb k KProtocol then
      if negb (beq (d_annot d) []) then kerr d "annotation is forbidden"
      else let pn := named d (bs "ProtocolName") in
      if beq pn [] then kerr d "required parameter"
      else if negb (beq pn (bs "json-rpc-2.0")) then kerr d "the parameter value have to be"
      else match parent_dir anc with
      | None => CPanic "nil map key is fine in Go: d.Parent == nil"   (* unreachable: Protocol is only admitted under URL *)
      | Some p =>
        if existsb (coords_eqb (d_kw p)) (b_protocols b) then kerr d "the directive Protocol must be unique"
        else COk {| b_cat := c; b_urls := b_urls b; b_similar := b_similar b; b_protocols := d_kw p :: b_protocols b |}
      end
    else if kind_eqb k KMethod then
      if beq (named d (bs "MethodName")) [] then kerr d "required parameter"
      else match anc with
      | [] => CPanic "nil Parent"
      | a :: _ =>
        if negb (existsb (fun x => kind_eqb (d_kind (tree_dir x)) KProtocol) (tree_kids a)) then kerr d "the directive Protocol was not found"
        else match rpc_id d anc with
        | IdErr cls => kerr d cls
        | IdOk i =>
          if om_has iid_eqb (c_inters c) i then kerr d "method is already defined"
          else
            tags_for t anc i (c_tags c) >>=c fun tg =>
            let r := {| ri_annot := d_annot d; ri_desc := None; ri_tags := fst tg; ri_params := None; ri_result := None |} in
            COk (with_cat b (upd_inters (upd_tags c (snd tg)) (c_inters c ++ [(i, IRpc r)])))
        end
      end
    else if kind_eqb k KParams || kind_eqb k KResult then
      if negb (beq (d_annot d) []) then kerr d "annotation is forbidden"
      else match d_body d with
      | None => kerr d "empty body"
      | Some _ =>
        match rpc_id d anc with
        | IdErr cls => kerr d cls
        | IdOk i => match get_rpc c i with
                    | None => kerr d "resource not found"
                    | Some h =>
                      if kind_eqb k KParams then
                        match ri_params h with
                        | Some _ => kerr d "not a unique directive"
                        | None => COk (with_cat b (upd_rpc c i (fun h => {| ri_annot := ri_annot h; ri_desc := ri_desc h; ri_tags := ri_tags h; ri_params := Some (schema_of d); ri_result := ri_result h |})))
                        end
                      else
                        match ri_result h with
                        | Some _ => kerr d "not a unique directive"
                        | None => COk (with_cat b (upd_rpc c i (fun h => {| ri_annot := ri_annot h; ri_desc := ri_desc h; ri_tags := ri_tags h; ri_params := ri_params h; ri_result := Some (schema_of d) |})))
                        end
                    end
        end
      end
    else if kind_eqb k KTags then
      (* addTags -> CheckTags: checked where it stands, whether or not a method takes its tags from it *)
      tags_from_directive d None (c_tags c) >>=c fun _ => COk b
    else COk b.

  (* addDirectiveBranch: pre-order *)
  Fixpoint add_branch (t : dtree) (anc : list dtree) (b : bstate) {struct t} : cres bstate :=
    add_directive t anc b >>=c fun b1 =>
    (fix go (ks : list dtree) (b2 : bstate) : cres bstate :=
       match ks with
       | [] => COk b2
       | k :: r => add_branch k (t :: anc) b2 >>=c go r
       end) (tree_kids t) b1.

  Fixpoint add_all (ts : list dtree) (b : bstate) : cres bstate :=
    match ts with
    | [] => COk b
    | t :: r => add_branch t [] b >>=c add_all r
    end.

  (* collectTags: top-level TAG directives of the expanded forest *)
  Fixpoint collect_tags (ts : list dtree) (tags : list (bytes * tag)) : cres (list (bytes * tag)) :=
    match ts with
    | [] => COk tags
    | t :: r =>
      let d := tree_dir t in
      if kind_eqb (d_kind d) KTAG then
        let n := named d (bs "TagName") in
        if beq n [] then kerr d "required parameter"
        else if om_has beq tags n then kerr d "duplicate names"
        else collect_tags r (tags ++ [(n, {| t_title := (if beq (d_annot d) [] then n else d_annot d); t_desc := None; t_http := []; t_rpc := []; t_auto := false |})])
      else collect_tags r tags
    end.

  (* collectRules over the top-level list AFTER paste expansion: ENUM names in document order *)
  Fixpoint collect_enums (ts : list dtree) (enums : list (bytes * bytes)) : cres (list (bytes * bytes)) :=
    match ts with
    | [] => COk enums
    | t :: r =>
      let d := tree_dir t in
      if kind_eqb (d_kind d) KEnum then
        let n := named d (bs "Name") in
        if beq n [] then kerr d "required parameter"
        else match d_body d with
             | None => collect_enums r enums
             | Some _ => if om_has beq enums n then kerr d "duplicate names" else collect_enums r (enums ++ [(n, d_annot d)])
             end
      else collect_enums r enums
    end.

  (* collectPaths / collectPathVariables: (Path directive, parent coords, path, parameters, property names) *)
  Record rawpv : Set := { pv_dir : directive; pv_parent : coords; pv_params : list (bytes * bytes); pv_props : list bytes }.

  (* [dup]: an earlier Path directive was collected for the same parent node *)
  Fixpoint collect_paths (t : dtree) (anc : list dtree) (dup : bool) (acc : list rawpv) {struct t} : cres (list rawpv) :=
    let d := tree_dir t in
    if kind_eqb (d_kind d) KMacro then COk acc
    else
      (if kind_eqb (d_kind d) KPath then
         if negb (beq (d_annot d) []) then kerr d "annotation is forbidden"
         else match d_body d with
         | None => kerr d "there is no body for the Path directive"
         | Some bc =>
           match path_of d anc with
           | PathNotFound => kerr d "path not found"
           | PathIncorrect => kerr d "incorrect path"
           | PathOk p =>
             match path_parameters_checked p with
             | GPanic w => CPanic w
             | GOk PEmptyParam => kerr d "incorrect empty PATH parameter"
             | GOk (PDup _) => kerr d "parameter is duplicated in the path"
             | GOk (POk pp) =>
               match parent_dir anc with
               | None => kerr d "parent directive not found"
               | Some par =>
                 if dup then kerr d "not a unique directive"
                 else match path_props bc with
                      | None => kerr d "library"    (* the schema library decides *)
                      | Some props => COk (acc ++ [{| pv_dir := d; pv_parent := d_kw par; pv_params := pp; pv_props := props |}])
                      end
               end
             end
           end
         end
       else COk acc) >>=c fun acc1 =>
      (fix go (ks : list dtree) (seen : bool) (a : list rawpv) : cres (list rawpv) :=
         match ks with
         | [] => COk a
         | k :: r => collect_paths k (t :: anc) seen a >>=c go r (seen || kind_eqb (d_kind (tree_dir k)) KPath)
         end) (tree_kids t) false acc1.

  Fixpoint collect_paths_all (ts : list dtree) (acc : list rawpv) : cres (list rawpv) :=
    match ts with [] => COk acc | t :: r => collect_paths t [] false acc >>=c collect_paths_all r end.

  (* BuildResourceMethodsPathVariables: prefix -> property name that is bound there *)
  Fixpoint bind_one (params : list (bytes * bytes)) (props : list bytes) (all : list (bytes * bytes)) (d : directive)
    : cres (list bytes * list (bytes * bytes)) :=
    match params with
    | [] => COk (props, all)
    | (prefix, name) :: r =>
      if existsb (beq name) props then
        if om_has beq all prefix then kerr d "has already been defined earlier"
        else bind_one r (filter (fun x => negb (beq x name)) props) (all ++ [(prefix, name)]) d
      else bind_one r props all d
    end.

  Fixpoint bind_all (pvs : list rawpv) (all : list (bytes * bytes)) : cres (list (bytes * bytes)) :=
    match pvs with
    | [] => COk all
    | v :: r =>
      bind_one (pv_params v) (pv_props v) all (pv_dir v) >>=c fun x =>
      match fst x with
      | [] => bind_all r (snd x)
      | _ => kerr (pv_dir v) "Has unused parameters"
      end
    end.

  Definition path_vars_of (all : list (bytes * bytes)) (path : bytes) : list bytes :=
    match path_parameters path with
    | GOk pp => flat_map (fun x => if om_has beq all (fst x) then [snd x] else []) pp
    | GPanic _ => []
    end.

  Definition set_pathvars (c : catalog) (all : list (bytes * bytes)) : catalog :=
    upd_inters c (map (fun e => match snd e with
                                | IHttp h => (fst e, IHttp {| hi_annot := hi_annot h; hi_desc := hi_desc h; hi_tags := hi_tags h; hi_query := hi_query h;
                                                               hi_request := hi_request h; hi_responses := hi_responses h;
                                                               hi_pathvars := path_vars_of all (i_path (fst e)) |})
                                | x => (fst e, x)
                                end) (c_inters c)).

  (* validateCatalog without the schema-content checks *)
  (* first HTTP interaction (in order) whose request has no body / with a response without body *)
  Fixpoint first_bad_request (l : list (iid * interaction)) : option directive :=
    match l with
    | [] => None
    | (_, IHttp h) :: r =>
      match hi_request h with
      | Some rq => match q_body rq with None => Some (q_dir rq) | Some _ => first_bad_request r end
      | None => first_bad_request r
      end
    | _ :: r => first_bad_request r
    end.
  Fixpoint first_bad_response (l : list (iid * interaction)) : option directive :=
    match l with
    | [] => None
    | (_, IHttp h) :: r =>
      match find (fun x => match r_body x with None => true | Some _ => false end) (hi_responses h) with
      | Some x => Some (r_dir x)
      | None => first_bad_response r
      end
    | _ :: r => first_bad_response r
    end.

  Definition validate (c : catalog) : cres catalog :=
    match c_info c with
    | Some i => if beq (in_title i) [] && beq (in_version i) [] && (match in_desc i with None => true | Some _ => false end)
                then kerr (in_dir i) "empty info" else COk c
    | None => COk c
    end >>=c fun c =>
    match first_bad_request (c_inters c) with
    | Some d => kerr d "undefined request body"
    | None =>
      match first_bad_response (c_inters c) with
      | Some d => kerr d "undefined response body"
      | None => COk c
      end
    end.

  (* collectUserTypes: a second TYPE with a name already taken is reported where it stands, before the
     types are compiled; TYPE directives without a name are left to addType *)
  Fixpoint check_dup_types (ts : list dtree) (seen : list bytes) : cres unit :=
    match ts with
    | [] => COk tt
    | t :: r =>
      let d := tree_dir t in
      if kind_eqb (d_kind d) KType then
        let n := named d (bs "Name") in
        if beq n [] then check_dup_types r seen
        else if existsb (beq n) seen then kerr d "duplicate names"
        else check_dup_types r (n :: seen)
      else check_dup_types r seen
    end.

  (* compileCore (after expansion) + buildCatalog + path variables + validate.
     [post] = expanded forest *)
  Definition build (post : list dtree) : cres catalog :=
    collect_enums post [] >>=c fun en =>
    collect_tags post [] >>=c fun tg =>
    check_dup_types post [] >>=c fun _ =>
    collect_paths_all post [] >>=c fun pvs =>
    match post with
    | first :: _ =>
      if negb (kind_eqb (d_kind (tree_dir first)) KJsight) then kerr (tree_dir first) "JSIGHT should be the first directive"
      else
        add_all post {| b_cat := upd_tags (upd_enums empty_catalog en) tg; b_urls := []; b_similar := []; b_protocols := [] |} >>=c fun b =>
        bind_all pvs [] >>=c fun all =>
        validate (set_pathvars (b_cat b) all)
    | [] =>
      bind_all pvs [] >>=c fun all => validate (upd_tags (upd_enums empty_catalog en) tg)
    end.
End Build.
