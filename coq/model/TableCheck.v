(* Boolean checkers over the REGENERATED scanner table (gen/ScannerTable.v) relative to a
   typing of the states (gen/ScannerTyping.v, inferred by untrusted code in go2coq).
   Only these checkers and their soundness proofs (proofs/TableMeta.v) are trusted; a typing
   that does not fit the table simply makes [table_ok] evaluate to false.
   Definitions only. *)
From Coq Require Import List NArith ZArith Bool String.
From JV.lib Require Import Bytes.
From JV.gen Require Import ScannerTable.
From JV.model Require Import ScannerSem.
Import ListNotations.
Open Scope N_scope.

Record typing : Type := {
  needs : state -> bool;            (* the state pops the step stack, so it needs a valid non-empty one *)
  allowed : state -> list state;    (* states that may be on top of the stack while in this state *)
  lexopen : state -> option evt;    (* begin event of the lexeme that is open in this state *)
  gap : state -> Z;                 (* lower bound of curIndex - frontier of the emitted events *)
  minpos : state -> Z;              (* lower bound of curIndex *)
  rho : state -> Z                  (* termination potential *)
}.

Definition state_eqb (a b : state) : bool := state_idx a =? state_idx b.
Definition state_in (s : state) (l : list state) : bool := existsb (state_eqb s) l.
Definition subset (a b : list state) : bool := forallb (fun s => state_in s b) a.

Definition opt_evt_eqb (a b : option evt) : bool :=
  match a, b with
  | None, None => true
  | Some x, Some y => evt_eqb x y
  | _, _ => false
  end.

Fixpoint tree_uses_prev (t : tree) : bool :=
  match t with
  | Leaf _ _ => false
  | Node (CPrevIs _) _ _ => true
  | Node _ a b => tree_uses_prev a || tree_uses_prev b
  end.

(* every leaf the byte c can reach, whatever the context predicates say *)
Fixpoint leaves_for (t : tree) (c : N) : list (list act * exit) :=
  match t with
  | Leaf a x => [(a, x)]
  | Node (CByteIn l) a b => if in_set l c then leaves_for a c else leaves_for b c
  | Node _ a b => leaves_for a c ++ leaves_for b c
  end.

Section Check.
  Variable ty : typing.

  (* [valid st0 s -> valid t s] for every stack s *)
  Definition sub_ok (st0 t : state) : bool :=
    state_eqb t st0 || negb (needs ty t) || (needs ty st0 && subset (allowed ty st0) (allowed ty t)).

  (* ---- pass S: the step stack.  At most one stack action per leaf; a pop is the last
          action that touches the register. ---- *)
  Inductive stk_eff : Set := SE_none | SE_push (s : state) | SE_pop.

  Definition sstep (st0 : state) (a : state * stk_eff) (x : act) : option (state * stk_eff) :=
    let (r, e) := a in
    match x, e with
    | ASetStep t, SE_pop => None
    | ASetStep t, _ => Some (t, e)
    | APush s, SE_none => Some (r, SE_push s)
    | APushCur, SE_none => Some (r, SE_push r)
    | APop, SE_none => if needs ty st0 then Some (r, SE_pop) else None
    | APush _, _ | APushCur, _ | APop, _ => None
    | _, _ => Some a
    end.

  Fixpoint sfold (st0 : state) (a : state * stk_eff) (l : list act) : option (state * stk_eff) :=
    match l with
    | [] => Some a
    | x :: r => match sstep st0 a x with Some a' => sfold st0 a' r | None => None end
    end.

  Definition targets_of (st0 : state) (a : state * stk_eff) : list state :=
    match snd a with
    | SE_pop => allowed ty st0
    | _ => [fst a]
    end.

  Definition stack_final (st0 : state) (a : state * stk_eff) : bool :=
    match snd a with
    | SE_none => sub_ok st0 (fst a)
    | SE_push s => negb (needs ty (fst a)) || (state_in s (allowed ty (fst a)) && sub_ok st0 s)
    | SE_pop => true
    end.

  (* ---- pass E: lexeme events and positions ---- *)
  Record est : Set := { e_open : option evt; e_gap : Z; e_pos : Z; e_read : bool }.

  Definition estep (c : N) (a : est) (x : act) : option est :=
    match x with
    | AFound back e =>
      let b := Z.of_N back in
      if e_read a then None
      else if negb (b <=? e_pos a)%Z then None
      else if evt_in e evt_beginning then
        match e_open a with
        | None => if (b <=? e_gap a)%Z then Some {| e_open := Some e; e_gap := b; e_pos := e_pos a; e_read := false |} else None
        | Some _ => None
        end
      else if evt_in e evt_ending then
        match e_open a with
        | Some bg =>
          if pair_ok bg e && (b <=? e_gap a + 1)%Z && ((negb (c =? 0)) || (1 <=? b)%Z)
          then Some {| e_open := None; e_gap := b - 1; e_pos := e_pos a; e_read := false |} else None
        | None => None
        end
      else if evt_in e evt_single then
        match e_open a with
        | None =>
          if (b <=? e_gap a)%Z && ((negb (c =? 0)) || (1 <=? b)%Z)
          then Some {| e_open := None; e_gap := b - 1; e_pos := e_pos a; e_read := false |} else None
        | Some _ => None
        end
      else None
    | ARewind n =>
      let z := Z.of_N n in
      if (z <=? e_pos a)%Z then Some {| e_open := e_open a; e_gap := e_gap a - z; e_pos := e_pos a - z; e_read := e_read a |} else None
    | AReadSchema | AReadEnum => Some {| e_open := e_open a; e_gap := e_gap a; e_pos := e_pos a; e_read := true |}
    | _ => Some a
    end.

  Fixpoint efold (c : N) (a : est) (l : list act) : option est :=
    match l with
    | [] => Some a
    | x :: r => match estep c a x with Some a' => efold c a' r | None => None end
    end.

  (* ---- pass R: total rewind ---- *)
  Fixpoint rewind_total (l : list act) : Z :=
    match l with
    | [] => 0%Z
    | ARewind n :: r => (Z.of_N n + rewind_total r)%Z
    | _ :: r => rewind_total r
    end.

  Definition MAXACTS : nat := 6.
  Definition KPOT : Z := 6%Z.
  Definition RHO_MAX : Z := 60%Z.

  Definition bump (x : exit) : Z := match x with XNil => 1%Z | _ => 0%Z end.

  (* after the end-of-file pseudo byte nothing more is dispatched (unless the leaf
     rewinds): the typing of the target state is not needed *)
  Definition exempt (c : N) (acts : list act) (x : exit) : bool :=
    (c =? 0) && (match x with XNil => true | _ => false end) && (rewind_total acts =? 0)%Z.

  (* a re-dispatch handles the same byte at the same position *)
  Definition redo_ok (acts : list act) (x : exit) (ea : est) : bool :=
    match x with XRedo => (rewind_total acts =? 0)%Z && negb (e_read ea) | _ => true end.

  Definition target_ok (st0 : state) (acts : list act) (x : exit) (ea : est) (t : state) : bool :=
    opt_evt_eqb (lexopen ty t) (e_open ea) &&
    (gap ty t <=? e_gap ea + bump x)%Z &&
    (minpos ty t <=? e_pos ea + bump x)%Z &&
    (rho ty t + KPOT * rewind_total acts + 1 <=? rho ty st0 + KPOT * bump x)%Z.

  Definition ast0 (st : state) : est :=
    {| e_open := lexopen ty st; e_gap := gap ty st; e_pos := minpos ty st; e_read := false |}.

  Definition leaf_ok (st0 : state) (c : N) (lf : list act * exit) : bool :=
    match sfold st0 (st0, SE_none) (fst lf), efold c (ast0 st0) (fst lf) with
    | Some sa, Some ea =>
      (List.length (fst lf) <=? MAXACTS)%nat &&
      match snd lf with
      | XErr _ => true
      | x =>
        exempt c (fst lf) x ||
        (stack_final st0 sa && redo_ok (fst lf) x ea &&
         forallb (target_ok st0 (fst lf) x ea) (targets_of st0 sa))
      end
    | _, _ => false
    end.

  Definition state_ok (st : state) (c : N) : bool :=
    (negb (tree_uses_prev (step_tree st)) || (1 <=? minpos ty st)%Z) &&
    forallb (leaf_ok st c) (leaves_for (step_tree st) c).

  Definition all_byte_values : list N := map N.of_nat (seq 0 256).

  Definition typing_sane : bool :=
    forallb (fun st => (0 <=? rho ty st)%Z && (rho ty st <=? RHO_MAX)%Z && (0 <=? minpos ty st)%Z) all_states.

  Definition init_ok : bool :=
    negb (needs ty initial_state) && opt_evt_eqb (lexopen ty initial_state) None &&
    (gap ty initial_state <=? 0)%Z && (minpos ty initial_state <=? 0)%Z.

  (* every ending / single event has a lexeme kind (ToLexemeType does not panic on it) *)
  Definition events_decl_ok : bool :=
    forallb (fun e => negb (evt_in e evt_ending || evt_in e evt_single) ||
                      match evt_lexkind e with Some _ => true | None => false end) all_evts.

  Definition table_ok : bool :=
    typing_sane && init_ok && events_decl_ok &&
    forallb (fun st => forallb (state_ok st) all_byte_values) all_states.

  (* first offending (state, byte, leaf) for diagnosis *)
  Definition find_bad : option (state * N * (list act * exit)) :=
    let bad st c := find (fun lf => negb (leaf_ok st c lf)) (leaves_for (step_tree st) c) in
    let per_state st :=
        fold_left (fun acc c => match acc with Some _ => acc | None =>
                     match bad st c with Some lf => Some (st, c, lf) | None => None end end)
                  all_byte_values None in
    fold_left (fun acc st => match acc with Some _ => acc | None => per_state st end) all_states None.
End Check.
