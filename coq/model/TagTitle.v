(* Hand-written model of catalog.pathTagTitle (catalog/tag.go).  Definitions only.

     func pathTagTitle(path string) string {
         p := strings.Split(path, "/")
         for len(p) != 0 {
             if p[0] != "" && p[0] != "." { break }
             p = p[1:]
         }
         if len(p) == 0 { return "/" }
         return "/" + p[0]
     }

   Tied to the Go function by the correspondence check `pathtagtitle` (verifsys/checks/c19.py). *)
From Coq Require Import List NArith Bool.
From JV.lib Require Import Bytes.
Import ListNotations.
Open Scope N_scope.

(* the loop condition `p[0] == "" || p[0] == "."` *)
Definition seg_skipped (p : bytes) : bool := beq p [] || beq p [46].

(* the loop: drop leading pieces while they are "" or "."; what is left is p *)
Fixpoint drop_skipped (l : list bytes) : list bytes :=
  match l with
  | [] => []
  | p :: ps => if seg_skipped p then drop_skipped ps else l
  end.

(* p[0] after the loop, if any *)
Definition first_segment (path : bytes) : option bytes :=
  match drop_skipped (split_byte 47 path) with
  | [] => None
  | p :: _ => Some p
  end.

Definition pathTagTitle (path : bytes) : bytes :=
  match first_segment path with
  | None => [47]
  | Some p => 47 :: p
  end.
