(* C15 — hand model of the text normalisers.  DEFINITIONS ONLY.

   Go sources modelled, line by line:
     /repo/core/description.go     description, descriptionRemoveParentheses, longestWhitespacePrefix
     /repo/catalog/annotation.go   Annotation  (strings.TrimSpace + regexp `\s+` -> " ")
   Stdlib semantics taken from $GOROOT/src/bytes/bytes.go, strings/strings.go, unicode/graphic.go,
   regexp/syntax/perl_groups.go (go1.23):
     bytes.TrimSpace / strings.TrimSpace   trim leading and trailing runes r with unicode.IsSpace(r):
        ASCII  \t \n \v \f \r ' '   and the UTF-8 encodings of U+0085 U+00A0 U+1680 U+2000..U+200A
        U+2028 U+2029 U+202F U+205F U+3000.  A rune is only recognised in its canonical encoding
        (utf8.DecodeRune / DecodeLastRune give RuneError, which is not a space, for anything else), so
        trimming is "strip one of these byte sequences from the left while possible, then from the
        right while possible".  This is modelled in full (not only the ASCII part).
     regexp \s                              exactly [\t\n\f\r ]  (NOT \v, not U+0085/U+00A0)
     bytes.Trim/TrimLeft/TrimRight(cutset)  ASCII cutsets only are used: lib/Bytes trim_left/trim_right/trim
     bytes.Split(b, "\n")                   lib/Bytes split_byte 10 (always at least one piece)
     bytes.Join(lines, "\n")                lib/Bytes join_byte 10
     bytes.ReplaceAll                       lib/Bytes replace_all (non-empty old)
     bytes.HasPrefix / TrimPrefix           lib/Bytes has_prefix / trim_prefix
   Values of type N above 255 are not bytes; the functions are total on them and treat them as
   ordinary non-space bytes. *)
From Coq Require Import List NArith Bool String.
From JV.lib Require Import Bytes.
Import ListNotations.
Open Scope N_scope.

(* ---------------------------------------------------------------------------------- *)
(* unicode.IsSpace in UTF-8 *)

(* var asciiSpace = [256]uint8{'\t': 1, '\n': 1, '\v': 1, '\f': 1, '\r': 1, ' ': 1} *)
Definition ascii_space (c : N) : bool := in_set [9; 10; 11; 12; 13; 32] c.

(* canonical UTF-8 encodings of the non-ASCII runes with unicode.IsSpace *)
Definition uspace_seqs : list bytes :=
  [ [194; 133];            (* U+0085 NEL  *)
    [194; 160];            (* U+00A0 NBSP *)
    [225; 154; 128];       (* U+1680 *)
    [226; 128; 128]; [226; 128; 129]; [226; 128; 130]; [226; 128; 131]; [226; 128; 132];
    [226; 128; 133]; [226; 128; 134]; [226; 128; 135]; [226; 128; 136]; [226; 128; 137];
    [226; 128; 138];       (* U+2000 .. U+200A *)
    [226; 128; 168]; [226; 128; 169];   (* U+2028 U+2029 *)
    [226; 128; 175];       (* U+202F *)
    [226; 129; 159];       (* U+205F *)
    [227; 128; 128] ].     (* U+3000 *)

(* length of the first sequence of [seqs] that is a prefix of s, 0 if none *)
Fixpoint match_len (seqs : list bytes) (s : bytes) : nat :=
  match seqs with
  | [] => O
  | q :: qs => if has_prefix q s then List.length q else match_len qs s
  end.

(* number of bytes of the white-space rune s starts with (0: s does not start with one) *)
Definition space_len (seqs : list bytes) (s : bytes) : nat :=
  match s with
  | [] => O
  | c :: _ => if ascii_space c then 1%nat else match_len seqs s
  end.

(* bytes.TrimLeftFunc(s, unicode.IsSpace); fuel = len(s) is always enough *)
Fixpoint strip_spaces (seqs : list bytes) (fuel : nat) (s : bytes) : bytes :=
  match fuel with
  | O => s
  | S f =>
    match space_len seqs s with
    | O => s
    | n => strip_spaces seqs f (skipn n s)
    end
  end.

Definition trim_space_left (s : bytes) : bytes := strip_spaces uspace_seqs (List.length s) s.
(* bytes.TrimRightFunc(s, unicode.IsSpace): the same on the reversed string with reversed sequences
   (utf8.DecodeLastRune yields a space rune exactly when one of the sequences is a suffix) *)
Definition trim_space_right (s : bytes) : bytes :=
  rev (strip_spaces (map (@rev N) uspace_seqs) (List.length s) (rev s)).
(* bytes.TrimSpace / strings.TrimSpace *)
Definition trim_space (s : bytes) : bytes := trim_space_right (trim_space_left s).

(* ---------------------------------------------------------------------------------- *)
(* core/description.go *)

(* jerr.ApartFromTheOpeningParenthesis *)
Definition err_apart : bytes :=
  bs "apart from the opening parenthesis, there should be nothing else on this line".

(* scanner.IsNewLine: c == '\n' || c == '\r' *)
Definition is_newline (c : N) : bool := (c =? 10) || (c =? 13).

(* len(bb) >= 2 && bb[0] == '(' && bb[len(bb)-1] == ')' *)
Definition paren_shape (bb : bytes) : bool :=
  Nat.leb 2 (List.length bb) && (hd 0 bb =? 40) && (last bb 0 =? 41).

(* the test descriptionRemoveParentheses makes on its argument *)
Definition wrapped (b : bytes) : bool := paren_shape (trim_space b).

(* func descriptionRemoveParentheses(b []byte) ([]byte, error) *)
Definition remove_parens (b : bytes) : bytes * option bytes :=
  let bb := trim_space b in                                  (* bb := bytes.TrimSpace(b) *)
  if paren_shape bb then                                     (* if len(bb) >= 2 && bb[0] == '(' && ... *)
    let bb1 := removelast (tl bb) in                         (*   bb = bb[1 : len(bb)-1] *)
    let bb2 := trim (in_set [32; 9]) bb1 in                  (*   bb = bytes.Trim(bb, " \t") *)
    if match bb2 with [] => true | _ => false end            (*   if len(bb) == 0 || *)
       || negb (is_newline (hd 0 bb2))                       (*      !scanner.IsNewLine(bb[0]) || *)
       || negb (is_newline (last bb2 0))                     (*      !scanner.IsNewLine(bb[len(bb)-1]) *)
    then (bb2, Some err_apart)                               (*     return bb, errors.New(...) *)
    else (trim (in_set [13; 10]) bb2, None)                  (*   return bytes.Trim(bb, "\r\n"), nil *)
  else (b, None).                                            (* return b, nil *)

Definition is_ws (c : N) : bool := (c =? 9) || (c =? 32).

(* first loop of longestWhitespacePrefix on bb[0]:
     for i := 0; i < len(bb[0]); i++ {
       if bb[0][i] != '\t' && bb[0][i] != ' ' || i == len(bb[0])-1 { prefix = bb[0][:i]; break } }
   i.e. the leading run of tabs/spaces, but never the last byte of the line (the quirk). *)
Fixpoint lead_ws (l : bytes) : bytes :=
  match l with
  | [] => []                                       (* loop body never runs: prefix stays empty *)
  | c :: l' =>
    match l' with
    | [] => []                                     (* i == len(bb[0])-1 : prefix = bb[0][:i] *)
    | _ :: _ => if is_ws c then c :: lead_ws l'    (* space or tab, not last: next i *)
                else []                            (* other byte: prefix = bb[0][:i] *)
    end
  end.

(* for !bytes.HasPrefix(line, prefix) { prefix = prefix[:len(prefix)-1]; if len(prefix) == 0 { return empty } }
   fuel = len(prefix).  Returning from the whole function with the empty prefix is the same as
   carrying the empty prefix on (every line has the empty prefix). *)
Fixpoint shrink (fuel : nat) (prefix line : bytes) : bytes :=
  if has_prefix prefix line then prefix
  else match fuel with
       | O => []
       | S f =>
         let p' := removelast prefix in
         match p' with [] => [] | _ :: _ => shrink f p' line end
       end.

(* func longestWhitespacePrefix(bb [][]byte) []byte *)
Definition lwp (bb : list bytes) : bytes :=
  match bb with
  | [] => []                                                 (* if len(bb) == 0 { return empty } *)
  | l0 :: rest =>
    match lead_ws l0 with
    | [] => []                                               (* if len(prefix) == 0 { return empty } *)
    | p0 =>
      fold_left (fun p line =>                               (* for i := 1; i < len(bb); i++ *)
                   match line with
                   | [] => p                                 (*   if len(bb[i]) != 0 *)
                   | _ :: _ => shrink (List.length p) p line
                   end) rest p0
    end
  end.

(* func description(b []byte) ([]byte, error), split in two for the proofs.
   desc_body: everything up to and including the two trims; (text, error message) *)
Definition desc_body (b : bytes) : bytes * option bytes :=
  let b1 := replace_all [13; 10] [10] b in                   (* bytes.ReplaceAll(b, "\r\n", "\n") *)
  let b2 := replace_all [13] [10] b1 in                      (* bytes.ReplaceAll(b, "\r", "\n") *)
  match remove_parens b2 with                                (* b, err := descriptionRemoveParentheses(b) *)
  | (bb, Some e) => (bb, Some e)                             (* if err != nil { return b, err } *)
  | (b3, None) =>
    let b4 := trim_left (in_set [13; 10]) b3 in              (* b = bytes.TrimLeft(b, "\r\n") *)
    (trim_right (in_set [13; 10; 9; 32]) b4, None)           (* b = bytes.TrimRight(b, "\r\n\t ") *)
  end.

(* the rest: split into lines, remove the common prefix, join *)
Definition dedent (b5 : bytes) : bytes :=
  let lines := split_byte 10 b5 in                           (* lines := bytes.Split(b, "\n") *)
  let prefix := lwp lines in                                 (* prefix := longestWhitespacePrefix(lines) *)
  join_byte 10 (map (trim_prefix prefix) lines).             (* TrimPrefix each; bytes.Join(lines, "\n") *)

(* (result, error message); the error result is the text inside the parentheses *)
Definition description (b : bytes) : bytes * option bytes :=
  match desc_body b with
  | (bb, Some e) => (bb, Some e)
  | (b5, None) => (dedent b5, None)
  end.

(* ---------------------------------------------------------------------------------- *)
(* catalog/annotation.go *)

(* regexp `\s` = [\t\n\f\r ] *)
Definition re_space (c : N) : bool := in_set [9; 10; 12; 13; 32] c.

(* annotationReplacer.ReplaceAllString(s, " ") for `\s+`: every maximal run of \s bytes becomes one
   space; in_run = the previous byte belonged to a run *)
Fixpoint collapse (in_run : bool) (s : bytes) : bytes :=
  match s with
  | [] => []
  | c :: s' =>
    if re_space c then (if in_run then collapse true s' else 32 :: collapse true s')
    else c :: collapse false s'
  end.

(* func Annotation(s string) string *)
Definition annotation (s : bytes) : bytes := collapse false (trim_space s).
