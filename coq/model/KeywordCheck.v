(* A fourth boolean checker over the REGENERATED scanner table: what the keyword states spell.
   [spell st] = for a state inside a keyword, the bytes read since KeywordBegin, position by position, as byte sets
   (singletons for the word keywords, digit ranges for the response codes); None for every other state.  The typing is
   inferred by untrusted code (infer_spell below) and only checked here.  [kw_ok] decides whether a byte string is a
   keyword.  Definitions only; soundness is proofs/TM_Keyword.v. *)
From Coq Require Import List NArith Bool String.
From JV.lib Require Import Bytes.
From JV.gen Require Import ScannerTable.
From JV.model Require Import ScannerSem TableCheck.
Import ListNotations.
Open Scope N_scope.

Definition spelling : Set := list (list N).

Fixpoint product (W : spelling) : list bytes :=
  match W with
  | [] => [[]]
  | B :: r => flat_map (fun x => map (cons x) (product r)) B
  end.

Fixpoint covers (W' W : spelling) : bool :=
  match W', W with
  | [], [] => true
  | B' :: r', B :: r => forallb (in_set B') B && covers r' r
  | _, _ => false
  end.

Section KCheck.
  Variable ty : typing.
  Variable spell : state -> option spelling.
  Variable kw_ok : bytes -> bool.

  Definition lang_ok (W : spelling) : bool := forallb kw_ok (product W).

  (* (the bytes of the open keyword before the current byte, whether the read position was moved) *)
  Fixpoint sp_acts (c : N) (a : option spelling * bool) (l : list act) : option (option spelling * bool) :=
    match l with
    | [] => Some a
    | AFound b e :: r =>
      if evt_eqb e KeywordBegin then
        match fst a with
        | None => if (b =? 0) && negb (snd a) then sp_acts c (Some [], snd a) r else None
        | Some _ => None
        end
      else if evt_eqb e KeywordEnd then
        match fst a with
        | Some w => if (b =? 0) && negb (snd a) && lang_ok (w ++ [[c]]) then sp_acts c (None, snd a) r else None
        | None => None
        end
      else sp_acts c a r
    | ARewind _ :: r | AReadSchema :: r | AReadEnum :: r =>
      match fst a with None => sp_acts c (None, true) r | Some _ => None end
    | _ :: r => sp_acts c a r
    end.

  Definition target_spell_ok (c : N) (kw : option spelling) (x : exit) (t : state) : bool :=
    match kw with
    | None => match spell t with None => true | Some _ => false end
    | Some w =>
      match x with
      | XNil => match spell t with Some w' => covers w' (w ++ [[c]]) | None => false end
      | _ => false
      end
    end.

  Definition leaf_spell_ok (st : state) (c : N) (lf : list act * exit) : bool :=
    match sp_acts c (spell st, false) (fst lf) with
    | None => false
    | Some a =>
      match snd lf with
      | XErr _ => true
      | x =>
        match sfold ty st (st, SE_none) (fst lf) with
        | Some sa => forallb (target_spell_ok c (fst a) x) (targets_of ty st sa)
        | None => false
        end
      end
    end.

  Definition spell_ok : bool :=
    match spell initial_state with None => true | Some _ => false end &&
    forallb (fun st => forallb (fun c =>
      forallb (leaf_spell_ok st c) (leaves_for (step_tree st) c)) all_byte_values) all_states.
End KCheck.

(* ---- untrusted inference of the spelling typing, by iteration from "no state spells anything" ---- *)
Definition sp_row (tbl : list (option spelling)) (st : state) : option spelling := nth (N.to_nat (state_idx st)) tbl None.

Definition set_union (a b : list N) : list N := a ++ filter (fun x => negb (in_set a x)) b.
Fixpoint sp_union (a b : spelling) : spelling :=
  match a, b with
  | x :: r, y :: s => set_union x y :: sp_union r s
  | _, _ => a
  end.
Definition sp_merge (o : option spelling) (W : spelling) : option spelling :=
  match o with None => Some W | Some W' => Some (sp_union W' W) end.

Definition sp_edges (ty : typing) (tbl : list (option spelling)) : list (N * spelling) :=
  flat_map (fun st => flat_map (fun c => flat_map (fun lf =>
    match snd lf with
    | XNil =>
      match sp_acts (fun _ => true) c (sp_row tbl st, false) (fst lf), sfold ty st (st, SE_none) (fst lf) with
      | Some (Some w, _), Some sa => map (fun t => (state_idx t, w ++ [[c]])) (targets_of ty st sa)
      | _, _ => []
      end
    | _ => []
    end) (leaves_for (step_tree st) c)) all_byte_values) all_states.

Definition sp_join (tbl : list (option spelling)) (edges : list (N * spelling)) : list (option spelling) :=
  map (fun st => fold_left (fun o e => if fst e =? state_idx st then sp_merge o (snd e) else o) edges (sp_row tbl st)) all_states.

Fixpoint sp_iter (ty : typing) (n : nat) (tbl : list (option spelling)) : list (option spelling) :=
  match n with O => tbl | S k => sp_iter ty k (sp_join tbl (sp_edges ty tbl)) end.

Definition infer_spell (ty : typing) : list (option spelling) := sp_iter ty 14 (map (fun _ => None) all_states).
