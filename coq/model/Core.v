(* Hand-written model of the project scan and of macro expansion:
     core/scan_project.go, scan_project_directive.go, context_processing.go, include.go,
     scanner/stack.go, compile_core.go (checkMacroForRecursion), compile_core_macro.go,
     compile_core_paste.go.
   Lexemes -> directives; INCLUDE switches scanners; every directive is hung under the
   nearest admitting open ancestor; MACRO collection, recursion check, PASTE expansion by
   re-resolution of context.  Definitions only.

   Go's mutable parent pointers + currentContextDirective are a zipper: a stack of open
   frames (directive, children so far) above the list of finished top-level trees. *)
From Coq Require Import List NArith Bool String.
From JV.lib Require Import Bytes Paths.
From JV.gen Require Import DirectiveTables ScannerTable IncludeName.
From JV.model Require Import ScannerSem Params Description Jerr.
Import ListNotations.
Open Scope N_scope.

Record coords : Set := { c_file : bytes; c_beg : N; c_end : N }.

Record directive : Set := {
  d_kind : kind;
  d_keyword : bytes;
  d_kw : coords;
  d_named : list (bytes * bytes);     (* namedParameters (a Go map: order is immaterial) *)
  d_unnamed : list bytes;
  d_annot : bytes;
  d_body : option coords;
  d_explicit : bool;
  d_trace : list (bytes * N)           (* include tracer: (including file, offset of INCLUDE), outermost first *)
}.

Inductive dtree : Set := DNode (d : directive) (children : list dtree).

Definition tree_dir (t : dtree) : directive := match t with DNode d _ => d end.
Definition tree_kids (t : dtree) : list dtree := match t with DNode _ k => k end.

Inductive cerr_kind : Set :=
| CEScan (e : errinfo)
| CENoDirective
| CEUnknownDirective
| CEJsightInInclude
| CENotAllowed (k : kind)
| CEIncorrectParam
| CEParamDup
| CEIncorrectContext
| CEIncorrectContextPath
| CENoExplicitToClose
| CENotAllClosed
| CEUnknownLexeme
| CEIncludeNoParam
| CEIncludeBadName
| CEIncludeIsDir
| CEIncludeNotExist
| CEIncludeRecursion
| CEAnnotForbidden
| CENameRequired
| CEEmptyMacro
| CEDupName
| CERecursion
| CEMacroNotFound
| CEWrapped (inner : cerr_kind)       (* processDirective: d.KeywordError(je.Error()) *)
| CEMsg (cls : string).              (* catalog-stage diagnostics, by message class (model/Catalog.v) *)

Record cerr : Set := { ce_file : bytes; ce_idx : N; ce_kind : cerr_kind; ce_trace : list (bytes * N) }.

Inductive cres (A : Type) : Type :=
| COk (a : A)
| CErr (e : cerr)
| CPanic (why : string)
| CFuel.
Arguments COk {A} a.
Arguments CErr {A} e.
Arguments CPanic {A} why.
Arguments CFuel {A}.

Definition cbind {A B} (x : cres A) (f : A -> cres B) : cres B :=
  match x with COk a => f a | CErr e => CErr e | CPanic w => CPanic w | CFuel => CFuel end.
Notation "x >>=c f" := (cbind x f) (at level 50, left associativity).

(* ---- directive tables (regenerated) ---- *)
Definition kind_in (k : kind) (l : list kind) : bool := existsb (kind_eqb k) l.
Definition root_allowed (k : kind) : bool := kind_in k root_allowed_list.
Definition is_http_method (k : kind) : bool := kind_in k http_method_list.
Definition ctx_allowed (parent child : kind) : bool :=
  match find (fun r => kind_eqb (fst r) parent) context_table with
  | Some r => kind_in child (snd r)
  | None => false
  end.

Definition all_digits (s : bytes) : bool := forallb is_digit s.
Fixpoint dec_value (s : bytes) (acc : N) : N :=
  match s with [] => acc | c :: r => dec_value r (acc * 10 + (c - 48)) end.
(* directive.IsHTTPResponseCode for the spellings the scanner can produce (digits only) *)
Definition is_response_code (s : bytes) : bool :=
  match s with
  | c :: _ => all_digits s && negb (c =? 48) && (response_code_lo <=? dec_value s 0) && (dec_value s 0 <=? response_code_hi)
  | [] => false
  end.
(* directive.NewDirectiveType *)
Definition directive_type (s : bytes) : option kind :=
  match find (fun k => negb (kind_eqb k KHTTPResponseCode) && beq (kind_keyword k) s) all_kinds with
  | Some k => Some k
  | None => if is_response_code s then Some KHTTPResponseCode else None
  end.

Definition named (d : directive) (k : bytes) : bytes :=
  match find (fun p => beq (fst p) k) (d_named d) with Some p => snd p | None => [] end.
Definition has_named (d : directive) (k : bytes) : bool :=
  existsb (fun p => beq (fst p) k) (d_named d).

(* ---- the file system seen by INCLUDE ---- *)
Inductive fsentry : Set := FFile (content : bytes) | FDir.
Definition fsys : Set := list (bytes * fsentry).

Definition fs_stat (f : fsys) (p : bytes) : option fsentry :=
  match find (fun e => beq (fst e) p) f with
  | Some e => Some (snd e)
  | None =>
    (* directories are implicit: "." , anything leaving the project, and every proper prefix of a file name *)
    if beq p (bs ".") || has_prefix (bs "..") p || existsb (fun e => has_prefix (p ++ [47]) (fst e)) f
    then Some FDir else None
  end.

(* ---- scanners ---- *)
Record scn : Set := { sc_file : bytes; sc_data : bytes; sc_size : N; sc_cfg : cfg }.
Definition new_scanner (name content : bytes) : scn :=
  {| sc_file := name; sc_data := content; sc_size := N.of_nat (List.length content); sc_cfg := init_cfg content |}.

Record cstate : Set := {
  cs_sc : scn;                                   (* core.scanner *)
  cs_stack : list (scn * N);                     (* core.scannersStack.stack, top first *)
  cs_tracers : list (bytes * list (bytes * N));  (* includeTracers: keyed by the NAME of the including file only *)
  cs_cur : option directive;                     (* core.currentDirective *)
  cs_frames : list (directive * list dtree);      (* open context, innermost first; children reversed *)
  cs_roots : list dtree                           (* core.directives, reversed *)
}.

Definition upd_sc (s : cstate) (x : scn) :=
  {| cs_sc := x; cs_stack := cs_stack s; cs_tracers := cs_tracers s; cs_cur := cs_cur s; cs_frames := cs_frames s; cs_roots := cs_roots s |}.
Definition upd_cur (s : cstate) (c : option directive) :=
  {| cs_sc := cs_sc s; cs_stack := cs_stack s; cs_tracers := cs_tracers s; cs_cur := c; cs_frames := cs_frames s; cs_roots := cs_roots s |}.
Definition upd_ctx (s : cstate) (fr : list (directive * list dtree)) (rt : list dtree) :=
  {| cs_sc := cs_sc s; cs_stack := cs_stack s; cs_tracers := cs_tracers s; cs_cur := cs_cur s; cs_frames := fr; cs_roots := rt |}.

(* the include trace of the scanner stack, innermost first: (file, at) *)
Definition stack_trace (st : list (scn * N)) : list (bytes * N) :=
  map (fun x => (sc_file (fst x), snd x)) st.

(* errors raised while scanning get the trace of the current scanner stack *)
Definition scan_err (s : cstate) (idx : N) (k : cerr_kind) : cerr :=
  {| ce_file := sc_file (cs_sc s); ce_idx := idx; ce_kind := k; ce_trace := stack_trace (cs_stack s) |}.
(* directive.KeywordError: located at the keyword, with the directive's own tracer (innermost first) *)
Definition kw_err (d : directive) (k : cerr_kind) : cerr :=
  {| ce_file := c_file (d_kw d); ce_idx := c_beg (d_kw d); ce_kind := k; ce_trace := rev (d_trace d) |}.

(* ---- context resolution (core/context_processing.go) ---- *)

(* close the innermost frame: its node becomes a child of the frame below, or a top-level dtree *)
Definition close_frame (fr : list (directive * list dtree)) (rt : list dtree) : list (directive * list dtree) * list dtree :=
  match fr with
  | [] => ([], rt)
  | (d, kids) :: rest =>
    let t := DNode d (rev kids) in
    match rest with
    | [] => ([], t :: rt)
    | (pd, pk) :: rest' => ((pd, t :: pk) :: rest', rt)
    end
  end.

Fixpoint close_all (n : nat) (fr : list (directive * list dtree)) (rt : list dtree) : list dtree :=
  match n with
  | O => rt
  | S n' => match fr with [] => rt | _ => let (fr', rt') := close_frame fr rt in close_all n' fr' rt' end
  end.

Fixpoint close_to (n : nat) (target : nat) (fr : list (directive * list dtree)) (rt : list dtree)
  : list (directive * list dtree) * list dtree :=
  match n with
  | O => (fr, rt)
  | S n' =>
    if Nat.leb (List.length fr) target then (fr, rt)
    else let (fr', rt') := close_frame fr rt in close_to n' target fr' rt'
  end.

(* processContext: fuel = number of open frames + 1 *)
Fixpoint process_context (fuel : nat) (d : directive) (fr : list (directive * list dtree)) (rt : list dtree)
  : cres (list (directive * list dtree) * list dtree) :=
  match fuel with
  | O => CFuel
  | S f =>
    match fr with
    | [] =>
      if root_allowed (d_kind d) then COk ([(d, [])], rt)
      else CErr (kw_err d CEIncorrectContext)
    | (cd, kids) :: rest =>
      if ctx_allowed (d_kind cd) (d_kind d) then
        let is_url := is_http_method (d_kind d) && negb (beq (named d (bs "Path")) []) && kind_eqb (d_kind cd) KURL in
        if is_url then
          (* core.HasUnclosedExplicitContext(): no enclosing open context may be a parenthesised one *)
          if existsb (fun x => d_explicit (fst x)) fr then CErr (kw_err d CEIncorrectContextPath)
          else
            (* the directive is appended to the ROOT list and becomes the current context (its Parent stays nil):
               every open frame is left for good *)
            COk ([(d, [])], close_all (List.length fr) fr rt)
        else COk ((d, []) :: fr, rt)
      else if d_explicit cd then CErr (kw_err d CEIncorrectContext)
      else let (fr', rt') := close_frame fr rt in process_context f d fr' rt'
    end
  end.

Definition ctx_fuel (fr : list (directive * list dtree)) : nat := S (S (List.length fr)).

(* processCurrentDirective *)
Definition flush_cur (s : cstate) : cres cstate :=
  match cs_cur s with
  | None => COk s
  | Some d =>
    process_context (ctx_fuel (cs_frames s)) d (cs_frames s) (cs_roots s) >>=c fun r =>
    COk (upd_cur (upd_ctx s (fst r) (snd r)) None)
  end.

(* closeLastExplicitContext: leave frames up to and including the innermost explicit one *)
Fixpoint close_explicit (fuel : nat) (fr : list (directive * list dtree)) (rt : list dtree)
  : option (list (directive * list dtree) * list dtree) :=
  match fuel with
  | O => None
  | S f =>
    match fr with
    | [] => None
    | (d, _) :: _ =>
      let (fr', rt') := close_frame fr rt in
      if d_explicit d then Some (fr', rt') else close_explicit f fr' rt'
    end
  end.

Definition has_unclosed_explicit (fr : list (directive * list dtree)) : bool :=
  existsb (fun x => d_explicit (fst x)) fr.

(* ---- the include tracer (scanner/stack.go ToDirectiveIncludeTracer, with its cache) ---- *)
Definition directive_tracer (s : cstate) : list (bytes * N) * list (bytes * list (bytes * N)) :=
  match cs_stack s with
  | [] => ([], cs_tracers s)
  | (top, _) :: _ =>
    match find (fun e => beq (fst e) (sc_file top)) (cs_tracers s) with
    | Some e => (snd e, cs_tracers s)                       (* cached: possibly stale *)
    | None =>
      let tr := rev (stack_trace (cs_stack s)) in           (* outermost first, as newDirectiveIncludeTracer copies it *)
      (tr, (sc_file top, tr) :: cs_tracers s)
    end
  end.

Definition upd_tracers (s : cstate) (t : list (bytes * list (bytes * N))) :=
  {| cs_sc := cs_sc s; cs_stack := cs_stack s; cs_tracers := t; cs_cur := cs_cur s; cs_frames := cs_frames s; cs_roots := cs_roots s |}.
Definition upd_stack (s : cstate) (x : scn) (st : list (scn * N)) :=
  {| cs_sc := x; cs_stack := st; cs_tracers := cs_tracers s; cs_cur := cs_cur s; cs_frames := cs_frames s; cs_roots := cs_roots s |}.

Section Scan.
  Variable jsc_len enum_len : bytes -> len_result.
  Variable files : fsys.
  Variable banned : list kind.

  (* Scanner.Next() on the current scanner *)
  Definition sc_next (x : scn) : outcome (scn * option lexeme) :=
    next jsc_len enum_len (sc_data x) (sc_size x) (scan_fuel (sc_data x)) (sc_cfg x) >>= fun r =>
    Ok ({| sc_file := sc_file x; sc_data := sc_data x; sc_size := sc_size x; sc_cfg := fst r |}, snd r).

  Definition value_of (x : scn) (l : lexeme) : cres bytes :=
    match lex_value (sc_data x) (sc_size x) l with
    | Ok v => COk v
    | _ => CPanic "slice bounds out of range"
    end.

  Definition coords_of (x : scn) (l : lexeme) : coords :=
    {| c_file := sc_file x; c_beg := lb l; c_end := le l |}.

  Definition set_named (d : directive) (k v : bytes) : directive :=
    {| d_kind := d_kind d; d_keyword := d_keyword d; d_kw := d_kw d; d_named := d_named d ++ [(k, v)];
       d_unnamed := d_unnamed d; d_annot := d_annot d; d_body := d_body d; d_explicit := d_explicit d; d_trace := d_trace d |}.
  Definition add_unnamed (d : directive) (v : bytes) : directive :=
    {| d_kind := d_kind d; d_keyword := d_keyword d; d_kw := d_kw d; d_named := d_named d;
       d_unnamed := d_unnamed d ++ [v]; d_annot := d_annot d; d_body := d_body d; d_explicit := d_explicit d; d_trace := d_trace d |}.
  Definition set_annot (d : directive) (a : bytes) : directive :=
    {| d_kind := d_kind d; d_keyword := d_keyword d; d_kw := d_kw d; d_named := d_named d;
       d_unnamed := d_unnamed d; d_annot := a; d_body := d_body d; d_explicit := d_explicit d; d_trace := d_trace d |}.
  Definition set_body (d : directive) (c : coords) : directive :=
    {| d_kind := d_kind d; d_keyword := d_keyword d; d_kw := d_kw d; d_named := d_named d;
       d_unnamed := d_unnamed d; d_annot := d_annot d; d_body := Some c; d_explicit := d_explicit d; d_trace := d_trace d |}.
  Definition set_explicit (d : directive) : directive :=
    {| d_kind := d_kind d; d_keyword := d_keyword d; d_kw := d_kw d; d_named := d_named d;
       d_unnamed := d_unnamed d; d_annot := d_annot d; d_body := d_body d; d_explicit := true; d_trace := d_trace d |}.

  (* processKeyword + setCurrentDirective *)
  Definition process_keyword (s : cstate) (l : lexeme) (kw : bytes) : cres cstate :=
    flush_cur s >>=c fun s1 =>
    if negb (match cs_stack s1 with [] => true | _ => false end) && beq kw (kind_keyword KJsight)
    then CErr (scan_err s1 (lb l) CEJsightInInclude)
    else
      match directive_type kw with
      | None => CErr (scan_err s1 (lb l) CEUnknownDirective)
      | Some k =>
        if kind_in k banned then CErr (scan_err s1 (lb l) (CENotAllowed k))
        else
          let (tr, cache) := directive_tracer s1 in
          let d := {| d_kind := k; d_keyword := kw; d_kw := coords_of (cs_sc s1) l; d_named := []; d_unnamed := [];
                      d_annot := []; d_body := None; d_explicit := false; d_trace := tr |} in
          COk (upd_cur (upd_tracers s1 cache) (Some d))
      end.

  (* processInclude: the file name is the next lexeme of the SAME scanner *)
  Definition process_include (s : cstate) (l : lexeme) : cres cstate :=
    if kind_in KInclude banned then CErr (scan_err s (lb l) (CENotAllowed KInclude))
    else
      match sc_next (cs_sc s) with
      | Err p e => CErr (scan_err s p (CEScan e))
      | Panic w => CPanic w
      | OutOfFuel => CFuel
      | Ok (x1, ol) =>
        let s1 := upd_sc s x1 in
        match ol with
        | None => CErr (scan_err s1 (lb l) CEIncludeNoParam)
        | Some pl =>
          if negb (lexkind_eqb (lk pl) LParameter) then CErr (scan_err s1 (lb l) CEIncludeNoParam)
          else
            value_of x1 pl >>=c fun rawpath =>
            let path := lib_unquote rawpath in      (* the file name may be written in quotes *)
            if beq path [] then CErr (scan_err s1 (lb l) CEIncludeNoParam) else
            match validateIncludeFileName path with
            | GPanic w => CPanic w
            | GOk (Some _) => CErr (scan_err s1 (lb l) CEIncludeBadName)
            | GOk None =>
              let abs := join2 (dir (sc_file x1)) path in
              match fs_stat files abs with
              | None => CErr (scan_err s1 (lb l) CEIncludeNotExist)
              | Some FDir => CErr (scan_err s1 (lb l) CEIncludeIsDir)
              | Some (FFile content) =>
                (* Stack.Push refuses a scanner whose file is already on the stack *)
                if existsb (fun e => beq (sc_file (fst e)) (sc_file x1)) (cs_stack s1)
                then CErr (scan_err s1 (lb l) CEIncludeRecursion)
                else COk (upd_stack s1 (new_scanner abs content) ((x1, lb l) :: cs_stack s1))
              end
            end
        end
      end.

  Definition process_parameter (s : cstate) (l : lexeme) : cres cstate :=
    match cs_cur s with
    | None => CErr (scan_err s (lb l) CENoDirective)
    | Some d =>
      value_of (cs_sc s) l >>=c fun v =>
      match append_parameter (d_kind d) v with
      | PErr => CErr (scan_err s (lb l) CEIncorrectParam)
      | PNamed k x => if has_named d k then CErr (scan_err s (lb l) CEParamDup)
                      else COk (upd_cur s (Some (set_named d k x)))
      | PUnnamed x => COk (upd_cur s (Some (add_unnamed d x)))
      end
    end.

  (* core.next *)
  Definition process_lexeme (s : cstate) (l : lexeme) : cres cstate :=
    let k := lk l in
    if lexkind_eqb k LKeyword then
      value_of (cs_sc s) l >>=c fun kw =>
      (* the directive read before an INCLUDE is placed before the included file is entered *)
      if beq kw (kind_keyword KInclude) then flush_cur s >>=c fun s0 => process_include s0 l else process_keyword s l kw
    else if lexkind_eqb k LContextExplicitClosing then
      flush_cur s >>=c fun s1 =>
      match close_explicit (S (List.length (cs_frames s1))) (cs_frames s1) (cs_roots s1) with
      | Some r => COk (upd_ctx s1 (fst r) (snd r))
      | None => CErr (scan_err s1 (pos (sc_cfg (cs_sc s1)) - 1) CENoExplicitToClose)
      end
    else
      match cs_cur s with
      | None => CErr (scan_err s (lb l) CENoDirective)
      | Some d =>
        if lexkind_eqb k LParameter then process_parameter s l
        else if lexkind_eqb k LAnnotation then
          value_of (cs_sc s) l >>=c fun v => COk (upd_cur s (Some (set_annot d (annotation v))))
        else if lexkind_eqb k LSchema || lexkind_eqb k LText || lexkind_eqb k LJson || lexkind_eqb k LEnum then
          COk (upd_cur s (Some (set_body d (coords_of (cs_sc s) l))))
        else if lexkind_eqb k LContextExplicitOpening then COk (upd_cur s (Some (set_explicit d)))
        else CErr (scan_err s (lb l) CEUnknownLexeme)
      end.

  (* scanProject's deferred AddIncludeTraceToError: an error that left the scan loop without a
     trace gets the trace of the scanner stack as it is at that moment (also an error about a
     directive that was read earlier, outside any include) *)
  Definition with_scan_trace {A} (s : cstate) (r : cres A) : cres A :=
    match r with
    | CErr e =>
      match ce_trace e with
      | [] => CErr {| ce_file := ce_file e; ce_idx := ce_idx e; ce_kind := ce_kind e; ce_trace := stack_trace (cs_stack s) |}
      | _ => CErr e
      end
    | x => x
    end.

  (* scanProject: drain the current scanner, processEOF, pop the scanner stack *)
  Fixpoint scan_project (fuel : nat) (s : cstate) : cres cstate :=
    match fuel with
    | O => CFuel
    | S f =>
      match sc_next (cs_sc s) with
      | Err p e => CErr (scan_err s p (CEScan e))
      | Panic w => CPanic w
      | OutOfFuel => CFuel
      | Ok (x1, Some l) => with_scan_trace s (process_lexeme (upd_sc s x1) l) >>=c scan_project f
      | Ok (x1, None) =>
        (* processEOF *)
        with_scan_trace s (flush_cur (upd_sc s x1)) >>=c fun s1 =>
        if has_unclosed_explicit (cs_frames s1)
        then CErr (scan_err s1 (pos (sc_cfg (cs_sc s1)) - 1) CENotAllClosed)
        else
          match cs_stack s1 with
          | [] => COk s1
          | (x, _) :: rest => scan_project f (upd_stack s1 x rest)
          end
      end
    end.

  Definition init_state (root : bytes) (content : bytes) : cstate :=
    {| cs_sc := new_scanner root content; cs_stack := []; cs_tracers := []; cs_cur := None; cs_frames := []; cs_roots := [] |}.

  (* the forest after scanning: open frames are simply where the last directives hang *)
  Definition forest_of (s : cstate) : list dtree :=
    rev (close_all (List.length (cs_frames s)) (cs_frames s) (cs_roots s)).
End Scan.

(* ---- macros (compile_core_macro.go, compile_core.go, compile_core_paste.go) ---- *)

Definition macro_table : Set := list (bytes * dtree).
Definition macro_lookup (m : macro_table) (n : bytes) : option dtree :=
  match find (fun e => beq (fst e) n) m with Some e => Some (snd e) | None => None end.

(* collectMacro: top-level MACRO directives leave the list *)
Fixpoint collect_macro (ts : list dtree) (m : macro_table) : cres (list dtree * macro_table) :=
  match ts with
  | [] => COk ([], m)
  | t :: r =>
    let d := tree_dir t in
    if kind_eqb (d_kind d) KMacro then
      if negb (beq (d_annot d) []) then CErr (kw_err d CEAnnotForbidden)
      else let n := named d (bs "Name") in
      if beq n [] then CErr (kw_err d CENameRequired)
      else match tree_kids t with
           | [] => CErr (kw_err d CEEmptyMacro)
           | _ =>
             match macro_lookup m n with
             | Some _ => CErr (kw_err d CEDupName)
             | None => collect_macro r (m ++ [(n, t)])
             end
           end
    else collect_macro r m >>=c fun x => COk (t :: fst x, snd x)
  end.

(* checkMacroForRecursion: depth-first walk through the PASTE directives; walking = macros on the
   current path, done = macros already cleared *)
Definition name_in (n : bytes) (l : list bytes) : bool := existsb (beq n) l.

Fixpoint check_macro (fuel : nat) (m : macro_table) (name : bytes) (walking done : list bytes) : cres (list bytes) :=
  match fuel with
  | O => CFuel
  | S f =>
    if name_in name done then COk done
    else match macro_lookup m name with
         | None => COk done
         | Some t => find_paste f m [t] (name :: walking) done >>=c fun done' => COk (name :: done')
         end
  end
with find_paste (fuel : nat) (m : macro_table) (ts : list dtree) (walking done : list bytes) : cres (list bytes) :=
  match fuel with
  | O => CFuel
  | S f =>
    match ts with
    | [] => COk done
    | t :: r =>
      let d := tree_dir t in
      (if kind_eqb (d_kind d) KPaste then
         let n := named d (bs "Name") in
         if beq n [] then CErr (kw_err d CENameRequired)
         else if name_in n walking then CErr (kw_err d CERecursion)
         else check_macro f m n walking done
       else find_paste f m (tree_kids t) walking done) >>=c fun done' =>
      find_paste f m r walking done'
    end
  end.

Fixpoint check_all_macros (fuel : nat) (m : macro_table) (names : list bytes) (done : list bytes) : cres unit :=
  match names with
  | [] => COk tt
  | n :: r => check_macro fuel m n [] done >>=c fun done' => check_all_macros fuel m r done'
  end.

Fixpoint tree_size (t : dtree) : nat :=
  match t with DNode _ k => S (fold_right (fun x acc => tree_size x + acc)%nat O k) end.
Definition forest_size (ts : list dtree) : nat := fold_right (fun x acc => tree_size x + acc)%nat O ts.

Record pstate : Set := {
  ps_frames : list (directive * list dtree);
  ps_roots : list dtree
}.

Definition wrap_paste (d : directive) (e : cerr) : cerr :=
  {| ce_file := c_file (d_kw d); ce_idx := c_beg (d_kw d); ce_kind := CEWrapped (ce_kind e); ce_trace := rev (d_trace d) |}.

(* processDirective / processPasteDirectiveList; fuel bounds the expansion *)
Fixpoint paste_list (fuel : nat) (m : macro_table) (ts : list dtree) (p : pstate) : cres pstate :=
  match fuel with
  | O => CFuel
  | S f =>
    match ts with
    | [] => COk p
    | t :: r =>
      let d := tree_dir t in
      (if kind_eqb (d_kind d) KPaste then
         (* processPasteDirective; its errors are re-located at the PASTE itself *)
         let inner :=
           if negb (beq (d_annot d) []) then CErr (kw_err d CEAnnotForbidden)
           else let n := named d (bs "Name") in
           if beq n [] then CErr (kw_err d CENameRequired)
           else match macro_lookup m n with
                | None => CErr (kw_err d CEMacroNotFound)
                | Some mt => paste_list f m (tree_kids mt) p
                end in
         match inner with
         | CErr e => CErr (wrap_paste d e)
         | x => x
         end
       else
         process_context (ctx_fuel (ps_frames p)) d (ps_frames p) (ps_roots p) >>=c fun fr =>
         let depth := List.length (fst fr) in
         paste_list f m (tree_kids t) {| ps_frames := fst fr; ps_roots := snd fr |} >>=c fun p1 =>
         if d_explicit d then
           (* core.currentContextDirective = dd.Parent *)
           let (fr2, rt2) := close_to (S (List.length (ps_frames p1))) (depth - 1) (ps_frames p1) (ps_roots p1) in
           COk {| ps_frames := fr2; ps_roots := rt2 |}
         else COk p1) >>=c fun p2 =>
      paste_list f m r p2
    end
  end.

Definition expand_fuel (ts : list dtree) (m : macro_table) : nat :=
  (* generous: the implementation itself is exponential on doubling chains *)
  1000 + 64 * (forest_size ts + fold_right (fun e acc => tree_size (snd e) + acc)%nat O m) * S (List.length m).

(* compileCore up to processPaste (collectRules runs after it, over the expanded forest: Catalog.build) *)
Definition expand (ts : list dtree) : cres (list dtree) :=
  collect_macro ts [] >>=c fun cm =>
  let (rest, m) := cm in
  let mfuel := (16 + 4 * fold_right (fun e acc => tree_size (snd e) + acc)%nat O m * S (List.length m))%nat in
  check_all_macros mfuel m (map fst m) [] >>=c fun _ =>
  paste_list (expand_fuel rest m) m rest {| ps_frames := []; ps_roots := [] |} >>=c fun p =>
  COk (rev (close_all (List.length (ps_frames p)) (ps_frames p) (ps_roots p))).

(* as expand, but also returns the top-level list before expansion (macros removed) and the macro table *)
Definition expand_full (ts : list dtree) : cres (list dtree * list dtree * macro_table) :=
  collect_macro ts [] >>=c fun cm =>
  let (rest, m) := cm in
  let mfuel := (16 + 4 * fold_right (fun e acc => tree_size (snd e) + acc)%nat O m * S (List.length m))%nat in
  check_all_macros mfuel m (map fst m) [] >>=c fun _ =>
  paste_list (expand_fuel rest m) m rest {| ps_frames := []; ps_roots := [] |} >>=c fun p =>
  COk (rest, rev (close_all (List.length (ps_frames p)) (ps_frames p) (ps_roots p)), m).

Definition scan_fuel_project (files : fsys) (content : bytes) : nat :=
  let total := fold_right (fun e acc => (match snd e with FFile c => List.length c | FDir => O end + acc)%nat) (List.length content) files in
  (64 + 4 * total * (2 + List.length files))%nat.

(* with the fuel as a parameter: the model runner passes an unbounded one (a file may be included
   many times, so the number of loop iterations is exponential in the include depth) *)
Definition scan_forest_with (fuel : nat) (jsc_len enum_len : bytes -> len_result) (files : fsys) (banned : list kind) (root : bytes) : cres (list dtree) :=
  match fs_stat files root with
  | Some (FFile content) =>
    scan_project jsc_len enum_len files banned fuel (init_state root content) >>=c fun s =>
    COk (forest_of s)
  | _ => CPanic "root file missing"
  end.

Definition scan_forest (jsc_len enum_len : bytes -> len_result) (files : fsys) (banned : list kind) (root : bytes) : cres (list dtree) :=
  match fs_stat files root with
  | Some (FFile content) =>
    scan_project jsc_len enum_len files banned (scan_fuel_project files content) (init_state root content) >>=c fun s =>
    COk (forest_of s)
  | _ => CPanic "root file missing"
  end.
