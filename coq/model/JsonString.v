(* How encoding/json writes a Go string as a JSON string (object keys and string values), as a total
   Gallina function over byte strings.

   Code modelled (Go standard library, read at $(go env GOROOT)/src):
     encoding/json/encode.go   appendString(dst, src, escapeHTML)       -> json_quote (escapeHTML = true)
     encoding/json/tables.go   htmlSafeSet                              -> html_safe
     unicode/utf8/utf8.go      DecodeRuneInString, first, acceptRanges   -> decode_rune, lead_class
                               ValidString                              -> valid_utf8
   json.Marshal runs with encOpts{escapeHTML: true}; the library's generated ordered maps
   (catalog/*_gen.go MarshalJSON) write every key with json.Marshal(k): a string key goes through
   stringEncoder, a TagName / InteractionID key through textMarshalerEncoder; both end in
   appendString(.., .., true).  The outer json.Marshal then passes the text through appendCompact,
   which leaves a string written by appendString as it is (<, >, &, U+2028, U+2029 are escaped already).

   json_unquote is a reader for the JSON string syntax restricted to what json_quote can write: the two
   quotes, the two-character escapes, \uXXXX for a code point of the basic plane that is no surrogate
   (\ud800 .. \udfff are rejected: json_quote never writes them), every other byte >= 0x20 as itself.

   The model is compared with the real functions on every run of check C09 (stage_json_keys): with
   json.Marshal, utf8.Valid, json.Unmarshal and with the key text that the library's own collections
   and a whole project write. *)
From Coq Require Import List NArith Bool.
From JV.lib Require Import Bytes.
Import ListNotations.
Open Scope N_scope.

(* utf8.RuneError = U+FFFD *)
Definition rune_error : N := 65533.

Definition in_range (lo hi c : N) : bool := (lo <=? c) && (c <=? hi).

(* locb .. hicb *)
Definition is_cont (c : N) : bool := in_range 128 191 c.

(* utf8.first[c] together with acceptRanges[first[c] >> 4]: the length of the sequence a lead byte
   announces and the range its SECOND byte must lie in.  LBad = the entries xx (0x80-0xC1, 0xF5-0xFF,
   and every value that is no byte). *)
Inductive lead : Set :=
| LBad
| L2
| L3 (lo hi : N)
| L4 (lo hi : N).

Definition lead_class (c : N) : lead :=
  if in_range 194 223 c then L2                    (* C2..DF  s1 *)
  else if c =? 224 then L3 160 191                 (* E0      s2 *)
  else if in_range 225 236 c then L3 128 191       (* E1..EC  s3 *)
  else if c =? 237 then L3 128 159                 (* ED      s4 *)
  else if in_range 238 239 c then L3 128 191       (* EE..EF  s3 *)
  else if c =? 240 then L4 144 191                 (* F0      s5 *)
  else if in_range 241 243 c then L4 128 191       (* F1..F3  s6 *)
  else if c =? 244 then L4 128 143                 (* F4      s7 *)
  else LBad.

(* utf8.DecodeRuneInString: (rune, width).  Width 0 only for the empty string; (RuneError, 1) for
   every sequence that is not the shortest encoding of a scalar value.  The masks of the Go code
   (c & 0x1F, c & 0x0F, c & 0x07, c & 0x3F) are written mod 32 / 16 / 8 / 64, the shifts as products. *)
Definition decode_rune (s : bytes) : N * nat :=
  match s with
  | [] => (rune_error, 0%nat)
  | c0 :: r0 =>
    if c0 <? 128 then (c0, 1%nat)
    else
      match lead_class c0 with
      | LBad => (rune_error, 1%nat)
      | L2 =>
        match r0 with
        | c1 :: _ =>
          if is_cont c1 then ((c0 mod 32) * 64 + c1 mod 64, 2%nat) else (rune_error, 1%nat)
        | _ => (rune_error, 1%nat)
        end
      | L3 lo hi =>
        match r0 with
        | c1 :: c2 :: _ =>
          if in_range lo hi c1 && is_cont c2
          then ((c0 mod 16) * 4096 + (c1 mod 64) * 64 + c2 mod 64, 3%nat)
          else (rune_error, 1%nat)
        | _ => (rune_error, 1%nat)
        end
      | L4 lo hi =>
        match r0 with
        | c1 :: c2 :: c3 :: _ =>
          if in_range lo hi c1 && is_cont c2 && is_cont c3
          then ((c0 mod 8) * 262144 + (c1 mod 64) * 4096 + (c2 mod 64) * 64 + c3 mod 64, 4%nat)
          else (rune_error, 1%nat)
        | _ => (rune_error, 1%nat)
        end
      end
  end.

(* c == utf8.RuneError && size == 1 *)
Definition is_decode_error (d : N * nat) : bool := (fst d =? rune_error) && Nat.eqb (snd d) 1.

(* utf8.ValidString.  The fuel is the length of the string: every step consumes at least one byte. *)
Fixpoint valid_go (fuel : nat) (s : bytes) {struct fuel} : bool :=
  match s with
  | [] => true
  | _ :: _ =>
    match fuel with
    | O => false
    | S f =>
      let d := decode_rune s in
      if is_decode_error d then false else valid_go f (skipn (snd d) s)
    end
  end.

Definition valid_utf8 (s : bytes) : bool := valid_go (List.length s) s.

(* const hex = "0123456789abcdef" *)
Definition hex_lower (n : N) : N := if n <? 10 then 48 + n else 87 + n.

(* htmlSafeSet[c] for c < utf8.RuneSelf *)
Definition html_safe (c : N) : bool :=
  (32 <=? c) && (c <? 128) &&
  negb ((c =? 34) || (c =? 92) || (c =? 60) || (c =? 62) || (c =? 38)).   (* quote, backslash, <, >, & *)

(* the switch of appendString for a byte below 0x80 *)
Definition esc_ascii (c : N) : bytes :=
  if html_safe c then [c]
  else if (c =? 92) || (c =? 34) then [92; c]
  else if c =? 8 then [92; 98]                  (* \b *)
  else if c =? 12 then [92; 102]                (* \f *)
  else if c =? 10 then [92; 110]                (* \n *)
  else if c =? 13 then [92; 114]                (* \r *)
  else if c =? 9 then [92; 116]                 (* \t *)
  else [92; 117; 48; 48; hex_lower (c / 16); hex_lower (c mod 16)].   (* \u00XY *)

Definition esc_fffd : bytes := [92; 117; 102; 102; 102; 100].        (* \ufffd *)

(* the loop of appendString between the two quotes: i is the head of s; a safe byte or a valid
   sequence is copied (Go copies src[start:i] lazily: the same bytes), i += size *)
Fixpoint quote_body (fuel : nat) (s : bytes) : bytes :=
  match fuel with
  | O => []
  | S f =>
    match s with
    | [] => []
    | c :: s' =>
      if c <? 128 then esc_ascii c ++ quote_body f s'
      else
        let d := decode_rune s in
        if is_decode_error d then esc_fffd ++ quote_body f s'
        else if (fst d =? 8232) || (fst d =? 8233)              (* U+2028, U+2029 *)
        then [92; 117; 50; 48; 50; hex_lower (fst d mod 16)] ++ quote_body f (skipn (snd d) s)
        else firstn (snd d) s ++ quote_body f (skipn (snd d) s)
    end
  end.

(* json.Marshal(string(s)) *)
Definition json_quote (s : bytes) : bytes := 34 :: quote_body (List.length s) s ++ [34].

(* ---- the reader ---- *)

Definition hex_val (c : N) : option N :=
  if in_range 48 57 c then Some (c - 48)
  else if in_range 97 102 c then Some (c - 87)
  else if in_range 65 70 c then Some (c - 55)
  else None.

Definition hex4 (a b c d : N) : option N :=
  match hex_val a, hex_val b, hex_val c, hex_val d with
  | Some x, Some y, Some z, Some w => Some (((x * 16 + y) * 16 + z) * 16 + w)
  | _, _, _, _ => None
  end.

(* utf8.AppendRune for a code point below 0x10000 *)
Definition utf8_encode (r : N) : bytes :=
  if r <? 128 then [r]
  else if r <? 2048 then [192 + r / 64; 128 + r mod 64]
  else [224 + r / 4096; 128 + (r / 64) mod 64; 128 + r mod 64].

Definition is_surrogate (r : N) : bool := in_range 55296 57343 r.

(* the character a two-character escape stands for *)
Definition simple_escape (e : N) : option N :=
  if (e =? 34) || (e =? 92) || (e =? 47) then Some e
  else if e =? 98 then Some 8
  else if e =? 102 then Some 12
  else if e =? 110 then Some 10
  else if e =? 114 then Some 13
  else if e =? 116 then Some 9
  else None.

(* s = what follows the opening quote; the closing quote must be the last byte *)
Fixpoint unquote_body (s : bytes) : option bytes :=
  match s with
  | [] => None
  | c :: r =>
    if c =? 34 then match r with [] => Some [] | _ :: _ => None end
    else if c =? 92 then
      match r with
      | [] => None
      | e :: r1 =>
        if e =? 117 then
          match r1 with
          | a :: b :: x :: y :: r2 =>
            match hex4 a b x y with
            | Some cp => if is_surrogate cp then None
                         else option_map (app (utf8_encode cp)) (unquote_body r2)
            | None => None
            end
          | _ => None
          end
        else
          match simple_escape e with
          | Some v => option_map (cons v) (unquote_body r1)
          | None => None
          end
      end
    else if c <? 32 then None
    else option_map (cons c) (unquote_body r)
  end.

Definition json_unquote (t : bytes) : option bytes :=
  match t with
  | 34 :: r => unquote_body r
  | _ => None
  end.

(* where a JSON reader that has consumed the opening quote finds the end of the string: a backslash
   hides the byte after it, the first quote that is not hidden closes; the result is the text after it *)
Fixpoint string_rest (s : bytes) : option bytes :=
  match s with
  | [] => None
  | c :: r =>
    if c =? 34 then Some r
    else if c =? 92 then match r with [] => None | _ :: r1 => string_rest r1 end
    else string_rest r
  end.
