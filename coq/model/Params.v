(* C17 — directive parameters.  Hand model (DEFINITIONS ONLY) of
     /repo/directive/parameter.go        unescapeParameter, IsArrayOfTypes, AppendParameter, isSchemaNotation
     /repo/notation/schema_notation.go   NewSchemaNotation
     jsight-schema-go-library/bytes      Bytes.InQuotes, Bytes.IsUserTypeName, IsValidUserTypeNameByte
     /repo/scanner/steps-directive-parameters.go   stateParameterInQuoted / stateParameterInQuotedSlash
   Correspondence with the Go code is checked by `harness fn unescape|appendparam` against the
   extracted model (verifsys/checks/c17.py). *)
From Coq Require Import List NArith Bool String.
From JV.lib Require Import Bytes.
From JV.gen Require Import DirectiveTables.
Import ListNotations.
Open Scope N_scope.

Definition c_dq : N := 34.        (* DQUOTE: the double quote byte *)
Definition c_bsl : N := 92.       (* '\\' *)

(* ------------------------------------------------------------------------------------- *)
(* bytes.go: func (b Bytes) InQuotes() bool
     return len(b) >= 2 && b[0] == DQUOTE && b[len(b)-1] == DQUOTE *)
Definition in_quotes (b : bytes) : bool :=
  match b with
  | c :: (_ :: _) as r => (c =? 34) && (last r 0 =? 34)
  | _ => false
  end.

(* parameter.go, the loop of unescapeParameter over `inner`:
     for i := 0; i < len(inner); i++ {
       if inner[i] == '\\' && i+1 < len(inner) && (inner[i+1] == DQUOTE || inner[i+1] == '\\') { i++ }
       c = append(c, inner[i])
     }
   two-byte lookahead: on an escape the backslash is dropped and the escaped byte is emitted,
   the loop continues after it. *)
Fixpoint unescape_inner (s : bytes) : bytes :=
  match s with
  | [] => []
  | c :: s' =>
    if c =? 92 then
      match s' with
      | d :: s'' =>
        if (d =? 34) || (d =? 92) then d :: unescape_inner s''   (* i++ ; append inner[i] *)
        else c :: unescape_inner s'                               (* backslash kept as written *)
      | [] => [c]                                                 (* i+1 < len(inner) fails *)
      end
    else c :: unescape_inner s'
  end.

(* parameter.go: func unescapeParameter(b bytes.Bytes) bytes.Bytes
     if !b.InQuotes() { return b }
     inner := b[1 : len(b)-1] ; ...loop... *)
Definition unescape_parameter (b : bytes) : bytes :=
  if in_quotes b then unescape_inner (removelast (tl b)) else b.

(* The canonical quoted spelling of a value: DQUOTE, the value with every DQUOTE and '\\'
   preceded by a backslash, DQUOTE.  (Specification side: this is what the property calls
   `written in double quotes with DQUOTE and BACKSLASH escaped by a backslash`.) *)
Definition escape_byte (c : N) : bytes :=
  if (c =? 34) || (c =? 92) then [92; c] else [c].
Definition escape (s : bytes) : bytes := flat_map escape_byte s.
Definition quote_param (s : bytes) : bytes := 34 :: escape s ++ [34].

(* ------------------------------------------------------------------------------------- *)
(* scanner/steps-directive-parameters.go, the two quoted states.  The scanner driver
   (scanner.go) feeds the pseudo byte EOF = 0 after the last byte and rejects a literal
   byte 0 in the data itself ("File cannot contain byte zero"), so byte 0 is a rejection in
   either state. *)
Inductive qstate : Set := QIn | QSlash.
Inductive qstep_res : Set :=
| QNext (st : qstate)   (* s.step = ... ; return nil *)
| QEnd                  (* s.found(ParameterEnd); s.step = stateParameterOrAnnotation *)
| QReject.              (* return s.japiErrorUnexpectedChar(...) *)

(* scanner/step-helpers.go: IsNewLine *)
Definition is_newline (c : N) : bool := (c =? 10) || (c =? 13).

Definition qstep (st : qstate) (c : N) : qstep_res :=
  match st with
  | QIn =>                                   (* stateParameterInQuoted *)
    if is_newline c || (c =? 0) then QReject (* case caseNewLine(c), EOF: error *)
    else if c =? 92 then QNext QSlash        (* case '\\' *)
    else if c =? 34 then QEnd                (* case DoubleQuote *)
    else QNext QIn                           (* no case: stay *)
  | QSlash =>                                (* stateParameterInQuotedSlash *)
    if (c =? 92) || (c =? 34) then QNext QIn (* case '\\', case DQUOTE *)
    else QReject                             (* default: error (includes EOF, CR, LF) *)
  end.

(* run of the quoted states over the bytes after the opening quote; accepted iff the closing
   quote is reached and it is the LAST byte (the Parameter lexeme ends there) *)
Fixpoint qaccept (st : qstate) (s : bytes) : bool :=
  match s with
  | [] => false                              (* EOF pseudo byte: rejected in both states *)
  | c :: s' =>
    match qstep st c with
    | QNext st' => qaccept st' s'
    | QEnd => match s' with [] => true | _ => false end
    | QReject => false
    end
  end.

(* stateParameterStart: a lexeme whose first byte is DQUOTE is scanned by the quoted states *)
Definition accepts_quoted (q : bytes) : bool :=
  match q with
  | c :: r => (c =? 34) && qaccept QIn r
  | [] => false
  end.

(* Position of the byte at which the quoted states reject (index into the text that starts at
   the opening quote; index = length of the text stands for the EOF pseudo byte), None when the
   closing quote is reached.  i is the index of the head of s. *)
Fixpoint qrun (st : qstate) (s : bytes) (i : nat) : option nat :=
  match s with
  | [] => Some i
  | c :: s' =>
    match qstep st c with
    | QNext st' => qrun st' s' (S i)
    | QEnd => None
    | QReject => Some i
    end
  end.

(* state of the scanner after the bytes pre, all of which were consumed without leaving the
   quoted states (None: a closing quote or a rejection happened inside pre) *)
Fixpoint qafter (st : qstate) (pre : bytes) : option qstate :=
  match pre with
  | [] => Some st
  | c :: p =>
    match qstep st c with
    | QNext st' => qafter st' p
    | _ => None
    end
  end.

(* text = the rest of the file from the opening quote on.  A text that does not start with a
   quote never enters the quoted states: reported as position 0. *)
Definition quoted_reject_pos (t : bytes) : option nat :=
  match t with
  | c :: r => if c =? 34 then qrun QIn r 1 else Some 0%nat
  | [] => Some 0%nat
  end.

(* Length of the Parameter lexeme (opening quote .. closing quote, both included) that the
   quoted states cut out of the text: s.found(ParameterEnd) at the closing quote.  None when
   the text is rejected first. *)
Fixpoint qend (st : qstate) (s : bytes) (i : nat) : option nat :=
  match s with
  | [] => None
  | c :: s' =>
    match qstep st c with
    | QNext st' => qend st' s' (S i)
    | QEnd => Some (S i)
    | QReject => None
    end
  end.

Definition quoted_lexeme_len (t : bytes) : option nat :=
  match t with
  | c :: r => if c =? 34 then qend QIn r 1 else None
  | [] => None
  end.

(* stateParameterWoQuoted: an unquoted parameter is a non-empty run of bytes other than
   space, tab, CR, LF, '#', EOF(0) whose first byte is not DQUOTE (stateParameterStart) *)
Definition bare_byte (c : N) : bool :=
  negb ((c =? 32) || (c =? 9) || (c =? 13) || (c =? 10) || (c =? 35) || (c =? 0)).
Definition bare_param (s : bytes) : bool :=
  match s with
  | c :: _ => negb (c =? 34) && forallb bare_byte s
  | [] => false
  end.

(* no CR, LF, NUL: the values that can be written on one line *)
Definition line_byte (c : N) : bool := negb (is_newline c || (c =? 0)).
Definition single_line (s : bytes) : bool := forallb line_byte s.

(* ------------------------------------------------------------------------------------- *)
(* bytes/byte.go: IsValidUserTypeNameByte
     c == '-' || c == '_' || ('a' <= c && c <= 'z') || ('A' <= c && c <= 'Z') || IsDigit(c) *)
Definition is_valid_user_type_name_byte (c : N) : bool :=
  (c =? 45) || (c =? 95) || ((97 <=? c) && (c <=? 122)) || ((65 <=? c) && (c <=? 90)) ||
  ((48 <=? c) && (c <=? 57)).

(* bytes.go: func (b Bytes) IsUserTypeName() bool
     if len(b) < 2 || b[0] != '@' { return false } ; every b[1:] byte valid *)
Definition is_user_type_name (b : bytes) : bool :=
  match b with
  | c :: (_ :: _) as r => (c =? 64) && forallb is_valid_user_type_name_byte r
  | _ => false
  end.

(* parameter.go: func IsArrayOfTypes(b bytes.Bytes) bool
     l >= 4 && b[0] == '[' && b[l-1] == ']' && b[1:l-1].IsUserTypeName() *)
Definition is_array_of_types (b : bytes) : bool :=
  Nat.leb 4 (List.length b) && (hd 0 b =? 91) && (last b 0 =? 93) &&
  is_user_type_name (removelast (tl b)).

(* parameter.go: isSchemaNotation; notation.NewSchemaNotation: "jsight", "", "regex", "any", "empty" *)
Definition is_schema_notation (s : bytes) : bool :=
  beq s (bs "jsight") || beq s [] || beq s (bs "regex") || beq s (bs "any") || beq s (bs "empty").

Inductive param_result : Type :=
| PNamed (key value : bytes)   (* d.SetNamedParameter(key, s) *)
| PUnnamed (v : bytes)         (* d.AppendUnnamedParameter(s) *)
| PErr.                        (* fmt.Errorf("%s %q", jerr.IncorrectParameter, s) *)

(* the big switch of AppendParameter on the already unescaped value b (s = b.String()) *)
Definition classify_parameter (k : kind) (b : bytes) : param_result :=
  match k with
  | KURL | KGet | KPost | KPut | KPatch | KDelete => PNamed (bs "Path") b
  | KRequest | KHTTPResponseCode | KBody =>
    if is_schema_notation b then PNamed (bs "SchemaNotation") b
    else if is_array_of_types b then PNamed (bs "Type") b
    else if is_user_type_name b then PNamed (bs "Type") b
    else PErr                                   (* inner switch without match: falls to the end *)
  | KType =>
    if is_schema_notation b then PNamed (bs "SchemaNotation") b
    else if is_array_of_types b then PNamed (bs "Name") b
    else if is_user_type_name b then PNamed (bs "Name") b
    else PErr
  | KQuery =>
    if beq b (bs "htmlFormEncoded") || beq b (bs "noFormat") then PNamed (bs "Format") b
    else PNamed (bs "QueryExample") b
  | KJsight | KVersion => PNamed (bs "Version") b
  | KTitle => PNamed (bs "Title") b
  | KBaseURL => PNamed (bs "Path") b
  | KServer | KEnum | KMacro | KPaste =>
    if is_user_type_name b then PNamed (bs "Name") b else PErr
  | KProtocol => PNamed (bs "ProtocolName") b
  | KMethod => PNamed (bs "MethodName") b
  | KTAG => if is_user_type_name b then PNamed (bs "TagName") b else PErr
  | KTags => if is_user_type_name b then PUnnamed b else PErr
  | KInfo | KDescription | KPath | KHeaders | KInclude | KParams | KResult => PErr
  end.

(* parameter.go: func (d *Directive) AppendParameter(b bytes.Bytes) error
     b = unescapeParameter(b) ; s := b.String() ; switch d.Type() ...
   on a directive without parameters yet (the "already defined" error of SetNamedParameter is
   the caller model's business) *)
Definition append_parameter (k : kind) (b : bytes) : param_result :=
  classify_parameter k (unescape_parameter b).

(* kind by its index in DirectiveTables.all_kinds (= the Go Enumeration value); used by the
   model runner *)
Definition append_parameter_idx (i : nat) (b : bytes) : option param_result :=
  match nth_error all_kinds i with
  | Some k => Some (append_parameter k b)
  | None => None
  end.
