(* What the regenerated facts of gen/Collections.v must satisfy for "every method of a safe
   collection is one atomic transition" to hold.  DEFINITIONS ONLY; the obligations
   [locks_check collections = true] and [ops_check collections = true] are discharged by
   computation in proofs/OrderedMapProofs.v and break when a mutex is removed, a writer is
   downgraded to RLock, a helper is called without the lock, or a method body starts to denote
   another operation. *)
From Coq Require Import List String Ascii Bool Arith.
From JV.gen Require Import Collections.
Import ListNotations.
Local Open Scope string_scope.

Inductive access : Set := AWrite | ARead | AFresh.

(* what the normal form of each operation does to m.data / m.order *)
Definition op_access (o : op) : access :=
  match o with
  | OpSet | OpSetToTop | OpUpdate | OpMap | OpAdd => AWrite
  | OpGetValue | OpGet | OpHas | OpLen | OpFind | OpEach | OpEachReverse | OpEachSafe
  | OpMarshalJSON | OpData => ARead
  | OpNewFromSlice => AFresh          (* constructor: builds a value nobody else can see yet *)
  end.

Definition lock_eqb (a b : lock) : bool :=
  match a, b with
  | LkWrite, LkWrite | LkRead, LkRead | LkNone, LkNone => true
  | _, _ => false
  end.

(* does holding lock l make an access of kind a exclusive enough? *)
Definition lock_covers (l : lock) (a : access) : bool :=
  match a, l with
  | AFresh, _ => true
  | AWrite, LkWrite => true
  | ARead, LkWrite | ARead, LkRead => true
  | _, _ => false
  end.

(* Go: a method is unexported iff its name starts with a lower-case letter *)
Definition unexported (name : string) : bool :=
  match name with
  | String c _ => let n := nat_of_ascii c in Nat.leb 97 n && Nat.leb n 122
  | EmptyString => false
  end.

Fixpoint find_method (name : string) (ms : list method) : option method :=
  match ms with
  | [] => None
  | m :: r => if String.eqb (m_name m) name then Some m else find_method name r
  end.

Fixpoint smem (s : string) (l : list string) : bool :=
  match l with
  | [] => false
  | x :: r => String.eqb x s || smem s r
  end.

Definition callers (name : string) (ms : list method) : list method :=
  filter (fun m => smem name (m_calls m)) ms.

(* the access a method performs, including through the unlocked helpers it calls (one level:
   helpers that call further receiver methods are rejected below) *)
Definition method_ok (ms : list method) (m : method) : bool :=
  let acc := op_access (m_op m) in
  (* every callee is a known method of the same collection *)
  forallb (fun c => match find_method c ms with Some _ => true | None => false end) (m_calls m)
  &&
  match acc with
  | AFresh => lock_eqb (m_lock m) LkNone && match m_calls m with [] => true | _ => false end
  | _ =>
    match m_lock m with
    | LkNone =>
      (* only an unexported helper may touch the state without locking, it must not call on,
         it must have at least one caller, and all its callers hold a sufficient lock *)
      unexported (m_name m)
      && match m_calls m with [] => true | _ => false end
      && negb (match callers (m_name m) ms with [] => true | _ => false end)
      && forallb (fun c => negb (lock_eqb (m_lock c) LkNone) && lock_covers (m_lock c) acc) (callers (m_name m) ms)
    | l =>
      lock_covers l acc
      (* sync.RWMutex is not re-entrant: a locked method calls unlocked helpers only *)
      && forallb (fun c => match find_method c ms with
                           | Some cm => lock_eqb (m_lock cm) LkNone
                           | None => false
                           end) (m_calls m)
    end
  end.

Fixpoint names_unique (l : list string) : bool :=
  match l with
  | [] => true
  | x :: r => negb (smem x r) && names_unique r
  end.

Definition safe_collection_ok (c : collection) : bool :=
  c_has_mutex c && names_unique (map m_name (c_methods c)) && forallb (method_ok (c_methods c)) (c_methods c).

(* The unlocked variant is NOT covered by the property; it is excluded by name, so that turning
   another collection into the unsafe variant breaks the obligation. *)
Definition unsafe_excluded : list string := ["UserSchemas"].

(* the collections the property speaks about: they must be present and be safe variants *)
Definition safe_expected : list string :=
  ["Interactions"; "Servers"; "Tags"; "UserTypes"; "UserRules"; "Directives"; "StringSet"].

Definition collection_ok (c : collection) : bool :=
  match c_variant c with
  | VOrderedMap | VSet => safe_collection_ok c
  | VUnsafeOrderedMap =>
    smem (c_name c) unsafe_excluded && negb (c_has_mutex c)
    && forallb (fun m => lock_eqb (m_lock m) LkNone) (c_methods c)
  end.

Definition is_safe_variant (c : collection) : bool :=
  match c_variant c with VOrderedMap | VSet => true | VUnsafeOrderedMap => false end.

Definition locks_check (cs : list collection) : bool :=
  forallb collection_ok cs
  && forallb (fun n => existsb (fun c => String.eqb (c_name c) n && is_safe_variant c) cs) safe_expected
  && names_unique (map c_name cs).

(* ---- method name <-> operation of the model ---- *)
Definition op_eqb (a b : op) : bool :=
  match a, b with
  | OpSet, OpSet | OpSetToTop, OpSetToTop | OpUpdate, OpUpdate | OpGetValue, OpGetValue
  | OpGet, OpGet | OpHas, OpHas | OpLen, OpLen | OpFind, OpFind | OpEach, OpEach
  | OpEachReverse, OpEachReverse | OpEachSafe, OpEachSafe | OpMap, OpMap
  | OpMarshalJSON, OpMarshalJSON | OpAdd, OpAdd | OpData, OpData | OpNewFromSlice, OpNewFromSlice => true
  | _, _ => false
  end.

Definition expected_op (v : variant) (name : string) : option op :=
  match v with
  | VOrderedMap | VUnsafeOrderedMap =>
    if String.eqb name "Set" then Some OpSet
    else if String.eqb name "SetToTop" then Some OpSetToTop
    else if String.eqb name "Update" then Some OpUpdate
    else if String.eqb name "GetValue" then Some OpGetValue
    else if String.eqb name "Get" then Some OpGet
    else if String.eqb name "Has" then Some OpHas
    else if String.eqb name "has" then Some OpHas
    else if String.eqb name "Len" then Some OpLen
    else if String.eqb name "Find" then Some OpFind
    else if String.eqb name "Each" then Some OpEach
    else if String.eqb name "EachReverse" then Some OpEachReverse
    else if String.eqb name "EachSafe" then Some OpEachSafe
    else if String.eqb name "Map" then Some OpMap
    else if String.eqb name "MarshalJSON" then Some OpMarshalJSON
    else None
  | VSet =>
    if String.eqb name "NewStringSet" then Some OpNewFromSlice
    else if String.eqb name "Add" then Some OpAdd
    else if String.eqb name "Has" then Some OpHas
    else if String.eqb name "has" then Some OpHas
    else if String.eqb name "Len" then Some OpLen
    else if String.eqb name "Data" then Some OpData
    else None
  end.

(* methods the rest of the library relies on; each must exist in every collection of the variant *)
Definition required_methods (v : variant) : list string :=
  match v with
  | VOrderedMap => ["Set"; "SetToTop"; "Update"; "GetValue"; "Get"; "Has"; "Len"; "Find"; "Each";
                    "EachReverse"; "EachSafe"; "Map"; "MarshalJSON"]
  | VUnsafeOrderedMap => ["Set"; "Update"; "GetValue"; "Get"; "Has"; "Len"; "Each"; "EachSafe"; "Map"; "MarshalJSON"]
  | VSet => ["Add"; "Has"; "Len"; "Data"]
  end.

Definition collection_ops_ok (c : collection) : bool :=
  forallb (fun m => match expected_op (c_variant c) (m_name m) with
                    | Some o => op_eqb o (m_op m)
                    | None => false
                    end) (c_methods c)
  && forallb (fun n => smem n (map m_name (c_methods c))) (required_methods (c_variant c)).

Definition ops_check (cs : list collection) : bool := forallb collection_ops_ok cs.

(* diagnosis: the (collection, method) pairs that make locks_check / ops_check fail *)
Definition locks_failures (cs : list collection) : list (string * string) :=
  app
    (flat_map (fun c =>
      match c_variant c with
      | VOrderedMap | VSet =>
        app (if c_has_mutex c then [] else [(c_name c, "(no mutex field)")])
            (map (fun m => (c_name c, m_name m)) (filter (fun m => negb (method_ok (c_methods c) m)) (c_methods c)))
      | VUnsafeOrderedMap => if collection_ok c then [] else [(c_name c, "(unsafe variant not on the exclusion list)")]
      end) cs)
    (map (fun n => (n, "(expected safe collection is missing)"))
         (filter (fun n => negb (existsb (fun c => String.eqb (c_name c) n && is_safe_variant c) cs)) safe_expected)).

Definition ops_failures (cs : list collection) : list (string * string) :=
  flat_map (fun c =>
    app
      (map (fun m => (c_name c, m_name m))
           (filter (fun m => match expected_op (c_variant c) (m_name m) with
                             | Some o => negb (op_eqb o (m_op m))
                             | None => true
                             end) (c_methods c)))
      (map (fun n => (c_name c, String.append n " (missing)"))
           (filter (fun n => negb (smem n (map m_name (c_methods c)))) (required_methods (c_variant c))))) cs.
