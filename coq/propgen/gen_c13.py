import sys
import os
sys.path.insert(0, os.path.dirname(os.path.abspath(__file__)))
from genprops import *
B2 = PP + " " + BT
p = os.path.join(COQ, "props", "C13.v")
orig = open(p).read()
MARK = "\n(* ------------------------------------------------------------------------------------------ *)\n(* binding: model/Catalog.v"
if MARK in orig:
    orig = orig[:orig.index(MARK)]      # regenerate the binding part only
assert "binding_correct" not in orig
orig = orig.replace("From JV.model Require Import PathParams.\nFrom JV.proofs Require Import PathParamsProofs.",
                    "From JV.gen Require Import DirectiveTables.\nFrom JV.model Require Import PathParams Core Catalog.\nFrom JV.proofs Require Import PathParamsProofs StaticChecksProofs PathBindingProofs.")
assert "PathBindingProofs" in orig
orig = orig.replace("From Coq Require Import List NArith Bool Permutation.", "From Coq Require Import List NArith Bool Permutation String.")
items = [
 ("collect_paths_all_is_the_fold", "P", "collect_paths_all_run", PP, None),
 ("visited_nodes_are_nodes", "P", "pnodes_all_preorder", "", None),
 ("collect_paths_all_spec", "P", "collect_paths_all_spec", PP, "what the Path directives contribute: one rawpv per Path node, in order (path_decl)"),
 ("bind_all_spec", "P", "bind_all_has", "", "bind_all spelled out: a prefix is bound iff it was bound before or some rawpv declares it"),
 ("binding_correct", "P", "binding_correct_lemma", B2,
  "binding_correct: for an accepted build, pathVariables of every HTTP interaction = the names of those {name} segments of its path (params_of, in path order) whose prefix some Path directive of the project declares"),
 ("prefix_determines_name", "P", "prefix_determines_name", "", "the prefix ends in the {name} segment itself: the property bound at a prefix has the name of the segment"),
 ("no_declaration_no_pathvars", "P", "no_declaration_lemma", B2, None),
 ("unmatched_property_rejected", "P", "unmatched_property_lemma", B2, "\"Has unused parameters\": a Path property matching no {name} segment of the path"),
 ("duplicate_prefix_rejected", "P", "duplicate_prefix_lemma", B2, "\"has already been defined earlier\": a parameter declared twice for one prefix"),
 ("bad_path_of_url_or_method_rejected", "P", "bad_path_url_or_method_lemma", B2,
  "empty or repeated {name} (checked_rejects_empty / checked_rejects_dup: bad_path p <-> path_parameters_checked p is PEmptyParam or PDup) at URL and HTTP-method directives"),
 ("bad_path_of_path_directive_rejected", "P", "bad_path_path_directive_lemma", B2, "... and at Path directives"),
 ("path_body_not_flat_rejected", "P", "path_body_not_flat_lemma", B2, "a Path body that is not a flat object (the oracle answers None)"),
 ("path_without_body_rejected", "P", "path_without_body_lemma", B2, None),
]
add = '''
(* ------------------------------------------------------------------------------------------ *)
(* binding: model/Catalog.v collect_paths_all, bind_all, path_vars_of, set_pathvars, build
   (proofs/PathBindingProofs.v).  pnodes_all post = the nodes collectPaths visits (pre-order, MACRO
   subtrees skipped) with ancestors and the flag "an earlier sibling is a Path"; declares pp post
   prefix name = some Path directive of the project has (prefix, name) among the parameters of its
   path and a property called name in its body (oracle pp); node_declares: the same for one node. *)
''' + "\n".join(thm(*it) for it in items)
add = add.replace("declares post", "declares pp post").replace("node_declares x", "node_declares pp x").replace("node_declares y", "node_declares pp y").replace("node_declares pp pp", "node_declares pp").replace("cp_run (", "cp_run pp (").replace("Forall2 path_decl", "Forall2 (path_decl pp)")
add += '''
(* bad_path in the vocabulary of checked_rejects_empty / checked_rejects_dup *)
Theorem bad_path_iff : forall p,
  bad_path p <-> (path_parameters_checked p = GOk PEmptyParam \\/ exists n, path_parameters_checked p = GOk (PDup n)).
Proof. exact bad_path_iff_lemma. Qed.
Print Assumptions bad_path_iff.

(* examples, by computation (proofs/PathBindingProofs.v, Module C13Examples) *)
Theorem binding_example :
  C13Examples.pathvars (C13Examples.go13 C13Examples.f1) =
  [(bs "http GET /a/{id}"%string, [bs "id"%string]); (bs "http GET /a/{id}/b/{sub}"%string, [bs "id"%string; bs "sub"%string]);
   (bs "http POST /a/{id}/c"%string, [bs "id"%string]); (bs "http GET /x/{q}"%string, [])].
Proof. exact C13Examples.ex_binding. Qed.
Print Assumptions binding_example.
'''
open(p, "w").write(orig + add)
