"""helpers of gen_c11.py / gen_c13.py: props/C11.v and the binding part of props/C13.v are generated from the
lemma statements of proofs/StaticChecksProofs.v and proofs/PathBindingProofs.v (run: python3 coq/propgen/gen_c11.py;
python3 coq/propgen/gen_c13.py)"""
import os, re, sys
COQ = os.path.dirname(os.path.dirname(os.path.abspath(__file__)))
src = {"S": open(COQ + "/proofs/StaticChecksProofs.v").read(), "P": open(COQ + "/proofs/PathBindingProofs.v").read()}
PP = "(pp : coords -> option (list bytes))"
BT = "(bt : coords -> bytes)"


def stmt(f, lemma):
    m = re.search(r"^\s*(?:Lemma|Example) " + re.escape(lemma) + r"\b(.*?)\.\s*\n\s*Proof", src[f], re.S | re.M)
    assert m, lemma
    return " ".join(m.group(1).split())


def thm(name, f, lemma, binders, comment=None):
    s = stmt(f, lemma)
    # split "binders : statement" at the first top-level " : "
    depth = 0
    idx = None
    for i, ch in enumerate(s):
        if ch in "([{":
            depth += 1
        elif ch in ")]}":
            depth -= 1
        elif ch == ":" and depth == 0 and s[i + 1] != "=" and (i == 0 or s[i - 1] == " "):
            idx = i
            break
    b, body = s[:idx].strip(), s[idx + 1:].strip()
    out = []
    if comment:
        out.append("(* " + comment + " *)")
    allb = (binders + " " + b).strip()
    out.append("Theorem %s :\n  %s%s." % (name, ("forall " + allb + ",\n  ") if allb else "", wrap(body)))
    out.append("Proof. exact %s. Qed." % lemma)
    out.append("Print Assumptions %s.\n" % name)
    return "\n".join(out)


def wrap(body):
    out, depth, binder, i = [], 0, False, 0
    while i < len(body):
        ch = body[i]
        if ch in "([{":
            depth += 1
        elif ch in ")]}":
            depth -= 1
        if depth == 0:
            for kw in ("exists ", "forall ", "fun "):
                if body.startswith(kw, i) and (i == 0 or not body[i - 1].isalnum()):
                    binder = True
            if binder and (ch == "," or body.startswith("=>", i)):
                binder = False
            if not binder and body.startswith(" -> ", i):
                out.append(" ->\n  ")
                i += 4
                continue
        out.append(ch)
        i += 1
    return "".join(out)
