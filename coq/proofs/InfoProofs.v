(* C04 (d): JSIGHT version and INFO / Title / Version, traced through the run *)
From Coq Require Import List NArith Bool String Lia.
From JV.lib Require Import Bytes.
From JV.gen Require Import DirectiveTables TagName.
From JV.model Require Import ScannerSem Core Description PathParams TagTitle Catalog.
From JV.proofs Require Import BytesLemmas TagNameProofs CatalogProofs FaithfulProofs.
Import ListNotations.
Open Scope N_scope.

Definition has_info (c : catalog) : bool := match c_info c with Some _ => true | None => false end.
Definition info_version (c : catalog) : bytes := match c_info c with Some i => in_version i | None => [] end.

(* a field that is set once, by the directives of one kind *)
Definition set_once (f : catalog -> bytes) (K : kind) (v : dtree -> bytes) (t : dtree) (c c' : catalog) : Prop :=
  if kind_eqb (dk t) K then f c = [] /\ f c' = v t /\ v t <> [] else f c' = f c.

Record istep (t : dtree) (c c' : catalog) : Prop := {
  is_jsight : set_once c_jsight KJsight (fun t => named (tree_dir t) (bs "Version")) t c c';
  is_jsight_03 : dk t = KJsight -> named (tree_dir t) (bs "Version") = bs "0.3";
  is_title : set_once japi_title KTitle (fun t => named (tree_dir t) (bs "Title")) t c c';
  is_version : set_once info_version KVersion (fun t => named (tree_dir t) (bs "Version")) t c c';
  is_info : if kind_eqb (dk t) KInfo
            then c_info c = None /\ c_info c' = Some {| in_title := []; in_version := []; in_desc := None; in_dir := tree_dir t |}
            else has_info c' = has_info c /\
                 (forall i, c_info c = Some i -> exists i', c_info c' = Some i' /\ in_dir i' = in_dir i)
}.

Lemma nonempty_of_beq_false (v : bytes) : beq v [] = false -> v <> [].
Proof. intros H E. subst v. discriminate H. Qed.

Section InfoStep.
  Variable body_text : coords -> bytes.
  Variable banned : list kind.

  Lemma add_request_info d anc b b' : add_request d anc b = COk b' ->
    c_jsight (b_cat b') = c_jsight (b_cat b) /\ c_info (b_cat b') = c_info (b_cat b).
  Proof.
    unfold add_request, kerr, get_http. intro H. cbv beta zeta in H.
    destruct (kind_eqb (d_kind d) KRequest); walk H; inversion H; subst b'; clear H; split; reflexivity.
  Qed.

  Lemma add_response_info d anc b b' : add_response d anc b = COk b' ->
    c_jsight (b_cat b') = c_jsight (b_cat b) /\ c_info (b_cat b') = c_info (b_cat b).
  Proof.
    unfold add_response, kerr, get_http. intro H. cbv beta zeta in H. unfold cbind in H.
    walk H; inversion H; subst b'; clear H; split; reflexivity.
  Qed.

  Lemma info_step t anc b b' :
    add_directive body_text banned t anc b = COk b' -> istep t (b_cat b) (b_cat b').
  Proof.
    intro H. unfold add_directive in H. cbv zeta in H.
    destruct (kind_in (d_kind (tree_dir t)) banned); [discriminate H|].
    destruct (d_kind (tree_dir t)) eqn:Hk; kcompute_in H; cbv beta iota delta [orb] in H.
    all: try (assert (Hsame : c_jsight (b_cat b') = c_jsight (b_cat b) /\ c_info (b_cat b') = c_info (b_cat b));
              [ try unfold kerr in H; try unfold berr in H; try unfold cbind in H; try unfold get_http in H; try unfold get_rpc in H;
                walk H;
                first [ exact (add_request_info _ _ _ _ H)
                      | exact (add_response_info _ _ _ _ H)
                      | inversion H; try subst b'; clear H; rewrite ?b_cat_with_cat;
                        try match goal with Hc : check_path _ _ _ = COk ?a |- _ => simpl; rewrite (check_path_cat _ _ _ _ Hc) end;
                        split; reflexivity ]
              | destruct Hsame as [Hj Hi]; constructor; unfold set_once, dk, japi_title, info_version, has_info; rewrite Hk;
                [ cbv beta iota; try exact Hj | intro E; discriminate E | cbv beta iota; rewrite Hi; reflexivity
                | cbv beta iota; rewrite Hi; reflexivity
                | cbv beta iota; rewrite Hi; split; [reflexivity | intros i E; exists i; split; [exact E | reflexivity]] ] ]).
    - (* JSIGHT *)
      unfold kerr in H. walk H. inversion H; subst b'; clear H. rewrite b_cat_with_cat.
      apply negb_false_iff in Heqb1. apply beq_eq in Heqb1. apply negb_false_iff in Heqb3. apply beq_eq in Heqb3.
      constructor; unfold set_once, dk, japi_title, info_version, has_info; rewrite ?Hk; cbv beta iota; simpl.
      + repeat split; auto. intro E. apply (f_equal (@List.length N)) in E. simpl in Heqb1. rewrite Heqb1 in E. discriminate E.
      + intros _. exact Heqb1.
      + reflexivity.
      + reflexivity.
      + split; [reflexivity | intros i E; exists i; split; [exact E | reflexivity]].
    - (* INFO *)
      unfold kerr in H. walk H. inversion H; subst b'; clear H. rewrite b_cat_with_cat.
      constructor; unfold set_once, dk, japi_title, info_version, has_info; rewrite ?Hk; cbv beta iota; simpl;
        rewrite ?Heqo; try reflexivity.
      + intro E; discriminate E.
      + split; reflexivity.
    - (* Title *)
      unfold kerr in H. walk H. inversion H; subst b'; clear H. rewrite b_cat_with_cat.
      match goal with Hx : negb (beq (in_title _) []) = false |- _ => apply negb_false_iff in Hx; apply beq_eq in Hx; rename Hx into Hold end.
      match goal with Hx : beq (named _ _) [] = false |- _ => rename Hx into Hnew end.
      constructor; unfold set_once, dk, japi_title, info_version, has_info; rewrite ?Hk; cbv beta iota; simpl;
        rewrite ?Heqo; try reflexivity.
      + intro E; discriminate E.
      + repeat split; auto. apply nonempty_of_beq_false; exact Hnew.
      + split; [reflexivity | intros i0 E; inversion E; subst; eexists; split; reflexivity].
    - (* Version *)
      unfold kerr in H. walk H. inversion H; subst b'; clear H. rewrite b_cat_with_cat.
      match goal with Hx : negb (beq (in_version _) []) = false |- _ => apply negb_false_iff in Hx; apply beq_eq in Hx; rename Hx into Hold end.
      match goal with Hx : beq (named _ _) [] = false |- _ => rename Hx into Hnew end.
      constructor; unfold set_once, dk, japi_title, info_version, has_info; rewrite ?Hk; cbv beta iota; simpl;
        rewrite ?Heqo; try reflexivity.
      + intro E; discriminate E.
      + repeat split; auto. apply nonempty_of_beq_false; exact Hnew.
      + split; [reflexivity | intros i0 E; inversion E; subst; eexists; split; reflexivity].
    - (* Description *)
      unfold kerr, berr, get_http, get_rpc in H. walk H; inversion H; subst b'; clear H; rewrite b_cat_with_cat;
        constructor; unfold set_once, dk, japi_title, info_version, has_info; rewrite ?Hk; cbv beta iota; simpl;
        rewrite ?Heqo2; try reflexivity; try (intro E; discriminate E);
        try (split; [reflexivity | intros i1 E; try (inversion E; subst); eexists; split; try eassumption; reflexivity]).
  Qed.
End InfoStep.

Section RunInfo.
  Variable body_text : coords -> bytes.
  Variable banned : list kind.
  Variable f : catalog -> bytes.
  Variable K : kind.
  Variable v : dtree -> bytes.
  Hypothesis Hstep : forall t anc b b', add_directive body_text banned t anc b = COk b' ->
                                        set_once f K v t (b_cat b) (b_cat b').

  Lemma run_nonempty_stays l : forall b b', run body_text banned l b = COk b' -> f (b_cat b) <> [] ->
    f (b_cat b') = f (b_cat b) /\ forall p, In p l -> dk (fst p) <> K.
  Proof.
    induction l as [|p r IH]; intros b b' H Hne; simpl in H.
    - inversion H; subst. split; [reflexivity | intros p []].
    - destruct (add_directive body_text banned (fst p) (snd p) b) as [b1| | |] eqn:E; simpl in H; try discriminate H.
      apply Hstep in E. unfold set_once in E. destruct (kind_eqb (dk (fst p)) K) eqn:Ek.
      + destruct E as [E _]. contradiction.
      + destruct (IH _ _ H) as [A B]; [rewrite E; exact Hne|]. split; [congruence|].
        intros q [<-|Hq]; [|exact (B q Hq)]. intro Hk. apply kind_eqb_eq in Hk. congruence.
  Qed.

  Lemma run_set_once l : forall b b', run body_text banned l b = COk b' ->
    (forall p, In p l -> dk (fst p) = K -> f (b_cat b') = v (fst p)) /\
    ((forall p, In p l -> dk (fst p) <> K) -> f (b_cat b') = f (b_cat b)).
  Proof.
    induction l as [|p r IH]; intros b b' H; simpl in H.
    - inversion H; subst. split; [intros p [] | reflexivity].
    - destruct (add_directive body_text banned (fst p) (snd p) b) as [b1| | |] eqn:E; simpl in H; try discriminate H.
      apply Hstep in E. unfold set_once in E. destruct (kind_eqb (dk (fst p)) K) eqn:Ek.
      + destruct E as [_ [E1 E2]]. destruct (run_nonempty_stays r _ _ H) as [A B]; [rewrite E1; exact E2|].
        split.
        * intros q [<-|Hq] Hk; [congruence | exfalso; exact (B q Hq Hk)].
        * intro Hno. exfalso. apply (Hno p (or_introl eq_refl)). apply kind_eqb_eq; exact Ek.
      + destruct (IH _ _ H) as [A B]. split.
        * intros q [<-|Hq] Hk; [apply kind_eqb_eq in Hk; congruence | exact (A q Hq Hk)].
        * intro Hno. rewrite B; [exact E | intros q Hq; apply Hno; right; exact Hq].
  Qed.
End RunInfo.

Section RunInfoDir.
  Variable body_text : coords -> bytes.
  Variable banned : list kind.

  Lemma run_info_kept l : forall b b' i, run body_text banned l b = COk b' -> c_info (b_cat b) = Some i ->
    (exists i', c_info (b_cat b') = Some i' /\ in_dir i' = in_dir i) /\ forall p, In p l -> dk (fst p) <> KInfo.
  Proof.
    induction l as [|p r IH]; intros b b' i H Hi; simpl in H.
    - inversion H; subst. split; [exists i; split; [exact Hi | reflexivity] | intros p []].
    - destruct (add_directive body_text banned (fst p) (snd p) b) as [b1| | |] eqn:E; simpl in H; try discriminate H.
      apply info_step in E. destruct E as [_ _ _ _ E]. destruct (kind_eqb (dk (fst p)) KInfo) eqn:Ek.
      + destruct E as [E _]. congruence.
      + destruct E as [_ E]. destruct (E i Hi) as [i1 [A B]].
        destruct (IH _ _ _ H A) as [[i' [C D]] F]. split; [exists i'; split; [exact C | congruence]|].
        intros q [<-|Hq]; [|exact (F q Hq)]. intro Hk. apply kind_eqb_eq in Hk. congruence.
  Qed.

  Lemma run_info l : forall b b', run body_text banned l b = COk b' ->
    (forall p, In p l -> dk (fst p) = KInfo -> exists i, c_info (b_cat b') = Some i /\ in_dir i = tree_dir (fst p)) /\
    ((forall p, In p l -> dk (fst p) <> KInfo) -> has_info (b_cat b') = has_info (b_cat b)).
  Proof.
    induction l as [|p r IH]; intros b b' H; simpl in H.
    - inversion H; subst. split; [intros p [] | reflexivity].
    - destruct (add_directive body_text banned (fst p) (snd p) b) as [b1| | |] eqn:E; simpl in H; try discriminate H.
      apply info_step in E. destruct E as [_ _ _ _ E]. destruct (kind_eqb (dk (fst p)) KInfo) eqn:Ek.
      + destruct E as [_ E]. destruct (run_info_kept r _ _ _ H E) as [[i' [A B]] C]. split.
        * intros q [<-|Hq] Hk; [exists i'; split; [exact A | exact B] | exfalso; exact (C q Hq Hk)].
        * intro Hno. exfalso. apply (Hno p (or_introl eq_refl)). apply kind_eqb_eq; exact Ek.
      + destruct E as [E _]. destruct (IH _ _ H) as [A B]. split.
        * intros q [<-|Hq] Hk; [apply kind_eqb_eq in Hk; congruence | exact (A q Hq Hk)].
        * intro Hno. rewrite B; [exact E | intros q Hq; apply Hno; right; exact Hq].
  Qed.
End RunInfoDir.

Section InfoFaithful.
  Variable path_props : coords -> option (list bytes).
  Variable body_text : coords -> bytes.
  Variable banned : list kind.
  Variable post : list dtree.
  Variable c : catalog.
  Hypothesis Hbuild : build path_props body_text banned post = COk c.

  Definition no_kind (K : kind) : Prop := forall p, In p (positions_all post) -> dk (fst p) <> K.

  (* jsight / INFO / Title / Version come from the directives of these kinds, of which there is at most one each *)
  Theorem info_faithful_lemma :
    (forall p, In p (positions_all post) -> dk (fst p) = KJsight ->
       c_jsight c = named (tree_dir (fst p)) (bs "Version") /\ c_jsight c = bs "0.3") /\
    (no_kind KJsight -> c_jsight c = []) /\
    (forall p, In p (positions_all post) -> dk (fst p) = KTitle -> japi_title c = named (tree_dir (fst p)) (bs "Title")) /\
    (no_kind KTitle -> japi_title c = []) /\
    (forall p, In p (positions_all post) -> dk (fst p) = KVersion -> info_version c = named (tree_dir (fst p)) (bs "Version")) /\
    (no_kind KVersion -> info_version c = []) /\
    (forall p, In p (positions_all post) -> dk (fst p) = KInfo -> exists i, c_info c = Some i /\ in_dir i = tree_dir (fst p)) /\
    (no_kind KInfo -> c_info c = None).
  Proof.
    destruct (build_run _ _ _ _ _ Hbuild) as [en [tg [b [all [He [Ht [Hrun Hc]]]]]]].
    assert (Hj : c_jsight c = c_jsight (b_cat b)) by (subst c; reflexivity).
    assert (Hi : c_info c = c_info (b_cat b)) by (subst c; reflexivity).
    assert (Htt : japi_title c = japi_title (b_cat b)) by (unfold japi_title; rewrite Hi; reflexivity).
    assert (Hv : info_version c = info_version (b_cat b)) by (unfold info_version; rewrite Hi; reflexivity).
    destruct (run_set_once body_text banned c_jsight KJsight _ (fun t anc b0 b1 H => is_jsight _ _ _ (info_step _ _ t anc b0 b1 H)) _ _ _ Hrun) as [J1 J2].
    destruct (run_set_once body_text banned japi_title KTitle _ (fun t anc b0 b1 H => is_title _ _ _ (info_step _ _ t anc b0 b1 H)) _ _ _ Hrun) as [T1 T2].
    destruct (run_set_once body_text banned info_version KVersion _ (fun t anc b0 b1 H => is_version _ _ _ (info_step _ _ t anc b0 b1 H)) _ _ _ Hrun) as [V1 V2].
    destruct (run_info body_text banned _ _ _ Hrun) as [I1 I2].
    repeat split.
    - rewrite Hj. apply J1; assumption.
    - rewrite Hj, (J1 p H H0).
      destruct (build_visits _ _ _ _ _ (fst p) (snd p) Hbuild) as [s [s' [_ Hs]]];
        [apply positions_all_occurs; destruct p; exact H|].
      exact (is_jsight_03 _ _ _ (info_step _ _ _ _ _ _ Hs) H0).
    - intro Hno. rewrite Hj. apply J2. exact Hno.
    - intros p Hp Hk. rewrite Htt. apply T1; assumption.
    - intro Hno. rewrite Htt. apply T2. exact Hno.
    - intros p Hp Hk. rewrite Hv. apply V1; assumption.
    - intro Hno. rewrite Hv. apply V2. exact Hno.
    - intros p Hp Hk. rewrite Hi. apply I1; assumption.
    - intro Hno. rewrite Hi. specialize (I2 Hno). unfold has_info in I2. simpl in I2.
      destruct (c_info (b_cat b)); [discriminate I2 | reflexivity].
  Qed.
End InfoFaithful.
