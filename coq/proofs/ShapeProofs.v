(* Context resolution and macro expansion depend on what a directive IS, not on WHERE it stands.

   The SHAPE of a directive is everything but its byte coordinates and file names: kind, keyword
   bytes, named and unnamed parameters, annotation, whether a body is present, the '(' flag.
   What the model reads to DECIDE (model/Core.v):
     process_context   d_kind (of the directive and of every open frame), named d "Path" (hoist
                       rule for a path-bearing method), d_explicit (of the open frames)
     close_explicit / has_unclosed_explicit      d_explicit
     collect_macro     d_kind, d_annot, named d "Name", whether the node has children
     check_macro / find_paste                    d_kind, named d "Name"
     paste_list        d_kind, d_annot, named d "Name", d_explicit
   d_kw (c_file, c_beg, c_end), the coordinates inside d_body and d_trace are read by kw_err and
   wrap_paste only, i.e. to BUILD the error value.  The theorems below say so for all inputs:
   two inputs of equal shape give results of equal shape; an error is raised for the directive
   at the same place in both inputs, and its value is kw_err of that directive with one and the
   same error kind.

   The simulation is proved once, for an arbitrary relation R between directives that implies
   equality of shapes (Section Sim); R is then taken to be "equal shapes" (context resolution)
   and "equal shapes, at the same place of the two forests" (expansion). *)
From Coq Require Import List NArith Bool String Lia Arith.
From JV.lib Require Import Bytes.
From JV.gen Require Import DirectiveTables.
From JV.model Require Import Core.
From JV.spec Require Import ContextSpec.
From JV.proofs Require Import ContextProofs IncludeProofs.
Import ListNotations.
Local Arguments bs : simpl never.

(* ------------------------------------------------------------------------------------------ *)
(* shapes                                                                                      *)
(* ------------------------------------------------------------------------------------------ *)

Record dshape_t : Set := {
  s_kind : kind;
  s_keyword : bytes;
  s_named : list (bytes * bytes);
  s_unnamed : list bytes;
  s_annot : bytes;
  s_has_body : bool;
  s_explicit : bool
}.

Definition dshape (d : directive) : dshape_t :=
  {| s_kind := d_kind d; s_keyword := d_keyword d; s_named := d_named d; s_unnamed := d_unnamed d;
     s_annot := d_annot d; s_has_body := match d_body d with Some _ => true | None => false end;
     s_explicit := d_explicit d |}.

Inductive stree : Set := SNode (s : dshape_t) (kids : list stree).

Fixpoint tshape (t : dtree) : stree :=
  match t with DNode d kids => SNode (dshape d) (map tshape kids) end.

Inductive sitem : Set := SDir (s : dshape_t) | SClose.
Definition ishape (it : item) : sitem :=
  match it with IDir d => SDir (dshape d) | IClose => SClose end.

(* the shape of an error: its kind and the shape of the directive it is about (None: an error
   of the scan position - ')' without '(' , '(' open at the end) *)
Record eshape_t : Set := { es_kind : cerr_kind; es_about : option dshape_t }.
Definition eshape (about : option directive) (e : cerr) : eshape_t :=
  {| es_kind := ce_kind e; es_about := option_map dshape about |}.

(* the error VALUE is what kw_err builds from the coordinates of the directive it is about *)
Definition located (about : option directive) (e : cerr) : Prop :=
  match about with
  | Some d => e = kw_err d (ce_kind e)
  | None => e = ctx_err (ce_kind e)
  end.

Lemma shape_kind a b : dshape a = dshape b -> d_kind a = d_kind b.
Proof. intro H. exact (f_equal s_kind H). Qed.
Lemma shape_explicit a b : dshape a = dshape b -> d_explicit a = d_explicit b.
Proof. intro H. exact (f_equal s_explicit H). Qed.
Lemma shape_annot a b : dshape a = dshape b -> d_annot a = d_annot b.
Proof. intro H. exact (f_equal s_annot H). Qed.
Lemma shape_named a b k : dshape a = dshape b -> named a k = named b k.
Proof. intro H. unfold named. now rewrite (f_equal s_named H : d_named a = d_named b). Qed.

Definition sroot (s : stree) : dshape_t := match s with SNode x _ => x end.
Definition skids (s : stree) : list stree := match s with SNode _ k => k end.
Lemma tshape_inv d1 k1 d2 k2 :
  tshape (DNode d1 k1) = tshape (DNode d2 k2) -> dshape d1 = dshape d2 /\ map tshape k1 = map tshape k2.
Proof. intro H. split; [exact (f_equal sroot H)|exact (f_equal skids H)]. Qed.
Lemma cons_inv {A} (a b : A) l l' : a :: l = b :: l' -> a = b /\ l = l'.
Proof. intro H. now inversion H. Qed.

(* induction on trees with the hypothesis for every child *)
Section DtreeInd.
  Variable P : dtree -> Prop.
  Hypothesis Hnode : forall d kids, Forall P kids -> P (DNode d kids).
  Fixpoint dtree_ind_kids (t : dtree) : P t :=
    match t with
    | DNode d kids =>
      Hnode d kids ((fix go (l : list dtree) : Forall P l :=
                       match l with
                       | [] => Forall_nil P
                       | x :: r => Forall_cons x (dtree_ind_kids x) (go r)
                       end) kids)
    end.
End DtreeInd.

Lemma Forall2_rev_both {A B} (P : A -> B -> Prop) l1 l2 :
  Forall2 P l1 l2 -> Forall2 P (rev l1) (rev l2).
Proof.
  induction 1 as [|a b r1 r2 Hab Hr IH]; simpl; [constructor|].
  apply Forall2_app; [exact IH|]. constructor; [exact Hab|constructor].
Qed.

Lemma Forall2_len {A B} (P : A -> B -> Prop) l1 l2 : Forall2 P l1 l2 -> List.length l1 = List.length l2.
Proof. induction 1; simpl; congruence. Qed.

(* results related component-wise *)
Definition cres_rel {A} (RA : A -> A -> Prop) (RE : cerr -> cerr -> Prop) (r1 r2 : cres A) : Prop :=
  match r1, r2 with
  | COk a, COk b => RA a b
  | CErr e1, CErr e2 => RE e1 e2
  | CPanic w1, CPanic w2 => w1 = w2
  | CFuel, CFuel => True
  | _, _ => False
  end.

Lemma cbind_rel {A B} (RA : A -> A -> Prop) (RB : B -> B -> Prop) RE x1 x2 (f1 f2 : A -> cres B) :
  cres_rel RA RE x1 x2 ->
  (forall a b, RA a b -> cres_rel RB RE (f1 a) (f2 b)) ->
  cres_rel RB RE (x1 >>=c f1) (x2 >>=c f2).
Proof. destruct x1, x2; simpl; intros H Hf; try contradiction; auto. Qed.

Lemma cres_rel_mono {A} (RA RA' : A -> A -> Prop) (RE RE' : cerr -> cerr -> Prop) r1 r2 :
  (forall a b, RA a b -> RA' a b) -> (forall a b, RE a b -> RE' a b) ->
  cres_rel RA RE r1 r2 -> cres_rel RA' RE' r1 r2.
Proof. destruct r1, r2; simpl; auto. Qed.

(* unfolding lemmas: one frame is closed *)
Lemma pc_unfold_cons f d cd kids rest rt :
  process_context (S f) d ((cd, kids) :: rest) rt =
  if ctx_allowed (d_kind cd) (d_kind d) then
    if is_http_method (d_kind d) && negb (beq (named d (bs "Path")) []) && kind_eqb (d_kind cd) KURL then
      if existsb (fun x => d_explicit (fst x)) ((cd, kids) :: rest) then CErr (kw_err d CEIncorrectContextPath)
      else COk ([(d, [])], close_all (List.length ((cd, kids) :: rest)) ((cd, kids) :: rest) rt)
    else COk ((d, []) :: (cd, kids) :: rest, rt)
  else if d_explicit cd then CErr (kw_err d CEIncorrectContext)
  else process_context f d (fst (close_frame ((cd, kids) :: rest) rt)) (snd (close_frame ((cd, kids) :: rest) rt)).
Proof. destruct rest as [|[pd pk] rest']; reflexivity. Qed.

Lemma close_all_unfold_cons n x fr rt :
  close_all (S n) (x :: fr) rt =
  close_all n (fst (close_frame (x :: fr) rt)) (snd (close_frame (x :: fr) rt)).
Proof. destruct x as [d kids]. destruct fr as [|[pd pk] rest]; reflexivity. Qed.

Lemma close_explicit_unfold_cons f d kids fr rt :
  close_explicit (S f) ((d, kids) :: fr) rt =
  if d_explicit d then Some (close_frame ((d, kids) :: fr) rt)
  else close_explicit f (fst (close_frame ((d, kids) :: fr) rt)) (snd (close_frame ((d, kids) :: fr) rt)).
Proof. destruct fr as [|[pd pk] rest]; simpl; destruct (d_explicit d); reflexivity. Qed.

Lemma close_to_unfold n target fr rt :
  close_to (S n) target fr rt =
  if Nat.leb (List.length fr) target then (fr, rt)
  else close_to n target (fst (close_frame fr rt)) (snd (close_frame fr rt)).
Proof. simpl. destruct (close_frame fr rt); reflexivity. Qed.

(* ------------------------------------------------------------------------------------------ *)
(* the simulation, for any relation between directives that implies equal shapes               *)
(* ------------------------------------------------------------------------------------------ *)

Section Sim.
  Variable R : directive -> directive -> Prop.
  Hypothesis R_shape : forall a b, R a b -> dshape a = dshape b.

  Inductive trel : dtree -> dtree -> Prop :=
  | trel_node : forall d1 d2 k1 k2, R d1 d2 -> Forall2 trel k1 k2 -> trel (DNode d1 k1) (DNode d2 k2).

  Definition frame_rel (x y : directive * list dtree) : Prop := R (fst x) (fst y) /\ Forall2 trel (snd x) (snd y).
  Definition frel := Forall2 frame_rel.
  Definition zrel (z1 z2 : zipper) : Prop := frel (fst z1) (fst z2) /\ Forall2 trel (snd z1) (snd z2).
  Definition prel (p1 p2 : pstate) : Prop :=
    frel (ps_frames p1) (ps_frames p2) /\ Forall2 trel (ps_roots p1) (ps_roots p2).
  Definition mrel : macro_table -> macro_table -> Prop :=
    Forall2 (fun x y => fst x = fst y /\ trel (snd x) (snd y)).

  (* both errors are kw_err of related directives, with the same kind *)
  Definition erel_at (d1 d2 : directive) (e1 e2 : cerr) : Prop :=
    exists k, e1 = kw_err d1 k /\ e2 = kw_err d2 k.
  Definition erel (e1 e2 : cerr) : Prop := exists d1 d2, R d1 d2 /\ erel_at d1 d2 e1 e2.

  Lemma trel_kids t1 t2 : trel t1 t2 -> Forall2 trel (tree_kids t1) (tree_kids t2).
  Proof. destruct 1; assumption. Qed.
  Lemma trel_dir t1 t2 : trel t1 t2 -> R (tree_dir t1) (tree_dir t2).
  Proof. destruct 1; assumption. Qed.

  Lemma trel_tshape : forall t1 t2, trel t1 t2 -> tshape t1 = tshape t2.
  Proof.
    induction t1 as [d1 k1 IH] using dtree_ind_kids. intros t2 H.
    inversion H as [a b ka kb Hd Hk]; subst. simpl. f_equal; [now apply R_shape|].
    clear H Hd. revert kb Hk. induction IH as [|x r Hx Hr IHr]; intros kb Hk; inversion Hk; subst; [reflexivity|].
    simpl. f_equal; [now apply Hx|now apply IHr].
  Qed.

  Lemma frel_tshape f1 f2 : Forall2 trel f1 f2 -> map tshape f1 = map tshape f2.
  Proof. induction 1; simpl; [reflexivity|]. f_equal; [now apply trel_tshape|assumption]. Qed.

  Lemma trel_size : forall t1 t2, trel t1 t2 -> tree_size t1 = tree_size t2.
  Proof.
    induction t1 as [d1 k1 IH] using dtree_ind_kids. intros t2 H.
    inversion H as [a b ka kb Hd Hk]; subst. simpl. f_equal.
    clear H Hd. revert kb Hk. induction IH as [|x r Hx Hr IHr]; intros kb Hk; inversion Hk; subst; [reflexivity|].
    simpl. f_equal; [now apply Hx|now apply IHr].
  Qed.

  Lemma frel_size f1 f2 : Forall2 trel f1 f2 -> forest_size f1 = forest_size f2.
  Proof. induction 1; simpl; [reflexivity|]. f_equal; [now apply trel_size|assumption]. Qed.

  Lemma explicit_rel fr1 fr2 : frel fr1 fr2 ->
    existsb (fun x => d_explicit (fst x)) fr1 = existsb (fun x => d_explicit (fst x)) fr2.
  Proof.
    induction 1 as [|x y r1 r2 [Hd _] Hr IH]; simpl; [reflexivity|].
    now rewrite IH, (shape_explicit _ _ (R_shape _ _ Hd)).
  Qed.

  Lemma close_frame_rel fr1 fr2 rt1 rt2 :
    frel fr1 fr2 -> Forall2 trel rt1 rt2 -> zrel (close_frame fr1 rt1) (close_frame fr2 rt2).
  Proof.
    intros Hfr Hrt. destruct Hfr as [|[d1 k1] [d2 k2] r1 r2 [Hd Hk] Hr]; [split; [constructor|assumption]|].
    simpl in Hd, Hk.
    assert (Ht : trel (DNode d1 (rev k1)) (DNode d2 (rev k2))) by (constructor; [assumption|now apply Forall2_rev_both]).
    destruct Hr as [|[pd1 pk1] [pd2 pk2] r1 r2 [Hpd Hpk] Hr]; simpl.
    - split; [constructor|]. simpl. now constructor.
    - split; [|assumption]. simpl. constructor; [|assumption]. split; simpl; [assumption|now constructor].
  Qed.

  Lemma close_all_rel : forall n fr1 fr2 rt1 rt2,
    frel fr1 fr2 -> Forall2 trel rt1 rt2 -> Forall2 trel (close_all n fr1 rt1) (close_all n fr2 rt2).
  Proof.
    induction n as [|n IH]; intros fr1 fr2 rt1 rt2 Hfr Hrt; [assumption|].
    pose proof (close_frame_rel _ _ _ _ Hfr Hrt) as [Hc1 Hc2].
    destruct Hfr as [|x y r1 r2 Hxy Hr]; [assumption|].
    rewrite !close_all_unfold_cons. now apply IH.
  Qed.

  Lemma close_to_rel : forall n target fr1 fr2 rt1 rt2,
    frel fr1 fr2 -> Forall2 trel rt1 rt2 -> zrel (close_to n target fr1 rt1) (close_to n target fr2 rt2).
  Proof.
    induction n as [|n IH]; intros target fr1 fr2 rt1 rt2 Hfr Hrt; [split; assumption|].
    rewrite !close_to_unfold, <- (Forall2_len _ _ _ Hfr).
    destruct (Nat.leb (List.length fr1) target); [split; assumption|].
    pose proof (close_frame_rel _ _ _ _ Hfr Hrt) as [Hc1 Hc2]. now apply IH.
  Qed.

  Definition orel {A} (RA : A -> A -> Prop) (o1 o2 : option A) : Prop :=
    match o1, o2 with Some a, Some b => RA a b | None, None => True | _, _ => False end.

  Lemma close_explicit_rel : forall fuel fr1 fr2 rt1 rt2,
    frel fr1 fr2 -> Forall2 trel rt1 rt2 ->
    orel zrel (close_explicit fuel fr1 rt1) (close_explicit fuel fr2 rt2).
  Proof.
    induction fuel as [|f IH]; intros fr1 fr2 rt1 rt2 Hfr Hrt; [exact I|].
    pose proof (close_frame_rel _ _ _ _ Hfr Hrt) as Hc.
    destruct Hfr as [|[d1 k1] [d2 k2] r1 r2 [Hd Hk] Hr]; [exact I|].
    rewrite !close_explicit_unfold_cons. simpl in Hd.
    rewrite <- (shape_explicit _ _ (R_shape _ _ Hd)).
    destruct (d_explicit d1); [exact Hc|]. destruct Hc as [Hc1 Hc2]. now apply IH.
  Qed.

  (* ---- process_context ---- *)
  Lemma process_context_rel : forall fuel d1 d2 fr1 fr2 rt1 rt2,
    R d1 d2 -> frel fr1 fr2 -> Forall2 trel rt1 rt2 ->
    cres_rel zrel (erel_at d1 d2) (process_context fuel d1 fr1 rt1) (process_context fuel d2 fr2 rt2).
  Proof.
    induction fuel as [|f IH]; intros d1 d2 fr1 fr2 rt1 rt2 Hd Hfr Hrt; [exact I|].
    pose proof (R_shape _ _ Hd) as Hs.
    pose proof (close_frame_rel _ _ _ _ Hfr Hrt) as Hc.
    pose proof (close_all_rel (List.length fr1) _ _ _ _ Hfr Hrt) as Hall.
    pose proof (explicit_rel _ _ Hfr) as Hex.
    pose proof (Forall2_len _ _ _ Hfr) as Hlen.
    assert (Hpush : frel ((d1, []) :: fr1) ((d2, []) :: fr2)).
    { constructor; [|assumption]. split; simpl; [assumption|constructor]. }
    destruct Hfr as [|[cd1 k1] [cd2 k2] r1 r2 [Hcd Hk] Hr].
    - simpl. rewrite <- (shape_kind _ _ Hs). destruct (root_allowed (d_kind d1)); simpl.
      + split; assumption.
      + exists CEIncorrectContext. split; reflexivity.
    - rewrite !pc_unfold_cons. simpl in Hcd.
      pose proof (R_shape _ _ Hcd) as Hcs.
      rewrite <- (shape_kind _ _ Hs), <- (shape_kind _ _ Hcs), <- (shape_named _ _ _ Hs),
              <- (shape_explicit _ _ Hcs), <- Hex, <- Hlen.
      destruct (ctx_allowed (d_kind cd1) (d_kind d1)).
      + destruct (is_http_method (d_kind d1) && negb (beq (named d1 (bs "Path")) []) && kind_eqb (d_kind cd1) KURL).
        * destruct (existsb (fun x => d_explicit (fst x)) ((cd1, k1) :: r1)); simpl.
          -- exists CEIncorrectContextPath. split; reflexivity.
          -- split; simpl; [|exact Hall]. constructor; [|constructor]. split; simpl; [assumption|constructor].
        * simpl. split; assumption.
      + destruct (d_explicit cd1); simpl.
        * exists CEIncorrectContext. split; reflexivity.
        * destruct Hc as [Hc1 Hc2]. now apply IH.
  Qed.

  (* ---- one item, a list of items ---- *)
  Definition irel (a b : item) : Prop :=
    match a, b with IDir d1, IDir d2 => R d1 d2 | IClose, IClose => True | _, _ => False end.
  Definition idir (it : item) : option directive := match it with IDir d => Some d | IClose => None end.

  Definition step_erel (a b : item) (e1 e2 : cerr) : Prop :=
    located (idir a) e1 /\ located (idir b) e2 /\ eshape (idir a) e1 = eshape (idir b) e2.

  Lemma resolve_step_rel z1 z2 a b :
    zrel z1 z2 -> irel a b -> cres_rel zrel (step_erel a b) (resolve_step z1 a) (resolve_step z2 b).
  Proof.
    intros [Hfr Hrt] Hab. destruct a as [d1|], b as [d2|]; try contradiction; unfold resolve_step.
    - unfold ctx_fuel. rewrite <- (Forall2_len _ _ _ Hfr).
      eapply cres_rel_mono; [| |exact (process_context_rel _ _ _ _ _ _ _ Hab Hfr Hrt)]; [auto|].
      intros e1 e2 (k & -> & ->). unfold step_erel, located, eshape. simpl.
      repeat split. now rewrite (R_shape _ _ Hab).
    - rewrite <- (Forall2_len _ _ _ Hfr).
      pose proof (close_explicit_rel (S (List.length (fst z1))) _ _ _ _ Hfr Hrt) as H.
      destruct (close_explicit _ (fst z1) (snd z1)), (close_explicit _ (fst z2) (snd z2)); simpl in *; try contradiction.
      + exact H.
      + repeat split.
  Qed.

  (* ---- macros ---- *)
  Lemma macro_lookup_rel m1 m2 n : mrel m1 m2 -> orel trel (macro_lookup m1 n) (macro_lookup m2 n).
  Proof.
    unfold macro_lookup. induction 1 as [|x y r1 r2 [Hn Ht] Hr IH]; simpl; [exact I|].
    rewrite <- Hn. destruct (beq (fst x) n); [exact Ht|exact IH].
  Qed.

  Lemma mrel_size m1 m2 : mrel m1 m2 ->
    fold_right (fun e acc => tree_size (snd e) + acc)%nat O m1 = fold_right (fun e acc => tree_size (snd e) + acc)%nat O m2.
  Proof. induction 1 as [|x y r1 r2 [_ Ht] Hr IH]; simpl; [reflexivity|]. now rewrite IH, (trel_size _ _ Ht). Qed.

  Lemma mrel_names m1 m2 : mrel m1 m2 -> map fst m1 = map fst m2.
  Proof. induction 1 as [|x y r1 r2 [Hn _] Hr IH]; simpl; [reflexivity|]. now rewrite IH, Hn. Qed.

  Lemma erel_kw d1 d2 k : R d1 d2 -> erel (kw_err d1 k) (kw_err d2 k).
  Proof. intro H. exists d1, d2. split; [exact H|]. exists k. split; reflexivity. Qed.
  Ltac kw := simpl; apply erel_kw; assumption.

  Definition cm_rel (x y : list dtree * macro_table) : Prop := Forall2 trel (fst x) (fst y) /\ mrel (snd x) (snd y).

  Lemma collect_macro_rel : forall ts1 ts2, Forall2 trel ts1 ts2 -> forall m1 m2, mrel m1 m2 ->
    cres_rel cm_rel erel (collect_macro ts1 m1) (collect_macro ts2 m2).
  Proof.
    induction 1 as [|t1 t2 r1 r2 Ht Hr IH]; intros m1 m2 Hm; simpl.
    - split; [constructor|exact Hm].
    - pose proof Ht as Ht'. destruct Ht as [d1 d2 k1 k2 Hd Hk]. cbn [collect_macro tree_dir tree_kids].
      pose proof (R_shape _ _ Hd) as Hs.
      rewrite <- (shape_kind _ _ Hs), <- (shape_annot _ _ Hs), <- (shape_named _ _ _ Hs).
      destruct (kind_eqb (d_kind d1) KMacro).
      + destruct (negb (beq (d_annot d1) [])); [kw|].
        destruct (beq (named d1 (bs "Name")) []); [kw|].
        destruct Hk as [|a b ka kb Hab Hk]; [kw|].
        pose proof (macro_lookup_rel _ _ (named d1 (bs "Name")) Hm) as Hl.
        destruct (macro_lookup m1 _), (macro_lookup m2 _); simpl in Hl; try contradiction; [kw|].
        apply IH. apply Forall2_app; [exact Hm|]. constructor; [|constructor]. split; [reflexivity|exact Ht'].
      + eapply cbind_rel; [exact (IH _ _ Hm)|]. intros x y [Hx Hy]. split; simpl; [now constructor|exact Hy].
  Qed.

  Lemma check_rel : forall fuel m1 m2, mrel m1 m2 ->
    (forall name walking done,
       cres_rel eq erel (check_macro fuel m1 name walking done) (check_macro fuel m2 name walking done)) /\
    (forall ts1 ts2 walking done, Forall2 trel ts1 ts2 ->
       cres_rel eq erel (find_paste fuel m1 ts1 walking done) (find_paste fuel m2 ts2 walking done)).
  Proof.
    induction fuel as [|f IH]; intros m1 m2 Hm; [split; intros; exact I|].
    destruct (IH _ _ Hm) as [IHc IHf]. split.
    - intros name walking done. cbn [check_macro]. destruct (name_in name done); [reflexivity|].
      pose proof (macro_lookup_rel _ _ name Hm) as Hl.
      destruct (macro_lookup m1 name), (macro_lookup m2 name); simpl in Hl; try contradiction; [|reflexivity].
      eapply cbind_rel; [apply IHf; constructor; [exact Hl|constructor]|].
      intros a b ->. reflexivity.
    - intros ts1 ts2 walking done Hts. destruct Hts as [|t1 t2 r1 r2 Ht Hr]; [reflexivity|].
      destruct Ht as [d1 d2 k1 k2 Hd Hk]. cbn [find_paste tree_dir tree_kids].
      pose proof (R_shape _ _ Hd) as Hs.
      rewrite <- (shape_kind _ _ Hs), <- (shape_named _ _ _ Hs).
      eapply cbind_rel; [|intros a b ->; now apply IHf].
      destruct (kind_eqb (d_kind d1) KPaste).
      + destruct (beq (named d1 (bs "Name")) []); [kw|].
        destruct (name_in (named d1 (bs "Name")) walking); [kw|]. apply IHc.
      + now apply IHf.
  Qed.

  Lemma check_all_macros_rel fuel m1 m2 : mrel m1 m2 -> forall names done,
    cres_rel (fun _ _ => True) erel (check_all_macros fuel m1 names done) (check_all_macros fuel m2 names done).
  Proof.
    intros Hm. induction names as [|n r IH]; intros done; simpl; [exact I|].
    eapply cbind_rel; [apply (proj1 (check_rel fuel _ _ Hm))|]. intros a b ->. apply IH.
  Qed.

  Lemma wrap_rel d1 d2 (i1 i2 : cres pstate) :
    R d1 d2 -> cres_rel prel erel i1 i2 ->
    cres_rel prel erel (match i1 with CErr e => CErr (wrap_paste d1 e) | x => x end)
                       (match i2 with CErr e => CErr (wrap_paste d2 e) | x => x end).
  Proof.
    intros Hd H. destruct i1, i2; simpl in *; try contradiction; try assumption.
    destruct H as (a & b & _ & k & -> & ->).
    exists d1, d2. split; [exact Hd|]. exists (CEWrapped k). split; reflexivity.
  Qed.

  Lemma paste_list_rel : forall fuel m1 m2, mrel m1 m2 -> forall ts1 ts2 p1 p2,
    Forall2 trel ts1 ts2 -> prel p1 p2 ->
    cres_rel prel erel (paste_list fuel m1 ts1 p1) (paste_list fuel m2 ts2 p2).
  Proof.
    induction fuel as [|f IH]; intros m1 m2 Hm ts1 ts2 p1 p2 Hts Hp; [exact I|].
    destruct Hts as [|t1 t2 r1 r2 Ht Hr]; [exact Hp|].
    destruct Ht as [d1 d2 k1 k2 Hd Hk].
    pose proof (R_shape _ _ Hd) as Hs.
    cbn [paste_list tree_dir tree_kids].
    apply (cbind_rel prel prel); [|intros a b Hab; apply IH; assumption].
    rewrite <- (shape_kind _ _ Hs), <- (shape_annot _ _ Hs), <- (shape_named _ _ _ Hs), <- (shape_explicit _ _ Hs).
    destruct (kind_eqb (d_kind d1) KPaste).
    - apply wrap_rel; [exact Hd|].
      destruct (negb (beq (d_annot d1) [])); [kw|].
      destruct (beq (named d1 (bs "Name")) []); [kw|].
      pose proof (macro_lookup_rel _ _ (named d1 (bs "Name")) Hm) as Hl.
      destruct (macro_lookup m1 _), (macro_lookup m2 _); simpl in Hl; try contradiction; [|kw].
      apply IH; [exact Hm|now apply trel_kids|exact Hp].
    - destruct Hp as [Hfr Hrt]. unfold ctx_fuel. rewrite <- (Forall2_len _ _ _ Hfr).
      eapply cbind_rel.
      + eapply cres_rel_mono; [| |exact (process_context_rel _ _ _ _ _ _ _ Hd Hfr Hrt)]; [intros a b H; exact H|].
        intros e1 e2 H. exists d1, d2. split; assumption.
      + intros z1 z2 [Hz1 Hz2]. rewrite <- (Forall2_len _ _ _ Hz1).
        eapply cbind_rel; [apply IH; [exact Hm|exact Hk|split; assumption]|].
        intros q1 q2 [Hq1 Hq2]. destruct (d_explicit d1); [|split; assumption].
        rewrite <- (Forall2_len _ _ _ Hq1).
        pose proof (close_to_rel (S (List.length (ps_frames q1))) (List.length (fst z1) - 1) _ _ _ _ Hq1 Hq2) as Hc.
        destruct (close_to _ _ (ps_frames q1) (ps_roots q1)), (close_to _ _ (ps_frames q2) (ps_roots q2)).
        exact Hc.
  Qed.

  Lemma expand_rel ts1 ts2 : Forall2 trel ts1 ts2 -> cres_rel (Forall2 trel) erel (expand ts1) (expand ts2).
  Proof.
    intro Hts. unfold expand.
    eapply cbind_rel; [apply collect_macro_rel; [exact Hts|constructor]|].
    intros [rest1 m1] [rest2 m2] [Hrest Hm]. simpl in Hrest, Hm.
    rewrite <- (mrel_size _ _ Hm), <- (Forall2_len _ _ _ Hm), <- (mrel_names _ _ Hm).
    eapply cbind_rel; [apply check_all_macros_rel; exact Hm|]. intros _ _ _.
    unfold expand_fuel. rewrite <- (mrel_size _ _ Hm), <- (Forall2_len _ _ _ Hm), <- (frel_size _ _ Hrest).
    eapply cbind_rel; [apply paste_list_rel; [exact Hm|exact Hrest|split; constructor]|].
    intros q1 q2 [Hq1 Hq2]. simpl. apply Forall2_rev_both.
    rewrite <- (Forall2_len _ _ _ Hq1). now apply close_all_rel.
  Qed.
End Sim.

Arguments trel R t1 t2 : rename.
Arguments frel R _ _ : rename.
Arguments zrel R z1 z2 : rename.
Arguments irel R a b : rename.
Arguments erel R e1 e2 : rename.

(* ------------------------------------------------------------------------------------------ *)
(* R := "equal shapes"; shapes of trees are equal iff the trees are related                    *)
(* ------------------------------------------------------------------------------------------ *)

Definition same_shape (a b : directive) : Prop := dshape a = dshape b.
Lemma same_shape_ok : forall a b, same_shape a b -> dshape a = dshape b.
Proof. intros a b H. exact H. Qed.

Lemma trel_mono (R R' : directive -> directive -> Prop) :
  (forall a b, R a b -> R' a b) -> forall t1 t2, trel R t1 t2 -> trel R' t1 t2.
Proof.
  intros HR. induction t1 as [d1 k1 IH] using dtree_ind_kids. intros t2 H.
  inversion H as [a b ka kb Hd Hk]; subst. constructor; [now apply HR|].
  clear H Hd. revert kb Hk. induction IH as [|x r Hx Hr IHr]; intros kb Hk; inversion Hk; subst; constructor.
  - now apply Hx.
  - now apply IHr.
Qed.

Lemma Forall2_mono {A B} (P Q : A -> B -> Prop) l1 l2 :
  (forall a b, P a b -> Q a b) -> Forall2 P l1 l2 -> Forall2 Q l1 l2.
Proof. intros H. induction 1; constructor; auto. Qed.

(* ... and every related pair of nodes stands at the same place of the two forests *)
Inductive same_place : list dtree -> list dtree -> directive -> directive -> Prop :=
| sp_here : forall d1 d2 k1 k2 r1 r2, same_place (DNode d1 k1 :: r1) (DNode d2 k2 :: r2) d1 d2
| sp_kids : forall d1 d2 k1 k2 r1 r2 a b,
    same_place k1 k2 a b -> same_place (DNode d1 k1 :: r1) (DNode d2 k2 :: r2) a b
| sp_next : forall t1 t2 r1 r2 a b, same_place r1 r2 a b -> same_place (t1 :: r1) (t2 :: r2) a b.

Definition placed (ts1 ts2 : list dtree) (a b : directive) : Prop :=
  dshape a = dshape b /\ same_place ts1 ts2 a b.
Lemma placed_ok ts1 ts2 : forall a b, placed ts1 ts2 a b -> dshape a = dshape b.
Proof. intros a b [H _]. exact H. Qed.

Lemma place_forest_from : forall ts1,
  Forall (fun t1 => forall t2, tshape t1 = tshape t2 -> trel (placed [t1] [t2]) t1 t2) ts1 ->
  forall ts2, map tshape ts1 = map tshape ts2 -> Forall2 (trel (placed ts1 ts2)) ts1 ts2.
Proof.
  induction 1 as [|t r Ht Hr IH]; intros [|t2 r2] H; cbn [map] in H; try discriminate; [constructor|].
  apply cons_inv in H. destruct H as [H1 H2]. constructor.
  - eapply trel_mono; [|apply Ht; exact H1]. intros x y [Hs Hp]. split; [exact Hs|].
    inversion Hp as [| |? ? ? ? ? ? Hn]; subst; [apply sp_here|now apply sp_kids|inversion Hn].
  - eapply Forall2_mono; [|apply IH; exact H2]. intros a b. apply trel_mono.
    intros x y [Hs Hp]. split; [exact Hs|now apply sp_next].
Qed.

Lemma place_tree : forall t1 t2, tshape t1 = tshape t2 -> trel (placed [t1] [t2]) t1 t2.
Proof.
  induction t1 as [d1 k1 IH] using dtree_ind_kids. intros [d2 k2] H. apply tshape_inv in H. destruct H as [Hd Hk].
  constructor; [split; [exact Hd|constructor]|].
  eapply Forall2_mono; [|exact (place_forest_from k1 IH k2 Hk)]. intros a b. apply trel_mono.
  intros x y [Hs Hp]. split; [exact Hs|now apply sp_kids].
Qed.

Lemma place_forest ts1 ts2 : map tshape ts1 = map tshape ts2 -> Forall2 (trel (placed ts1 ts2)) ts1 ts2.
Proof.
  apply place_forest_from. apply Forall_forall. intros t _. apply place_tree.
Qed.

Lemma shape_forest ts1 ts2 : map tshape ts1 = map tshape ts2 -> Forall2 (trel same_shape) ts1 ts2.
Proof.
  intro H. eapply Forall2_mono; [|exact (place_forest _ _ H)]. intros a b. apply trel_mono.
  intros x y [Hs _]. exact Hs.
Qed.

Lemma shape_items l1 l2 : map ishape l1 = map ishape l2 -> Forall2 (irel same_shape) l1 l2.
Proof.
  revert l2. induction l1 as [|a r IH]; intros [|b r2] H; cbn [map] in H; try discriminate; [constructor|].
  apply cons_inv in H. destruct H as [H1 H2]. constructor; [|now apply IH].
  destruct a, b; cbn [ishape irel] in *; try discriminate; [|exact I]. unfold same_shape. congruence.
Qed.

(* same place = same number in reading order *)
Lemma flatten_tree_length : forall t, List.length (flatten_tree t) = tree_size t.
Proof.
  induction t as [d k IH] using dtree_ind_kids. simpl. f_equal.
  induction IH as [|x r Hx Hr IHr]; simpl; [reflexivity|]. now rewrite app_length, Hx, IHr.
Qed.

Lemma same_place_preorder : forall ts1 ts2 a b,
  same_place ts1 ts2 a b -> map tshape ts1 = map tshape ts2 ->
  exists i, nth_error (flatten ts1) i = Some a /\ nth_error (flatten ts2) i = Some b.
Proof.
  induction 1 as [d1 d2 k1 k2 r1 r2|d1 d2 k1 k2 r1 r2 a b Hp IH|t1 t2 r1 r2 a b Hp IH]; intros Hs.
  - exists O. split; reflexivity.
  - cbn [map] in Hs. apply cons_inv in Hs. destruct Hs as [Hk _]. apply tshape_inv in Hk. destruct Hk as [_ Hk]. destruct (IH Hk) as (i & H1 & H2). exists (S i).
    rewrite !flatten_cons, !flatten_tree_node. simpl.
    split; (rewrite nth_error_app1; [assumption|apply nth_error_Some; congruence]).
  - cbn [map] in Hs. apply cons_inv in Hs. destruct Hs as [Ht Hr]. destruct (IH Hr) as (i & H1 & H2).
    exists (tree_size t1 + i)%nat. rewrite !flatten_cons. split.
    + rewrite nth_error_app2; rewrite flatten_tree_length; [|lia]. now replace (tree_size t1 + i - tree_size t1)%nat with i by lia.
    + assert (Hsz : tree_size t1 = tree_size t2).
      { apply (trel_size same_shape). eapply trel_mono; [|exact (place_tree _ _ Ht)]. intros x y [Hxy _]. exact Hxy. }
      rewrite nth_error_app2; rewrite flatten_tree_length; [|lia]. now replace (tree_size t1 + i - tree_size t2)%nat with i by lia.
Qed.

(* ------------------------------------------------------------------------------------------ *)
(* context resolution                                                                          *)
(* ------------------------------------------------------------------------------------------ *)

(* the directive that item number i is (None: a ')' or the end of the input) *)
Definition about (l : list item) (i : nat) : option directive :=
  match nth_error l i with Some (IDir d) => Some d | _ => None end.

(* resolution from z accepts the first i items of l and rejects item number i with e *)
Definition fails_from (z : zipper) (l : list item) (i : nat) (e : cerr) : Prop :=
  exists st it, resolve_from z (firstn i l) = COk st /\ nth_error l i = Some it /\ resolve_step st it = CErr e.

(* ... or i is the end of the input and a '(' is still open there *)
Definition offence (l : list item) (i : nat) (e : cerr) : Prop :=
  fails_from ([], []) l i e \/
  (i = List.length l /\ e = ctx_err CENotAllClosed /\
   exists st, resolve l = COk st /\ has_unclosed_explicit (fst st) = true).

(* both error values are built from the offending item of their own input, in the same way *)
Definition same_error (l1 l2 : list item) (i : nat) (e1 e2 : cerr) : Prop :=
  located (about l1 i) e1 /\ located (about l2 i) e2 /\ eshape (about l1 i) e1 = eshape (about l2 i) e2.

Lemma resolve_from_sim : forall l1 l2, Forall2 (irel same_shape) l1 l2 ->
  forall z1 z2, zrel same_shape z1 z2 ->
  cres_rel (zrel same_shape)
    (fun e1 e2 => exists i, fails_from z1 l1 i e1 /\ fails_from z2 l2 i e2 /\ same_error l1 l2 i e1 e2)
    (resolve_from z1 l1) (resolve_from z2 l2).
Proof.
  induction 1 as [|a b r1 r2 Hab Hr IH]; intros z1 z2 Hz; [exact Hz|].
  cbn [resolve_from].
  pose proof (resolve_step_rel same_shape same_shape_ok z1 z2 a b Hz Hab) as Hs.
  destruct (resolve_step z1 a) as [z1'|e1|w1|] eqn:E1, (resolve_step z2 b) as [z2'|e2|w2|] eqn:E2;
    cbn [cres_rel cbind] in Hs |- *; try contradiction; try exact Hs.
  - specialize (IH z1' z2' Hs).
    destruct (resolve_from z1' r1) as [|x1| |] eqn:F1, (resolve_from z2' r2) as [|x2| |] eqn:F2;
      cbn [cres_rel] in IH |- *; try contradiction; try exact IH.
    destruct IH as (i & Hf1 & Hf2 & Hse). exists (S i). split; [|split].
    + destruct Hf1 as (st & it & H1 & H2 & H3). exists st, it. cbn [firstn resolve_from nth_error].
      rewrite E1. cbn [cbind]. auto.
    + destruct Hf2 as (st & it & H1 & H2 & H3). exists st, it. cbn [firstn resolve_from nth_error].
      rewrite E2. cbn [cbind]. auto.
    + exact Hse.
  - exists O. split; [|split].
    + exists z1, a. auto.
    + exists z2, b. auto.
    + destruct a, b; exact Hs.
Qed.

Theorem resolve_ignores_coordinates : forall l1 l2, map ishape l1 = map ishape l2 ->
  cres_rel (zrel same_shape)
    (fun e1 e2 => exists i, fails_from ([], []) l1 i e1 /\ fails_from ([], []) l2 i e2 /\ same_error l1 l2 i e1 e2)
    (resolve l1) (resolve l2).
Proof.
  intros l1 l2 H. apply resolve_from_sim; [now apply shape_items|]. split; constructor.
Qed.

Theorem context_ignores_coordinates : forall l1 l2, map ishape l1 = map ishape l2 ->
  match resolve_all l1, resolve_all l2 with
  | COk f1, COk f2 => map tshape f1 = map tshape f2
  | CErr e1, CErr e2 => exists i, offence l1 i e1 /\ offence l2 i e2 /\ same_error l1 l2 i e1 e2
  | CPanic w1, CPanic w2 => w1 = w2
  | CFuel, CFuel => True
  | _, _ => False
  end.
Proof.
  intros l1 l2 H. pose proof (resolve_ignores_coordinates _ _ H) as Hr. unfold resolve_all.
  destruct (resolve l1) as [z1|e1|w1|] eqn:E1, (resolve l2) as [z2|e2|w2|] eqn:E2;
    cbn [cres_rel cbind] in Hr |- *; try contradiction; try exact Hr.
  - destruct Hr as [Hfr Hrt]. unfold has_unclosed_explicit.
    rewrite <- (explicit_rel same_shape same_shape_ok _ _ Hfr), <- (Forall2_len _ _ _ Hfr).
    destruct (existsb (fun x => d_explicit (fst x)) (fst z1)) eqn:Ex.
    + assert (Hl : List.length l1 = List.length l2) by (rewrite <- (map_length ishape l1), H; apply map_length).
      exists (List.length l1). split; [|split].
      * right. repeat split. exists z1. split; [exact E1|exact Ex].
      * right. split; [exact Hl|]. split; [reflexivity|]. exists z2. split; [exact E2|].
        unfold has_unclosed_explicit. now rewrite <- (explicit_rel same_shape same_shape_ok _ _ Hfr).
      * unfold same_error, about. rewrite Hl at 2 4.
        rewrite (proj2 (nth_error_None l1 (List.length l1)) (le_n _)), (proj2 (nth_error_None l2 (List.length l2)) (le_n _)).
        repeat split.
    + apply (frel_tshape same_shape same_shape_ok). apply Forall2_rev_both.
      now apply close_all_rel.
  - destruct Hr as (i & H1 & H2 & H3). exists i. split; [left; exact H1|split; [left; exact H2|exact H3]].
Qed.

(* so resolution is a FUNCTION of the shapes: resolve the same items written at coordinates 0 *)
Definition zero_coords : coords := {| c_file := []; c_beg := 0%N; c_end := 0%N |}.
Definition unshape (s : dshape_t) : directive :=
  {| d_kind := s_kind s; d_keyword := s_keyword s; d_kw := zero_coords; d_named := s_named s; d_unnamed := s_unnamed s;
     d_annot := s_annot s; d_body := if s_has_body s then Some zero_coords else None; d_explicit := s_explicit s;
     d_trace := [] |}.
Definition unshape_item (s : sitem) : item := match s with SDir x => IDir (unshape x) | SClose => IClose end.

Lemma dshape_unshape s : dshape (unshape s) = s.
Proof. destruct s as [k kw n u a b x]. destruct b; reflexivity. Qed.

Lemma ishape_unshape sl : map ishape (map unshape_item sl) = sl.
Proof.
  induction sl as [|s r IH]; simpl; [reflexivity|]. rewrite IH. f_equal.
  destruct s; simpl; [now rewrite dshape_unshape|reflexivity].
Qed.

Definition resolve_shapes (sl : list sitem) : option (list stree) :=
  match resolve_all (map unshape_item sl) with COk f => Some (map tshape f) | _ => None end.

Theorem resolution_is_a_function_of_shapes : forall l,
  match resolve_all l with
  | COk f => resolve_shapes (map ishape l) = Some (map tshape f)
  | _ => resolve_shapes (map ishape l) = None
  end.
Proof.
  intro l. unfold resolve_shapes.
  pose proof (context_ignores_coordinates l (map unshape_item (map ishape l))) as H.
  rewrite ishape_unshape in H. specialize (H eq_refl).
  destruct (resolve_all l), (resolve_all (map unshape_item (map ishape l))); try contradiction; try reflexivity.
  now rewrite H.
Qed.

(* ------------------------------------------------------------------------------------------ *)
(* macro expansion                                                                             *)
(* ------------------------------------------------------------------------------------------ *)

Theorem expansion_ignores_coordinates : forall ts1 ts2, map tshape ts1 = map tshape ts2 ->
  match expand ts1, expand ts2 with
  | COk f1, COk f2 => map tshape f1 = map tshape f2
  | CErr e1, CErr e2 =>
    exists d1 d2 k, same_place ts1 ts2 d1 d2 /\ dshape d1 = dshape d2 /\ e1 = kw_err d1 k /\ e2 = kw_err d2 k
  | CPanic w1, CPanic w2 => w1 = w2
  | CFuel, CFuel => True
  | _, _ => False
  end.
Proof.
  intros ts1 ts2 H.
  pose proof (expand_rel (placed ts1 ts2) (placed_ok ts1 ts2) _ _ (place_forest _ _ H)) as Hr.
  destruct (expand ts1), (expand ts2); cbn [cres_rel] in Hr; try contradiction; try exact Hr.
  - now apply (frel_tshape (placed ts1 ts2) (placed_ok ts1 ts2)).
  - destruct Hr as (d1 & d2 & [Hs Hp] & k & -> & ->). exists d1, d2, k. auto.
Qed.

Lemma kw_err_eshape d1 d2 k : dshape d1 = dshape d2 ->
  located (Some d1) (kw_err d1 k) /\ located (Some d2) (kw_err d2 k) /\
  eshape (Some d1) (kw_err d1 k) = eshape (Some d2) (kw_err d2 k).
Proof. intro H. unfold located, eshape. simpl. rewrite H. repeat split. Qed.

(* resolution followed by expansion *)
Theorem resolve_expand_ignores_coordinates : forall l1 l2, map ishape l1 = map ishape l2 ->
  match resolve_all l1 >>=c expand, resolve_all l2 >>=c expand with
  | COk f1, COk f2 => map tshape f1 = map tshape f2
  | CErr e1, CErr e2 => ce_kind e1 = ce_kind e2
  | CPanic w1, CPanic w2 => w1 = w2
  | CFuel, CFuel => True
  | _, _ => False
  end.
Proof.
  intros l1 l2 H. pose proof (context_ignores_coordinates _ _ H) as Hr.
  destruct (resolve_all l1) as [f1|e1| |], (resolve_all l2) as [f2|e2| |]; cbn [cbind]; try contradiction; try exact Hr.
  - pose proof (expansion_ignores_coordinates _ _ Hr) as He.
    destruct (expand f1), (expand f2); try contradiction; try exact He.
    destruct He as (d1 & d2 & k & _ & _ & -> & ->). reflexivity.
  - destruct Hr as (i & _ & _ & _ & _ & He). exact (f_equal es_kind He).
Qed.

(* ------------------------------------------------------------------------------------------ *)
(* with resolve_nearest: the parent of the k-th directive is the same in both                  *)
(* ------------------------------------------------------------------------------------------ *)

Lemma shape_tree t1 t2 : tshape t1 = tshape t2 -> trel same_shape t1 t2.
Proof.
  intro H. eapply trel_mono; [|exact (place_tree _ _ H)]. intros x y [Hxy _]. exact Hxy.
Qed.

Lemma fparents_cons t r pos par : fparents (t :: r) pos par = tparents t pos par ++ fparents r (pos + tree_size t)%nat par.
Proof. reflexivity. Qed.

Lemma fparents_shape_from : forall f1,
  Forall (fun t1 => forall t2 pos par, tshape t1 = tshape t2 -> tparents t1 pos par = tparents t2 pos par) f1 ->
  forall f2 pos par, map tshape f1 = map tshape f2 -> fparents f1 pos par = fparents f2 pos par.
Proof.
  induction 1 as [|t r Ht Hr IH]; intros [|t2 r2] pos par H; cbn [map] in H; try discriminate; [reflexivity|].
  apply cons_inv in H. destruct H as [H1 H2]. rewrite !fparents_cons.
  rewrite (Ht _ _ _ H1), (trel_size same_shape _ _ (shape_tree _ _ H1)), (IH _ _ _ H2). reflexivity.
Qed.

Lemma tparents_shape : forall t1 t2 pos par, tshape t1 = tshape t2 -> tparents t1 pos par = tparents t2 pos par.
Proof.
  induction t1 as [d1 k1 IH] using dtree_ind_kids. intros [d2 k2] pos par H.
  apply tshape_inv in H. destruct H as [_ Hk]. rewrite !tparents_node. f_equal.
  now apply fparents_shape_from.
Qed.

Lemma fparents_shape f1 f2 pos par : map tshape f1 = map tshape f2 -> fparents f1 pos par = fparents f2 pos par.
Proof. apply fparents_shape_from. apply Forall_forall. intros t _. apply tparents_shape. Qed.

Theorem parents_ignore_coordinates : forall l1 l2 f1,
  map ishape l1 = map ishape l2 -> resolve_all l1 = COk f1 ->
  exists f2, resolve_all l2 = COk f2 /\ map tshape f1 = map tshape f2 /\
    forall k, parent_index f1 k = parent_index f2 k /\ spec_parent l1 k = spec_parent l2 k.
Proof.
  intros l1 l2 f1 H E1. pose proof (context_ignores_coordinates _ _ H) as Hc. rewrite E1 in Hc.
  destruct (resolve_all l2) as [f2| | |] eqn:E2; try contradiction.
  exists f2. split; [reflexivity|]. split; [exact Hc|]. intro k.
  assert (Hp : parent_index f1 k = parent_index f2 k) by (unfold parent_index; now rewrite (fparents_shape _ _ O None Hc)).
  split; [exact Hp|]. now rewrite <- (resolve_nearest _ _ E1), <- (resolve_nearest _ _ E2).
Qed.

(* ------------------------------------------------------------------------------------------ *)
(* example (vm_compute): one document, two layouts, through the real scanner model             *)
(* ------------------------------------------------------------------------------------------ *)

Module ShapeExamples.
  Local Open Scope string_scope.
  (* flush left / blank lines, indentation by blanks and tabs *)
  Definition doc_a : bytes := (ex_line "JSIGHT 0.3" ++ ex_line "URL /a" ++ ex_line "GET")%list.
  Definition doc_b : bytes := (ex_line "JSIGHT 0.3" ++ ex_line "" ++ ex_line "" ++ ex_line "      URL /a" ++ [9; 9] ++ ex_line "GET")%list.
  Definition scan (doc : bytes) : cres (list dtree) :=
    scan_forest ex_len ex_len [(bs "a.jst", FFile doc)] [] (bs "a.jst").
  Definition forest (doc : bytes) : list dtree := match scan doc with COk f => f | _ => [] end.
  Definition kinds_of (t : stree) : list kind :=
    (fix go (t : stree) : list kind := match t with SNode s k => s_kind s :: flat_map go k end) t.

  (* equal shapes: JSIGHT, URL with GET under it; different keyword coordinates *)
  Example layouts_same_shape :
    map tshape (forest doc_a) = map tshape (forest doc_b) /\
    flat_map kinds_of (map tshape (forest doc_a)) = [KJsight; KURL; KGet] /\
    List.length (forest doc_a) = 2%nat /\
    map (fun d => c_beg (d_kw d)) (flatten (forest doc_a)) = [0; 11; 18]%N /\
    map (fun d => c_beg (d_kw d)) (flatten (forest doc_b)) = [0; 19; 28]%N.
  Proof. vm_compute. repeat split. Qed.

  (* the directives the scanner produced, as items: the premise of context_ignores_coordinates *)
  Example layouts_same_items :
    map ishape (map IDir (flatten (forest doc_a))) = map ishape (map IDir (flatten (forest doc_b))) /\
    map IDir (flatten (forest doc_a)) <> map IDir (flatten (forest doc_b)).
  Proof. split; [vm_compute; reflexivity|]. vm_compute. intro H. discriminate H. Qed.

  (* ... and its conclusion, computed: the forests resolved from them have equal shapes and are not equal *)
  Example layouts_resolve :
    match resolve_all (map IDir (flatten (forest doc_a))), resolve_all (map IDir (flatten (forest doc_b))) with
    | COk f1, COk f2 => map tshape f1 = map tshape f2 /\ f1 = forest doc_a /\ f2 = forest doc_b /\ f1 <> f2
    | _, _ => False
    end.
  Proof. vm_compute. repeat split. intro H. discriminate H. Qed.

  (* a rejected document: the error is about directive number 2 in both layouts, at offsets 18 and 28 *)
  Definition bad_a : bytes := (ex_line "JSIGHT 0.3" ++ ex_line "URL /a" ++ ex_line "Body")%list.
  Definition bad_b : bytes := (ex_line "JSIGHT 0.3" ++ ex_line "" ++ ex_line "" ++ ex_line "      URL /a" ++ [9; 9] ++ ex_line "Body")%list.
  Example layouts_same_error :
    ex_err (scan bad_a) = Some (bs "a.jst", 18%N, CEIncorrectContext, []) /\
    ex_err (scan bad_b) = Some (bs "a.jst", 28%N, CEIncorrectContext, []).
  Proof. vm_compute. split; reflexivity. Qed.
End ShapeExamples.

Print Assumptions context_ignores_coordinates.
Print Assumptions expansion_ignores_coordinates.
Print Assumptions resolution_is_a_function_of_shapes.
Print Assumptions resolve_expand_ignores_coordinates.
Print Assumptions same_place_preorder.
Print Assumptions parents_ignore_coordinates.
