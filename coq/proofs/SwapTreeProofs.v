(* C10: two adjacent top-level trees that make interactions under automatic tags can be exchanged *)
From Coq Require Import List NArith Bool String Lia Permutation Arith PeanoNat.
From JV.lib Require Import Bytes.
From JV.gen Require Import DirectiveTables TagName.
From JV.model Require Import ScannerSem Core Description PathParams TagTitle Catalog.
From JV.proofs Require Import BytesLemmas TagNameProofs CatalogProofs FaithfulProofs LocalityProofs OrderProofs PathVarProofs FrameProofs InsertProofs GenFrameProofs SwapListProofs SwapProofs.
Import ListNotations.
Open Scope N_scope.

(* ---- the decidable side condition on one tree ---- *)
Definition ids_ok (ids : list iid) (p : dtree * list dtree) : bool :=
  match http_id (tree_dir (fst p)) (snd p) with IdOk i => existsb (iid_eqb i) ids | IdErr _ => true end &&
  match rpc_id (tree_dir (fst p)) (snd p) with IdOk i => existsb (iid_eqb i) ids | IdErr _ => true end.

Definition no_tags_dir (p : dtree * list dtree) : bool :=
  match used_tags_directive (fst p) (snd p) with None => true | Some _ => false end.

Definition pos_ok (ids : list iid) (p : dtree * list dtree) : bool :=
  pos_plain p && parent_not (snd p) KTAG && ids_ok ids p && no_tags_dir p.

(* every node is of an interaction-making kind (no Tags, no Path), no path has parameters, every directive inside
   resolves to an interaction the tree itself makes, and all its interactions go under automatic tags *)
Definition tree_ok (t : dtree) : bool :=
  forallb (pos_ok (method_ids (positions t []))) (positions t []) && nopath t.

Definition disjointb (l1 l2 : list bytes) : bool := forallb (fun n => negb (existsb (beq n) l2)) l1.

Definition swappable (t1 t2 : dtree) : bool :=
  tree_ok t1 && tree_ok t2 && disjointb (auto_uses (positions t1 [])) (auto_uses (positions t2 [])).

Lemma existsb_beq_in n l : existsb (beq n) l = true <-> In n l.
Proof.
  rewrite existsb_exists. split.
  - intros [x [Hx E]]. apply beq_eq in E. subst. exact Hx.
  - intro H. exists n. split; [exact H|apply beq_refl].
Qed.
Lemma existsb_iid_in i l : existsb (iid_eqb i) l = true <-> In i l.
Proof.
  rewrite existsb_exists. split.
  - intros [x [Hx E]]. apply iid_eqb_eq in E. subst. exact Hx.
  - intro H. exists i. split; [exact H|apply iid_eqb_eq; reflexivity].
Qed.
Lemma disjointb_spec l1 l2 : disjointb l1 l2 = true -> forall n, In n l1 -> ~ In n l2.
Proof.
  unfold disjointb. rewrite forallb_forall. intros H n H1 H2. specialize (H n H1).
  apply negb_true_iff in H. apply existsb_beq_in in H2. congruence.
Qed.

Lemma in_urls_of l p q : In p l -> In q (url_delta (fst p) (snd p)) -> In q (urls_of l).
Proof.
  induction l as [|x l IH]; intros Hp Hq; [destruct Hp|]. simpl. apply in_or_app.
  destruct Hp as [->|Hp]; [right; exact Hq|left; apply IH; assumption].
Qed.
Lemma in_prots_of l p q : In p l -> In q (prot_delta (fst p) (snd p)) -> In q (prots_of l).
Proof.
  induction l as [|x l IH]; intros Hp Hq; [destruct Hp|]. simpl. apply in_or_app.
  destruct Hp as [->|Hp]; [right; exact Hq|left; apply IH; assumption].
Qed.

(* from the decidable condition to the side condition of the prepend instance *)
Lemma tree_pre_ok ids P bI bT bU bP :
  forallb (pos_ok ids) P = true ->
  (forall i, In i ids -> ~ In i (map fst bI)) ->
  (forall i, In i (method_ids P) -> ~ In i (map fst bI)) ->
  (forall n, In n (auto_uses P) -> ~ In n (map fst bT)) ->
  (forall p, In p (urls_of P) -> existsb (beq p) bU = false) ->
  (forall k, In k (prots_of P) -> existsb (coords_eqb k) bP = false) ->
  forall p, In p P -> pre_ok bI bT bU bP (fst p) (snd p).
Proof.
  intros Hall Hids Hmade Hauto Hurl Hprot p Hp.
  rewrite forallb_forall in Hall. specialize (Hall p Hp). unfold pos_ok in Hall.
  apply andb_prop in Hall. destruct Hall as [Hall Hnt]. apply andb_prop in Hall. destruct Hall as [Hall Hid].
  apply andb_prop in Hall. destruct Hall as [Hpl Hptag].
  unfold ids_ok in Hid. apply andb_prop in Hid. destruct Hid as [Hh Hr].
  unfold no_tags_dir in Hnt.
  unfold pos_plain in Hpl. apply andb_prop in Hpl. destruct Hpl as [Hpl _]. apply andb_prop in Hpl. destruct Hpl as [Hkind _].
  constructor.
  - intros i E. rewrite E in Hh. apply Hids. apply existsb_iid_in. exact Hh.
  - intros i E. rewrite E in Hr. apply Hids. apply existsb_iid_in. exact Hr.
  - intros i Hi. apply Hmade. unfold method_ids. apply in_flat_map. exists p. split; assumption.
  - intros i Hi. unfold tag_names_ok. destruct (used_tags_directive (fst p) (snd p)) eqn:Eu; [discriminate Hnt|].
    apply Hauto. unfold auto_uses. apply in_flat_map. exists p. split; [exact Hp|].
    unfold auto_use. rewrite Eu. apply (in_map (fun i => auto_tag_name (i_path i))). exact Hi.
  - intro Hk. rewrite Hk in Hkind. discriminate Hkind.
  - intros Hk par Epar Hkp. unfold parent_not in Hptag. rewrite Epar, Hkp in Hptag. discriminate Hptag.
  - intros Hk q Eq. apply Hurl. apply (in_urls_of P p q Hp). unfold url_delta. rewrite Hk, Eq. left; reflexivity.
  - intros Hk par Epar. apply Hprot. apply (in_prots_of P p _ Hp). unfold prot_delta. rewrite Hk, Epar. left; reflexivity.
Qed.

Lemma NoDup_app_inv {A} (l1 l2 : list A) : NoDup (l1 ++ l2) -> NoDup l1 /\ NoDup l2 /\ forall x, In x l1 -> ~ In x l2.
Proof.
  induction l1 as [|a l1 IH]; simpl; intro H.
  - split; [constructor|]. split; [exact H|]. intros x [].
  - inversion H as [|? ? Hna Hnd]; subst. destruct (IH Hnd) as [A1 [A2 A3]]. split; [|split].
    + constructor; [|exact A1]. intro Hin. apply Hna. apply in_or_app. left; exact Hin.
    + exact A2.
    + intros x [<-|Hx]; [|apply A3; exact Hx]. intro Hin. apply Hna. apply in_or_app. right; exact Hin.
Qed.

Lemma existsb_cross {A} (eqb : A -> A -> bool) (sym : forall a b, eqb a b = eqb b a) l1 l2 rest :
  (forall y, In y l2 -> existsb (eqb y) (l1 ++ rest) = false) -> forall x, In x l1 -> existsb (eqb x) l2 = false.
Proof.
  intros H x Hx. destruct (existsb (eqb x) l2) eqn:E; [|reflexivity].
  apply existsb_exists in E as [y [Hy Exy]]. specialize (H y Hy). rewrite existsb_app in H. apply orb_false_iff in H as [H _].
  assert (existsb (eqb y) l1 = true) by (apply existsb_exists; exists x; split; [exact Hx|rewrite sym; exact Exy]). congruence.
Qed.

Lemma beq_sym' a b : beq a b = beq b a.
Proof.
  destruct (beq a b) eqn:E1, (beq b a) eqn:E2; try reflexivity.
  - apply beq_eq in E1. subst. rewrite beq_refl in E2. discriminate.
  - apply beq_eq in E2. subst. rewrite beq_refl in E1. discriminate.
Qed.
Lemma coords_eqb_sym a b : coords_eqb a b = coords_eqb b a.
Proof. unfold coords_eqb. rewrite beq_sym', N.eqb_sym. reflexivity. Qed.

Definition base_of (s : bstate) : bstate -> bstate :=
  Gpre (c_inters (b_cat s)) (c_tags (b_cat s)) (b_urls s) (b_protocols s).

Lemma base_inters s e : c_inters (b_cat (base_of s e)) = c_inters (b_cat s) ++ c_inters (b_cat e).
Proof. reflexivity. Qed.
Lemma base_tags s e : c_tags (b_cat (base_of s e)) = c_tags (b_cat s) ++ c_tags (b_cat e).
Proof. reflexivity. Qed.
Lemma base_urls s e : b_urls (base_of s e) = b_urls e ++ b_urls s.
Proof. reflexivity. Qed.
Lemma base_prots s e : b_protocols (base_of s e) = b_protocols e ++ b_protocols s.
Proof. reflexivity. Qed.

Lemma empt_same s s' : same_rest s s' -> empt s' = empt s.
Proof.
  unfold same_rest, empt. destruct s as [c u sm pr], s' as [c' u' sm' pr']. destruct c, c'. simpl.
  intros [-> [-> [-> [-> [-> ->]]]]]. reflexivity.
Qed.
Lemma empt_base s e : empt (base_of s e) = empt e.
Proof. reflexivity. Qed.
Lemma empt_empt s : empt (empt s) = empt s.
Proof. reflexivity. Qed.

Section Two.
  Variable body_text : coords -> bytes.
  Variable banned : list kind.
  Notation run := (run body_text banned).

  Lemma run_canon_eq P s :
    (forall p, In p P -> pre_ok (c_inters (b_cat s)) (c_tags (b_cat s)) (b_urls s) (b_protocols s) (fst p) (snd p)) ->
    run P s = cmap (base_of s) (run P (empt s)).
  Proof.
    intro Hok. pose proof (run_prepend body_text banned _ _ _ _ P (empt s) Hok) as R. rewrite base_empt in R. exact R.
  Qed.

  (* what a run over plain positions from an emptied state produces *)
  Lemma run_empt_effect P s e : forallb pos_plain P = true -> run P (empt s) = COk e ->
    map fst (c_inters (b_cat e)) = method_ids P /\
    (forall n, In n (map fst (c_tags (b_cat e))) -> In n (auto_uses P)) /\
    b_urls e = urls_of P /\ b_protocols e = prots_of P /\ same_rest (empt s) e.
  Proof.
    intros Hpl H. destruct (run_u body_text banned P _ _ H) as [U1 [U2 [_ [_ [_ [_ U7]]]]]].
    destruct (run_keys body_text banned P _ _ H) as [_ [_ [_ [K4 K5]]]].
    split; [|split; [|split; [|split]]].
    - rewrite <- aview_keys, K5. simpl. apply method_annots_ids.
    - intros n Hn. rewrite K4 in Hn. simpl in Hn. apply fold_add_new_incl in Hn. destruct Hn as [[]|Hn]. exact Hn.
    - rewrite U1. simpl. apply app_nil_r.
    - rewrite U2. simpl. apply app_nil_r.
    - apply U7. exact Hpl.
  Qed.

  Lemma pos_ok_plain ids P : forallb (pos_ok ids) P = true -> forallb pos_plain P = true.
  Proof.
    rewrite !forallb_forall. intros H p Hp. specialize (H p Hp). unfold pos_ok in H.
    apply andb_prop in H. destruct H as [H _]. apply andb_prop in H. destruct H as [H _]. apply andb_prop in H. destruct H as [H _]. exact H.
  Qed.

  Lemma run_two_swap P1 P2 s1 s3 :
    run (P1 ++ P2) s1 = COk s3 ->
    forallb (pos_ok (method_ids P1)) P1 = true -> forallb (pos_ok (method_ids P2)) P2 = true ->
    (forall n, In n (auto_uses P1) -> ~ In n (auto_uses P2)) ->
    NoDup (map fst (c_inters (b_cat s1)) ++ method_ids P1 ++ method_ids P2) ->
    (forall n, In n (auto_uses P1 ++ auto_uses P2) -> ~ In n (map fst (c_tags (b_cat s1)))) ->
    exists e1 e2,
      run P1 (empt s1) = COk e1 /\ run P2 (empt s1) = COk e2 /\
      s3 = base_of (base_of s1 e1) e2 /\
      run (P2 ++ P1) s1 = COk (base_of (base_of s1 e2) e1).
  Proof.
    intros H12 Hok1 Hok2 Hdisj Hnd Hfresh.
    pose proof (pos_ok_plain _ _ Hok1) as Hpl1. pose proof (pos_ok_plain _ _ Hok2) as Hpl2.
    rewrite run_app in H12. destruct (run P1 s1) as [s2| | |] eqn:R1; try discriminate H12. simpl in H12. rename H12 into R2.
    destruct (NoDup_app_inv _ _ Hnd) as [_ [Hnd12 HdI]]. destruct (NoDup_app_inv _ _ Hnd12) as [_ [_ Hd12]].
    destruct (run_u body_text banned _ _ _ R1) as [A1 [A2 [A3 [A4 [_ [_ A7]]]]]]. specialize (A7 Hpl1).
    destruct (run_u body_text banned _ _ _ R2) as [B1 [B2 [B3 [B4 [_ [_ B7]]]]]]. specialize (B7 Hpl2).
    (* P1 from s1 *)
    assert (Hpre1 : forall p, In p P1 -> pre_ok (c_inters (b_cat s1)) (c_tags (b_cat s1)) (b_urls s1) (b_protocols s1) (fst p) (snd p)).
    { apply (tree_pre_ok (method_ids P1)); try assumption.
      - intros i Hi Hin. apply (HdI i Hin). apply in_or_app. left; exact Hi.
      - intros i Hi Hin. apply (HdI i Hin). apply in_or_app. left; exact Hi.
      - intros n Hn. apply Hfresh. apply in_or_app. left; exact Hn. }
    pose proof (run_canon_eq P1 s1 Hpre1) as C1. rewrite R1 in C1.
    destruct (run P1 (empt s1)) as [e1| | |] eqn:E1; try discriminate C1. simpl in C1. inversion C1 as [Hs2]. clear C1.
    destruct (run_empt_effect _ _ _ Hpl1 E1) as [K1 [T1 [U1 [Pr1 S1]]]].
    (* P2 from s2 *)
    assert (Hpre2 : forall p, In p P2 -> pre_ok (c_inters (b_cat s2)) (c_tags (b_cat s2)) (b_urls s2) (b_protocols s2) (fst p) (snd p)).
    { apply (tree_pre_ok (method_ids P2)); try assumption.
      - intros i Hi Hin. rewrite Hs2, base_inters, map_app, K1 in Hin. apply in_app_or in Hin. destruct Hin as [Hin|Hin].
        + apply (HdI i Hin). apply in_or_app. right; exact Hi.
        + exact (Hd12 i Hin Hi).
      - intros i Hi Hin. rewrite Hs2, base_inters, map_app, K1 in Hin. apply in_app_or in Hin. destruct Hin as [Hin|Hin].
        + apply (HdI i Hin). apply in_or_app. right; exact Hi.
        + exact (Hd12 i Hin Hi).
      - intros n Hn Hin. rewrite Hs2, base_tags, map_app in Hin. apply in_app_or in Hin. destruct Hin as [Hin|Hin].
        + apply (Hfresh n); [apply in_or_app; right; exact Hn|exact Hin].
        + apply (Hdisj n (T1 n Hin) Hn). }
    pose proof (run_canon_eq P2 s2 Hpre2) as C2. rewrite R2, (empt_same _ _ A7) in C2.
    destruct (run P2 (empt s1)) as [e2| | |] eqn:E2; try discriminate C2. simpl in C2. inversion C2 as [Hs3]. clear C2.
    destruct (run_empt_effect _ _ _ Hpl2 E2) as [K2 [T2 [U2 [Pr2 S2]]]].
    exists e1, e2. split; [reflexivity|]. split; [reflexivity|]. split; [rewrite Hs2; reflexivity|].
    (* the other order *)
    assert (Hpre2' : forall p, In p P2 -> pre_ok (c_inters (b_cat s1)) (c_tags (b_cat s1)) (b_urls s1) (b_protocols s1) (fst p) (snd p)).
    { apply (tree_pre_ok (method_ids P2)); try assumption.
      - intros i Hi Hin. apply (HdI i Hin). apply in_or_app. right; exact Hi.
      - intros i Hi Hin. apply (HdI i Hin). apply in_or_app. right; exact Hi.
      - intros n Hn. apply Hfresh. apply in_or_app. right; exact Hn.
      - intros p Hp. specialize (B3 p Hp). rewrite A1, existsb_app in B3. apply orb_false_iff in B3. apply B3.
      - intros k Hk. specialize (B4 k Hk). rewrite A2, existsb_app in B4. apply orb_false_iff in B4. apply B4. }
    pose proof (run_canon_eq P2 s1 Hpre2') as C3. rewrite E2 in C3. simpl in C3.
    set (s2' := base_of s1 e2) in *.
    assert (Hpre1' : forall p, In p P1 -> pre_ok (c_inters (b_cat s2')) (c_tags (b_cat s2')) (b_urls s2') (b_protocols s2') (fst p) (snd p)).
    { apply (tree_pre_ok (method_ids P1)); try assumption.
      - intros i Hi Hin. unfold s2' in Hin. rewrite base_inters, map_app, K2 in Hin. apply in_app_or in Hin. destruct Hin as [Hin|Hin].
        + apply (HdI i Hin). apply in_or_app. left; exact Hi.
        + exact (Hd12 i Hi Hin).
      - intros i Hi Hin. unfold s2' in Hin. rewrite base_inters, map_app, K2 in Hin. apply in_app_or in Hin. destruct Hin as [Hin|Hin].
        + apply (HdI i Hin). apply in_or_app. left; exact Hi.
        + exact (Hd12 i Hi Hin).
      - intros n Hn Hin. unfold s2' in Hin. rewrite base_tags, map_app in Hin. apply in_app_or in Hin. destruct Hin as [Hin|Hin].
        + apply (Hfresh n); [apply in_or_app; left; exact Hn|exact Hin].
        + apply (Hdisj n Hn (T2 n Hin)).
      - intros p Hp. unfold s2'. rewrite base_urls, U2, existsb_app. apply orb_false_iff. split; [|apply A3; exact Hp].
        apply (existsb_cross beq beq_sym' (urls_of P1) (urls_of P2) (b_urls s1)); [|exact Hp].
        intros y Hy. rewrite <- A1. apply B3. exact Hy.
      - intros k Hk. unfold s2'. rewrite base_prots, Pr2, existsb_app. apply orb_false_iff. split; [|apply A4; exact Hk].
        apply (existsb_cross coords_eqb coords_eqb_sym (prots_of P1) (prots_of P2) (b_protocols s1)); [|exact Hk].
        intros y Hy. rewrite <- A2. apply B4. exact Hy. }
    pose proof (run_canon_eq P1 s2' Hpre1') as C4.
    assert (Hem : empt s2' = empt s1) by (unfold s2'; rewrite empt_base, (empt_same _ _ S2); apply empt_empt).
    rewrite Hem, E1 in C4. simpl in C4.
    rewrite run_app, C3. simpl. exact C4.
  Qed.
End Two.

(* ---- the transformer "exchange two adjacent blocks" and the run after the two trees ---- *)
Section SwapRun.
  Variable body_text : coords -> bytes.
  Variable banned : list kind.
  Variables (nI mI1 mI2 nT mT1 mT2 : nat) (cU cU' : list bytes) (cP cP' : list coords).
  Hypothesis HcU : Permutation cU cU'.
  Hypothesis HcP : Permutation cP cP'.

  Definition gUsw (u : list bytes) : list bytes := firstn (List.length u - List.length cU) u ++ cU'.
  Definition gPsw (u : list coords) : list coords := firstn (List.length u - List.length cP) u ++ cP'.
  Definition Gsw : bstate -> bstate := G (swapmid nI mI1 mI2) (swapmid nT mT1 mT2) gUsw gPsw.

  Definition Jsw (post : list dtree) (s : bstate) : Prop :=
    cat_inv post (b_cat s) /\
    (nI + mI1 + mI2 <= List.length (c_inters (b_cat s)))%nat /\
    (nT + mT1 + mT2 <= List.length (c_tags (b_cat s)))%nat /\
    (exists x, b_urls s = x ++ cU) /\ (exists y, b_protocols s = y ++ cP).

  Lemma all_ok t anc : gstep_ok (fun _ : iid => True) (fun _ : bytes => True) (fun _ : bytes => True) (fun _ : coords => True) t anc.
  Proof.
    constructor; intros; try exact I.
    - unfold tag_names_ok. destruct (used_tags_directive t anc); [apply Forall_forall; intros; exact I|exact I].
    - apply Forall_forall; intros; exact I.
  Qed.

  Lemma run_swapG post l : (forall p, In p l -> occurs post (fst p) (snd p)) ->
    forall s, Jsw post s -> run body_text banned l (Gsw s) = cmap Gsw (run body_text banned l s).
  Proof.
    intros Hocc s HJ. unfold Gsw.
    refine (run_G (swapmid nI mI1 mI2) (swapmid nT mT1 mT2) gUsw gPsw
              (fun l => NoDup (map fst l) /\ (nI + mI1 + mI2 <= List.length l)%nat)
              (fun l => NoDup (map fst l) /\ (nT + mT1 + mT2 <= List.length l)%nat)
              (fun _ => True) (fun _ => True) (fun _ => True) (fun _ => True)
              _ _ _ _ _ _ _ _ _ _ (fun u => exists x, u = x ++ cU) (fun u => exists y, u = y ++ cP) _ _ _ _
              body_text banned (Jsw post) _ l (fun p _ => all_ok (fst p) (snd p)) _ s HJ).
    - intros l0 k [Hnd _] _. apply (om_get_perm iid_eqb iid_eqb_eq); [exact Hnd|]. apply Permutation_sym, swapmid_perm.
    - intros l0 k _ _. apply om_has_perm_gen. apply Permutation_sym, swapmid_perm.
    - intros l0 k h _. apply om_update_swapmid.
    - intros l0 x [_ Hlen]. apply swapmid_snoc. exact Hlen.
    - intros l0 k h [Hnd Hlen]. split; [rewrite (om_update_keys iid_eqb); exact Hnd|]. unfold om_update. rewrite map_length. exact Hlen.
    - intros l0 k [Hnd _] _. apply (om_get_perm beq beq_eq); [exact Hnd|]. apply Permutation_sym, swapmid_perm.
    - intros l0 k _ _. apply om_has_perm_gen. apply Permutation_sym, swapmid_perm.
    - intros l0 k h _. apply om_update_swapmid.
    - intros l0 x [_ Hlen]. apply swapmid_snoc. exact Hlen.
    - intros l0 k h [Hnd Hlen]. split; [rewrite (om_update_keys beq); exact Hnd|]. unfold om_update. rewrite map_length. exact Hlen.
    - intros u p [x ->] _. unfold gUsw. rewrite app_length, Nat.add_sub, firstn_len_app, !existsb_app. f_equal.
      apply existsb_perm. apply Permutation_sym. exact HcU.
    - intros u p [x ->]. unfold gUsw. cbn [List.length]. rewrite app_length.
      replace (S (List.length x + List.length cU) - List.length cU)%nat with (S (List.length x)) by lia.
      rewrite Nat.add_sub. reflexivity.
    - intros u p [x ->] _. unfold gPsw. rewrite app_length, Nat.add_sub, firstn_len_app, !existsb_app. f_equal.
      apply existsb_perm. apply Permutation_sym. exact HcP.
    - intros u p [x ->]. unfold gPsw. cbn [List.length]. rewrite app_length.
      replace (S (List.length x + List.length cP) - List.length cP)%nat with (S (List.length x)) by lia.
      rewrite Nat.add_sub. reflexivity.
    - intros s0 [Hi [L1 [L2 [Hu Hp]]]]. repeat split; try assumption; [apply (ci_inters _ _ Hi)|apply (ci_tags _ _ Hi)].
    - intros p s0 s0' Hp [Hi [L1 [L2 [[x Hu] [y Hpr]]]]] Hstep.
      pose proof (key_step body_text banned _ _ _ _ Hstep) as KS.
      destruct (u_step body_text banned _ _ _ _ Hstep) as [V1 V2 _ _ _].
      split; [exact (step_inv body_text banned post _ _ _ _ (Hocc p Hp) Hi Hstep)|].
      split; [|split; [|split]].
      + pose proof (f_equal (@List.length _) (ks_int _ _ _ _ KS)) as E. unfold aview in E. rewrite app_length, !map_length in E. lia.
      + pose proof (f_equal (@List.length _) (ks_tag _ _ _ _ KS)) as E. rewrite map_length in E. rewrite E.
        eapply Nat.le_trans; [|apply fold_add_new_length]. rewrite map_length. exact L2.
      + exists (url_delta (fst p) (snd p) ++ x). rewrite V1, Hu, app_assoc. reflexivity.
      + exists (prot_delta (fst p) (snd p) ++ y). rewrite V2, Hpr, app_assoc. reflexivity.
  Qed.
End SwapRun.

(* ---- the theorem ---- *)
Lemma inter_kind_other k : kind_in k inter_kinds = true ->
  kind_eqb k KEnum = false /\ kind_eqb k KTAG = false /\ kind_eqb k KType = false /\ k <> KJsight.
Proof. destruct k; intro H; try discriminate H; repeat split; try reflexivity; discriminate. Qed.

Lemma tree_ok_root t : tree_ok t = true -> kind_in (dk t) inter_kinds = true /\ nopath t = true.
Proof.
  unfold tree_ok. intro H. apply andb_prop in H. destruct H as [H Hn]. split; [|exact Hn].
  rewrite forallb_forall in H. specialize (H (t, [])). rewrite positions_eq in H. specialize (H (or_introl eq_refl)).
  unfold pos_ok in H. apply andb_prop in H. destruct H as [H _]. apply andb_prop in H. destruct H as [H _]. apply andb_prop in H. destruct H as [H _].
  unfold pos_plain in H. apply andb_prop in H. destruct H as [H _]. apply andb_prop in H. destruct H as [H _]. exact H.
Qed.

Lemma method_ids_app l1 l2 : method_ids (l1 ++ l2) = method_ids l1 ++ method_ids l2.
Proof. unfold method_ids. apply flat_map_app. Qed.

Lemma cat_ext (c c' : catalog) :
  c_jsight c = c_jsight c' -> c_info c = c_info c' -> c_servers c = c_servers c' -> c_types c = c_types c' ->
  c_enums c = c_enums c' -> c_inters c = c_inters c' -> c_tags c = c_tags c' -> c = c'.
Proof. destruct c, c'. simpl. intros; subst; reflexivity. Qed.
Lemma bstate_ext (s s' : bstate) :
  b_cat s = b_cat s' -> b_urls s = b_urls s' -> b_similar s = b_similar s' -> b_protocols s = b_protocols s' -> s = s'.
Proof. destruct s, s'. simpl. intros; subst; reflexivity. Qed.

(* the names of the tags a forest declares *)
Definition declared_tag_names (ts : list dtree) : list bytes := map fst (map tag_entry (filter tag_node ts)).

(* the automatic tags of the two trees are new where the trees stand: not declared, not made by an earlier tree *)
Definition fresh_tags (a : list dtree) (t1 t2 : dtree) (b : list dtree) : bool :=
  forallb (fun n => negb (existsb (beq n) (declared_tag_names (a ++ t1 :: t2 :: b))) &&
                    negb (existsb (beq n) (auto_uses (positions_all a))))
          (auto_uses (positions t1 []) ++ auto_uses (positions t2 [])).

Section Swapped.
  Variable path_props : coords -> option (list bytes).
  Variable body_text : coords -> bytes.
  Variable banned : list kind.
  Notation build := (build path_props body_text banned).
  Notation run := (run body_text banned).

  Lemma inter_trees_swapped_lemma a t1 t2 b c :
    swappable t1 t2 = true -> fresh_tags a t1 t2 b = true ->
    build (a ++ t1 :: t2 :: b) = COk c ->
    exists c', build (a ++ t2 :: t1 :: b) = COk c' /\
      c_jsight c' = c_jsight c /\ c_info c' = c_info c /\ c_servers c' = c_servers c /\
      c_types c' = c_types c /\ c_enums c' = c_enums c /\
      c_inters c' = swapmid (List.length (method_ids (positions_all a))) (List.length (method_ids (positions t1 [])))
                            (List.length (method_ids (positions t2 []))) (c_inters c) /\
      c_tags c' = swapmid (List.length (fold_left add_new (auto_uses (positions_all a)) (declared_tag_names (a ++ t1 :: t2 :: b))))
                          (List.length (fold_left add_new (auto_uses (positions t1 [])) []))
                          (List.length (fold_left add_new (auto_uses (positions t2 [])) [])) (c_tags c).
  Proof.
    intros Hsw Hfr Hbuild.
    unfold swappable in Hsw. apply andb_prop in Hsw. destruct Hsw as [Hsw Hdj]. apply andb_prop in Hsw. destruct Hsw as [Ht1 Ht2].
    destruct (tree_ok_root _ Ht1) as [Hk1 Hn1]. destruct (tree_ok_root _ Ht2) as [Hk2 Hn2].
    destruct (inter_kind_other _ Hk1) as [K1e [K1t [K1y K1j]]]. destruct (inter_kind_other _ Hk2) as [K2e [K2t [K2y K2j]]].
    pose proof (keys_unique_lemma _ _ _ _ _ Hbuild) as [_ [_ [_ [_ HndI]]]].
    pose proof (catalog_keys_lemma _ _ _ _ _ Hbuild) as [_ [_ [_ [_ [HkeysI _]]]]].
    destruct a as [|first a'].
    { simpl in Hbuild. apply build_iff in Hbuild. destruct Hbuild as [Hj _]. exfalso. apply K1j. exact Hj. }
    set (A := first :: a') in *.
    change (A ++ t1 :: t2 :: b) with (first :: (a' ++ t1 :: t2 :: b)) in Hbuild. apply build_iff in Hbuild.
    change (first :: (a' ++ t1 :: t2 :: b)) with (A ++ t1 :: t2 :: b) in Hbuild.
    destruct Hbuild as [Hj [en [tg [pvs [bfin [all [[S1 [S2 [S3 [S4 [S5 S6]]]]] V]]]]]]].
    set (P1 := positions t1 []) in *. set (P2 := positions t2 []) in *. set (PA := positions_all A) in *.
    set (PB := positions_all b).
    assert (HposF : positions_all (A ++ t1 :: t2 :: b) = PA ++ (P1 ++ P2) ++ PB).
    { rewrite positions_all_app. cbn [positions_all]. rewrite <- app_assoc. reflexivity. }
    assert (HposF' : positions_all (A ++ t2 :: t1 :: b) = PA ++ (P2 ++ P1) ++ PB).
    { rewrite positions_all_app. cbn [positions_all]. rewrite <- app_assoc. reflexivity. }
    rewrite add_all_run, HposF, run_app in S5.
    destruct (run PA (init_state en tg)) as [s1| | |] eqn:RA; try discriminate S5. simpl in S5.
    rewrite run_app in S5. destruct (run (P1 ++ P2) s1) as [s3| | |] eqn:R12; try discriminate S5. simpl in S5. rename S5 into RB.
    (* facts about s1 *)
    destruct (run_keys body_text banned PA _ _ RA) as [_ [_ [_ [KT KI]]]].
    assert (KI' : map fst (c_inters (b_cat s1)) = method_ids PA).
    { rewrite <- aview_keys, KI. simpl. apply method_annots_ids. }
    pose proof (collect_tags_exact _ _ _ S2) as Htg. simpl in Htg.
    assert (KT' : map fst (c_tags (b_cat s1)) = fold_left add_new (auto_uses PA) (declared_tag_names (A ++ t1 :: t2 :: b))).
    { rewrite KT. simpl. rewrite Htg. reflexivity. }
    rewrite HposF, !method_ids_app in HkeysI. rewrite HkeysI in HndI.
    assert (Hnd3 : NoDup (map fst (c_inters (b_cat s1)) ++ method_ids P1 ++ method_ids P2)).
    { rewrite KI'. rewrite app_assoc in HndI. apply NoDup_app_inv in HndI. destruct HndI as [HndI _]. exact HndI. }
    assert (Hfresh : forall n, In n (auto_uses P1 ++ auto_uses P2) -> ~ In n (map fst (c_tags (b_cat s1)))).
    { intros n Hn Hin. unfold fresh_tags in Hfr. rewrite forallb_forall in Hfr. specialize (Hfr n Hn).
      apply andb_prop in Hfr. destruct Hfr as [F1 F2]. apply negb_true_iff in F1. apply negb_true_iff in F2.
      rewrite KT' in Hin. apply fold_add_new_incl in Hin. destruct Hin as [Hin|Hin].
      - apply existsb_beq_in in Hin. congruence.
      - apply existsb_beq_in in Hin. fold PA in F2. congruence. }
    unfold tree_ok in Ht1, Ht2. apply andb_prop in Ht1. destruct Ht1 as [Hok1 _]. apply andb_prop in Ht2. destruct Ht2 as [Hok2 _].
    fold P1 in Hok1. fold P2 in Hok2.
    destruct (run_two_swap body_text banned P1 P2 s1 s3 R12 Hok1 Hok2 (disjointb_spec _ _ Hdj) Hnd3 Hfresh)
      as [e1 [e2 [E1 [E2 [Hs3 R21]]]]].
    destruct (run_empt_effect body_text banned _ _ _ (pos_ok_plain _ _ Hok1) E1) as [Ke1 [_ [Ue1 [Pe1 Se1]]]].
    destruct (run_empt_effect body_text banned _ _ _ (pos_ok_plain _ _ Hok2) E2) as [Ke2 [_ [Ue2 [Pe2 Se2]]]].
    destruct (run_keys body_text banned P1 _ _ E1) as [_ [_ [_ [KTe1 _]]]]. simpl in KTe1.
    destruct (run_keys body_text banned P2 _ _ E2) as [_ [_ [_ [KTe2 _]]]]. simpl in KTe2.
    set (s3' := base_of (base_of s1 e2) e1) in *.
    set (nI := List.length (c_inters (b_cat s1))). set (mI1 := List.length (c_inters (b_cat e1))). set (mI2 := List.length (c_inters (b_cat e2))).
    set (nT := List.length (c_tags (b_cat s1))). set (mT1 := List.length (c_tags (b_cat e1))). set (mT2 := List.length (c_tags (b_cat e2))).
    set (GS := Gsw nI mI1 mI2 nT mT1 mT2 (b_urls s3) (b_urls s3') (b_protocols s3) (b_protocols s3')).
    assert (HGs3 : GS s3 = s3').
    { destruct Se1 as [a1 [a2 [a3 [a4 [a5 a6]]]]]. destruct Se2 as [c1 [c2 [c3 [c4 [c5 c6]]]]].
      apply bstate_ext.
      - apply cat_ext; unfold GS, Gsw, G; rewrite Hs3; cbn [b_cat c_jsight c_info c_servers c_types c_enums c_inters c_tags upd_tags upd_inters];
          unfold s3', base_of, Gpre, G; cbn [b_cat c_jsight c_info c_servers c_types c_enums c_inters c_tags upd_tags upd_inters]; try congruence.
        + rewrite <- (app_nil_r (c_inters (b_cat e2))) at 1. rewrite <- !app_assoc. unfold nI, mI1, mI2. rewrite swapmid_blocks, app_nil_r. reflexivity.
        + rewrite <- (app_nil_r (c_tags (b_cat e2))) at 1. rewrite <- !app_assoc. unfold nT, mT1, mT2. rewrite swapmid_blocks, app_nil_r. reflexivity.
      - unfold GS, Gsw, G, gUsw. cbn [b_urls]. rewrite Nat.sub_diag. reflexivity.
      - unfold GS, Gsw, G. rewrite Hs3. unfold s3', base_of, Gpre, G. cbn [b_similar]. congruence.
      - unfold GS, Gsw, G, gPsw. cbn [b_protocols]. rewrite Nat.sub_diag. reflexivity. }
    assert (HpU : Permutation (b_urls s3) (b_urls s3')).
    { rewrite Hs3. unfold s3'. rewrite !base_urls, !app_assoc. apply Permutation_app_tail, Permutation_app_comm. }
    assert (HpP : Permutation (b_protocols s3) (b_protocols s3')).
    { rewrite Hs3. unfold s3'. rewrite !base_prots, !app_assoc. apply Permutation_app_tail, Permutation_app_comm. }
    (* the invariant at s3 *)
    assert (Hocc : forall p, In p (positions_all (A ++ t1 :: t2 :: b)) -> occurs (A ++ t1 :: t2 :: b) (fst p) (snd p)).
    { intros [q anc] Hp. apply positions_all_occurs. exact Hp. }
    assert (Hinv3 : cat_inv (A ++ t1 :: t2 :: b) (b_cat s3)).
    { apply (run_inv body_text banned (A ++ t1 :: t2 :: b) (PA ++ P1 ++ P2) (fun p Hp => Hocc p ltac:(rewrite HposF, app_assoc; apply in_or_app; left; exact Hp))
               (init_state en tg) s3 (init_cat_inv _ _ _ S1 S2)).
      rewrite run_app, RA. simpl. exact R12. }
    assert (HJ3 : Jsw nI mI1 mI2 nT mT1 mT2 (b_urls s3) (b_protocols s3) (A ++ t1 :: t2 :: b) s3).
    { split; [exact Hinv3|]. split; [|split; [|split]].
      - rewrite Hs3, !base_inters, !app_length. unfold nI, mI1, mI2. lia.
      - rewrite Hs3, !base_tags, !app_length. unfold nT, mT1, mT2. lia.
      - exists []. reflexivity.
      - exists []. reflexivity. }
    pose proof (run_swapG body_text banned nI mI1 mI2 nT mT1 mT2 _ _ _ _ HpU HpP (A ++ t1 :: t2 :: b) PB
                  (fun p Hp => Hocc p ltac:(rewrite HposF, !app_assoc; apply in_or_app; right; exact Hp)) s3 HJ3) as RS.
    fold GS in RS. rewrite HGs3, RB in RS. simpl in RS.
    (* the stages of the exchanged forest *)
    apply validate_iff in V. destruct V as [Hc [Vi [Vq Vr]]].
    set (c' := set_pathvars (b_cat (GS bfin)) all).
    assert (HI' : c_inters c' = swapmid nI mI1 mI2 (c_inters c)).
    { unfold c', GS, Gsw, G. rewrite Hc. unfold set_pathvars. cbn [b_cat c_inters upd_inters upd_tags]. rewrite swapmid_map. reflexivity. }
    exists c'. split.
    - change (A ++ t2 :: t1 :: b) with (first :: (a' ++ t2 :: t1 :: b)). apply build_iff. split; [exact Hj|].
      change (first :: (a' ++ t2 :: t1 :: b)) with (A ++ t2 :: t1 :: b).
      exists en, tg, pvs, (GS bfin), all. split.
      + unfold stages.
        rewrite (collect_enums_mid_other _ _ _ _ K2e), (collect_enums_mid_other _ _ _ _ K1e),
                (collect_tags_mid_other _ _ _ _ K2t), (collect_tags_mid_other _ _ _ _ K1t),
                (check_dup_types_mid_other _ _ _ _ K2y), (check_dup_types_mid_other _ _ _ _ K1y),
                (collect_paths_mid_nopath path_props _ _ _ _ Hn2), (collect_paths_mid_nopath path_props _ _ _ _ Hn1).
        rewrite (collect_enums_mid_other _ _ _ _ K1e), (collect_enums_mid_other _ _ _ _ K2e) in S1.
        rewrite (collect_tags_mid_other _ _ _ _ K1t), (collect_tags_mid_other _ _ _ _ K2t) in S2.
        rewrite (check_dup_types_mid_other _ _ _ _ K1y), (check_dup_types_mid_other _ _ _ _ K2y) in S3.
        rewrite (collect_paths_mid_nopath path_props _ _ _ _ Hn1), (collect_paths_mid_nopath path_props _ _ _ _ Hn2) in S4.
        repeat split; try assumption.
        rewrite add_all_run, HposF', run_app, RA. simpl. rewrite run_app, R21. simpl. exact RS.
      + apply validate_iff. split; [reflexivity|]. fold c'. split; [|split].
        * unfold info_ok in *. unfold c', GS, Gsw, G, set_pathvars. unfold set_pathvars in Vi.
          cbn [c_info upd_inters upd_tags b_cat] in *. exact Vi.
        * apply first_bad_request_iff. rewrite HI'. rewrite (forallb_perm _ _ _ (swapmid_perm nI mI1 mI2 (c_inters c))).
          apply first_bad_request_iff. rewrite Hc. exact Vq.
        * apply first_bad_response_iff. rewrite HI'. rewrite (forallb_perm _ _ _ (swapmid_perm nI mI1 mI2 (c_inters c))).
          apply first_bad_response_iff. rewrite Hc. exact Vr.
    - rewrite Hc. repeat split; try reflexivity.
      + rewrite <- Hc, HI'. unfold nI, mI1, mI2. rewrite <- KI', <- Ke1, <- Ke2, !map_length. reflexivity.
      + unfold c', GS, Gsw, G. cbn [set_pathvars b_cat c_tags upd_inters upd_tags].
        unfold nT, mT1, mT2. rewrite <- KT', <- KTe1, <- KTe2, !map_length. reflexivity.
  Qed.
End Swapped.

(* ---- a run of pairwise swappable trees may be permuted (adjacent transpositions generate the permutations) ---- *)
Definition autos (t : dtree) : list bytes := auto_uses (positions t []).
Definition disb (x y : dtree) : bool := disjointb (autos x) (autos y) && disjointb (autos y) (autos x).

Fixpoint pairwiseb {A} (f : A -> A -> bool) (l : list A) : bool :=
  match l with [] => true | x :: r => forallb (f x) r && pairwiseb f r end.

(* every tree of the segment is fine by itself, its automatic tags are new where the segment stands (not declared,
   not made by a tree in front of the segment), and no two trees of the segment share an automatic tag *)
Definition seg_ok (a : list dtree) (decl : list bytes) (l : list dtree) : bool :=
  forallb (fun t => tree_ok t &&
                    forallb (fun n => negb (existsb (beq n) decl) && negb (existsb (beq n) (auto_uses (positions_all a)))) (autos t)) l &&
  pairwiseb disb l.

(* same scalar parts and declarations, same interactions and tags up to the order *)
Definition cat_equiv (c c' : catalog) : Prop :=
  c_jsight c' = c_jsight c /\ c_info c' = c_info c /\ c_servers c' = c_servers c /\ c_types c' = c_types c /\
  c_enums c' = c_enums c /\ Permutation (c_inters c) (c_inters c') /\ Permutation (c_tags c) (c_tags c').

Lemma cat_equiv_refl c : cat_equiv c c.
Proof. unfold cat_equiv. repeat split; reflexivity. Qed.
Lemma cat_equiv_trans c1 c2 c3 : cat_equiv c1 c2 -> cat_equiv c2 c3 -> cat_equiv c1 c3.
Proof.
  unfold cat_equiv. intros [a1 [a2 [a3 [a4 [a5 [a6 a7]]]]]] [b1 [b2 [b3 [b4 [b5 [b6 b7]]]]]].
  repeat split; try congruence; eapply Permutation_trans; eassumption.
Qed.

Lemma disb_sym x y : disb x y = disb y x.
Proof. unfold disb. apply andb_comm. Qed.

Lemma pairwiseb_transp {A} (f : A -> A -> bool) (sym : forall x y, f x y = f y x) l1 x y l2 :
  pairwiseb f (l1 ++ y :: x :: l2) = pairwiseb f (l1 ++ x :: y :: l2).
Proof.
  induction l1 as [|a l1 IH]; cbn [app pairwiseb forallb].
  - rewrite (sym y x). destruct (f x y), (forallb (f y) l2), (forallb (f x) l2); reflexivity.
  - rewrite IH. f_equal. rewrite !forallb_app. cbn [forallb]. destruct (f a y), (f a x); reflexivity.
Qed.

Lemma pairwiseb_mid {A} (f : A -> A -> bool) l1 y r : pairwiseb f (l1 ++ y :: r) = true ->
  (forall z, In z l1 -> f z y = true) /\ (forall w, In w r -> f y w = true).
Proof.
  induction l1 as [|a l1 IH]; cbn [app pairwiseb]; intro H; apply andb_prop in H; destruct H as [H1 H2].
  - split; [intros z []|]. rewrite forallb_forall in H1. exact H1.
  - destruct (IH H2) as [I1 I2]. split; [|exact I2]. intros z [<-|Hz]; [|apply I1; exact Hz].
    rewrite forallb_forall in H1. apply H1. apply in_or_app. right; left; reflexivity.
Qed.

Lemma auto_uses_app l1 l2 : auto_uses (l1 ++ l2) = auto_uses l1 ++ auto_uses l2.
Proof. unfold auto_uses. apply flat_map_app. Qed.

Lemma auto_uses_all_in l n : In n (auto_uses (positions_all l)) -> exists z, In z l /\ In n (autos z).
Proof.
  induction l as [|t r IH]; cbn [positions_all]; intro H; [destruct H|].
  rewrite auto_uses_app in H. apply in_app_or in H. destruct H as [H|H].
  - exists t. split; [left; reflexivity|exact H].
  - destruct (IH H) as [z [Hz Hn]]. exists z. split; [right; exact Hz|exact Hn].
Qed.

Lemma declared_mid_ok a l b :
  forallb (fun t => tree_ok t) l = true -> declared_tag_names (a ++ l ++ b) = declared_tag_names (a ++ b).
Proof.
  intro H. unfold declared_tag_names. rewrite !filter_app. replace (filter tag_node l) with (@nil dtree); [reflexivity|].
  symmetry. induction l as [|t r IH]; [reflexivity|]. cbn [forallb] in H. apply andb_prop in H. destruct H as [Ht Hr].
  cbn [filter]. destruct (tree_ok_root _ Ht) as [Hk _]. destruct (inter_kind_other _ Hk) as [_ [Hg _]].
  unfold tag_node. rewrite Hg. apply IH. exact Hr.
Qed.

Section Permuted.
  Variable path_props : coords -> option (list bytes).
  Variable body_text : coords -> bytes.
  Variable banned : list kind.
  Notation build := (build path_props body_text banned).

  Lemma seg_ok_trees a decl l : seg_ok a decl l = true -> forallb (fun t => tree_ok t) l = true.
  Proof.
    unfold seg_ok. intro H. apply andb_prop in H. destruct H as [H _]. rewrite forallb_forall in *. intros t Ht.
    specialize (H t Ht). apply andb_prop in H. apply H.
  Qed.

  Lemma inter_trees_permuted_lemma a seg seg' b :
    Permutation seg seg' -> seg_ok a (declared_tag_names (a ++ b)) seg = true ->
    forall c, build (a ++ seg ++ b) = COk c ->
    exists c', build (a ++ seg' ++ b) = COk c' /\ cat_equiv c c'.
  Proof.
    intro Hp. set (decl := declared_tag_names (a ++ b)).
    enough (Hgen : seg_ok a decl seg = true ->
                   seg_ok a decl seg' = true /\
                   forall c, build (a ++ seg ++ b) = COk c -> exists c', build (a ++ seg' ++ b) = COk c' /\ cat_equiv c c')
      by (intro H; exact (proj2 (Hgen H))).
    induction Hp as [l | x y l1 l2 | l l' l'' _ IH1 _ IH2] using Permutation_ind_transp.
    - intro H. split; [exact H|]. intros c Hc. exists c. split; [exact Hc|apply cat_equiv_refl].
    - intro Hok. assert (Hok' : seg_ok a decl (l1 ++ x :: y :: l2) = true).
      { unfold seg_ok in *. apply andb_prop in Hok. destruct Hok as [H1 H2]. apply andb_true_intro. split.
        - rewrite forallb_app in *. cbn [forallb] in *. apply andb_prop in H1. destruct H1 as [Ha Hb].
          apply andb_prop in Hb. destruct Hb as [Hy Hb]. apply andb_prop in Hb. destruct Hb as [Hx Hb].
          rewrite Ha, Hx, Hy, Hb. reflexivity.
        - rewrite <- (pairwiseb_transp disb disb_sym). exact H2. }
      split; [exact Hok'|]. intros c Hc.
      pose proof (seg_ok_trees _ _ _ Hok) as Htrees.
      unfold seg_ok in Hok. apply andb_prop in Hok. destruct Hok as [H1 H2].
      rewrite forallb_forall in H1.
      assert (Hy := H1 y ltac:(apply in_or_app; right; left; reflexivity)).
      assert (Hx := H1 x ltac:(apply in_or_app; right; right; left; reflexivity)).
      apply andb_prop in Hy. destruct Hy as [Hty Hfy]. apply andb_prop in Hx. destruct Hx as [Htx Hfx].
      destruct (pairwiseb_mid disb l1 y (x :: l2) H2) as [Hbefore Hafter].
      assert (Hyx : disb y x = true) by (apply Hafter; left; reflexivity).
      replace (a ++ (l1 ++ y :: x :: l2) ++ b) with ((a ++ l1) ++ y :: x :: (l2 ++ b)) in Hc
        by (rewrite <- !app_assoc; reflexivity).
      replace (a ++ (l1 ++ x :: y :: l2) ++ b) with ((a ++ l1) ++ x :: y :: (l2 ++ b))
        by (rewrite <- !app_assoc; reflexivity).
      assert (Hdecl : declared_tag_names ((a ++ l1) ++ y :: x :: l2 ++ b) = decl).
      { replace ((a ++ l1) ++ y :: x :: l2 ++ b) with (a ++ (l1 ++ y :: x :: l2) ++ b) by (rewrite <- !app_assoc; reflexivity).
        apply declared_mid_ok. exact Htrees. }
      assert (Hsw : swappable y x = true).
      { unfold swappable. rewrite Hty, Htx. unfold disb in Hyx. apply andb_prop in Hyx. destruct Hyx as [Hyx _].
        unfold autos in Hyx. rewrite Hyx. reflexivity. }
      assert (Hfr : fresh_tags (a ++ l1) y x (l2 ++ b) = true).
      { unfold fresh_tags. rewrite Hdecl. apply forallb_forall. intros n Hn.
        assert (Hn' : negb (existsb (beq n) decl) && negb (existsb (beq n) (auto_uses (positions_all a))) = true /\
                      forall z, In z l1 -> ~ In n (autos z)).
        { apply in_app_or in Hn. destruct Hn as [Hn|Hn].
          - split; [rewrite forallb_forall in Hfy; exact (Hfy n Hn)|].
            intros z Hz Hin. specialize (Hbefore z Hz). unfold disb in Hbefore. apply andb_prop in Hbefore. destruct Hbefore as [Hb _].
            exact (disjointb_spec _ _ Hb n Hin Hn).
          - split; [rewrite forallb_forall in Hfx; exact (Hfx n Hn)|].
            intros z Hz Hin.
            destruct (pairwiseb_mid disb (l1 ++ [y]) x l2 ltac:(rewrite <- app_assoc; exact H2)) as [Hbx _].
            specialize (Hbx z ltac:(apply in_or_app; left; exact Hz)). unfold disb in Hbx. apply andb_prop in Hbx. destruct Hbx as [Hb _].
            exact (disjointb_spec _ _ Hb n Hin Hn). }
        destruct Hn' as [Hn1 Hn2]. apply andb_prop in Hn1. destruct Hn1 as [N1 N2]. rewrite N1. cbn [andb].
        apply negb_true_iff. apply not_true_is_false. intro E. apply existsb_beq_in in E.
        rewrite positions_all_app, auto_uses_app in E. apply in_app_or in E. destruct E as [E|E].
        - apply negb_true_iff in N2. apply existsb_beq_in in E. congruence.
        - destruct (auto_uses_all_in _ _ E) as [z [Hz Hin]]. exact (Hn2 z Hz Hin). }
      destruct (inter_trees_swapped_lemma path_props body_text banned _ _ _ _ _ Hsw Hfr Hc)
        as [c' [Hb' [e1 [e2 [e3 [e4 [e5 [e6 e7]]]]]]]].
      exists c'. split; [exact Hb'|]. unfold cat_equiv. repeat split; try assumption.
      + rewrite e6. apply Permutation_sym, swapmid_perm.
      + rewrite e7. apply Permutation_sym, swapmid_perm.
    - intro H. destruct (IH1 H) as [H' F1]. destruct (IH2 H') as [H'' F2]. split; [exact H''|].
      intros c Hc. destruct (F1 c Hc) as [c1 [Hc1 Q1]]. destruct (F2 c1 Hc1) as [c2 [Hc2 Q2]].
      exists c2. split; [exact Hc2|]. eapply cat_equiv_trans; eassumption.
  Qed.
End Permuted.
