(* C04: the descriptions of INFO and of the TAGs, traced through the run *)
From Coq Require Import List NArith Bool String Lia.
From JV.lib Require Import Bytes.
From JV.gen Require Import DirectiveTables TagName.
From JV.model Require Import ScannerSem Core Description PathParams TagTitle Catalog.
From JV.proofs Require Import BytesLemmas TagNameProofs CatalogProofs FaithfulProofs InfoProofs.
Import ListNotations.
Open Scope N_scope.

Definition idesc (c : catalog) : option bytes := match c_info c with Some i => in_desc i | None => None end.
Definition dget (l : list (bytes * tag)) (n : bytes) : option bytes :=
  match om_get beq l n with Some tg => t_desc tg | None => None end.
Definition tdesc (n : bytes) (c : catalog) : option bytes := dget (c_tags c) n.

(* the normalised text of a Description directive *)
Definition vtext (bt : coords -> bytes) (t : dtree) : bytes :=
  match d_body (tree_dir t) with Some bc => fst (description (bt bc)) | None => [] end.

Definition parent_is (anc : list dtree) (k : kind) : bool :=
  match parent_dir anc with Some p => kind_eqb (d_kind p) k | None => false end.
(* a Description directly under INFO / under the TAG named n *)
Definition p_info (t : dtree) (anc : list dtree) : bool := kind_eqb (dk t) KDescription && parent_is anc KInfo.
Definition p_tag (n : bytes) (t : dtree) (anc : list dtree) : bool :=
  kind_eqb (dk t) KDescription &&
  match parent_dir anc with Some p => kind_eqb (d_kind p) KTAG && beq (named p (bs "TagName")) n | None => false end.

Record dstep (bt : coords -> bytes) (t : dtree) (anc : list dtree) (c c' : catalog) : Prop := {
  ds_info : if p_info t anc then idesc c = None /\ idesc c' = Some (vtext bt t) else idesc c' = idesc c;
  ds_tag : forall n, if p_tag n t anc then tdesc n c = None /\ tdesc n c' = Some (vtext bt t) else tdesc n c' = tdesc n c
}.

Lemma om_get_update_b {V} (m : list (bytes * V)) k g n :
  om_get beq (om_update beq m k g) n =
  match om_get beq m n with Some x => Some (if beq n k then g x else x) | None => None end.
Proof.
  unfold om_get, om_update. induction m as [|[a v] m IH]; simpl; [reflexivity|].
  destruct (beq a k) eqn:E1; simpl.
  - destruct (beq a n) eqn:E2; simpl.
    + apply beq_eq in E1. apply beq_eq in E2. subst. rewrite beq_refl. reflexivity.
    + exact IH.
  - destruct (beq a n) eqn:E2; simpl.
    + apply beq_eq in E2. subst. rewrite E1. reflexivity.
    + exact IH.
Qed.

Lemma dget_update_add l k i n : dget (om_update beq l k (fun t => tag_add_iid t i)) n = dget l n.
Proof.
  unfold dget. rewrite om_get_update_b. destruct (om_get beq l n) as [x|]; [|reflexivity].
  destruct (beq n k); [apply tag_add_desc | reflexivity].
Qed.

Lemma dget_snoc_new l a tg n : om_has beq l a = false -> t_desc tg = None -> dget (l ++ [(a, tg)]) n = dget l n.
Proof.
  intros Hh Hd. unfold dget, om_get, om_has in *. induction l as [|e l IH]; simpl in *.
  - destruct (beq a n); [exact Hd | reflexivity].
  - apply orb_false_iff in Hh as [H1 H2]. destruct (beq (fst e) n); [reflexivity | exact (IH H2)].
Qed.

Lemma tags_go_dget td i ns : forall acc tg res tg', tags_go td i ns acc tg = COk (res, tg') -> forall n, dget tg' n = dget tg n.
Proof.
  induction ns as [|x r IH]; intros acc tg res tg' H n; cbn [tags_go] in H.
  - inversion H; reflexivity.
  - destruct (om_get beq tg x) as [t0|]; [|discriminate H]. destruct (t_auto t0); [discriminate H|].
    rewrite (IH _ _ _ _ H n). destruct i; [apply dget_update_add | reflexivity].
Qed.

Lemma tags_for_dget me anc i tags ns tg' : tags_for me anc i tags = COk (ns, tg') -> forall n, dget tg' n = dget tags n.
Proof.
  rewrite tags_for_unfold. destruct (used_tags_directive me anc) as [td|].
  - rewrite tags_from_directive_unfold. destruct (negb (beq (d_annot td) [])); [discriminate|].
    destruct (d_unnamed td) as [|x r]; [discriminate|]. intros H n. exact (tags_go_dget _ _ _ _ _ _ _ H n).
  - cbv zeta. intros H n. inversion H; subst. rewrite dget_update_add.
    destruct (om_has beq tags (auto_tag_name (i_path i))) eqn:E; [reflexivity|]. apply dget_snoc_new; [exact E | reflexivity].
Qed.

Lemma dstep_same bt t anc c c' :
  kind_eqb (dk t) KDescription = false -> idesc c' = idesc c -> (forall n, dget (c_tags c') n = dget (c_tags c) n) ->
  dstep bt t anc c c'.
Proof.
  intros Hk Hi Ht. constructor.
  - unfold p_info. rewrite Hk. simpl. exact Hi.
  - intro n. unfold p_tag. rewrite Hk. simpl. apply Ht.
Qed.

Section DescStep.
  Variable body_text : coords -> bytes.
  Variable banned : list kind.

  Lemma add_request_it d anc b b' : add_request d anc b = COk b' ->
    c_info (b_cat b') = c_info (b_cat b) /\ c_tags (b_cat b') = c_tags (b_cat b).
  Proof.
    unfold add_request, kerr, get_http. intro H. cbv beta zeta in H.
    destruct (kind_eqb (d_kind d) KRequest); walk H; inversion H; subst b'; clear H; split; reflexivity.
  Qed.
  Lemma add_response_it d anc b b' : add_response d anc b = COk b' ->
    c_info (b_cat b') = c_info (b_cat b) /\ c_tags (b_cat b') = c_tags (b_cat b).
  Proof.
    unfold add_response, kerr, get_http. intro H. cbv beta zeta in H. unfold cbind in H.
    walk H; inversion H; subst b'; clear H; split; reflexivity.
  Qed.

  Lemma desc_step t anc b b' :
    add_directive body_text banned t anc b = COk b' -> dstep body_text t anc (b_cat b) (b_cat b').
  Proof.
    intro H. unfold add_directive in H. cbv zeta in H.
    destruct (kind_in (d_kind (tree_dir t)) banned); [discriminate H|].
    destruct (d_kind (tree_dir t)) eqn:Hk; kcompute_in H; cbv beta iota delta [orb] in H.
    all: try (assert (Hsame : c_info (b_cat b') = c_info (b_cat b) /\ c_tags (b_cat b') = c_tags (b_cat b));
              [ try unfold kerr in H; try unfold berr in H; try unfold cbind in H; try unfold get_http in H; try unfold get_rpc in H;
                walk H;
                first [ exact (add_request_it _ _ _ _ H)
                      | exact (add_response_it _ _ _ _ H)
                      | inversion H; try subst b'; clear H; rewrite ?b_cat_with_cat;
                        try match goal with Hc : check_path _ _ _ = COk ?a |- _ => simpl; rewrite (check_path_cat _ _ _ _ Hc) end;
                        split; reflexivity ]
              | destruct Hsame as [Hi Ht]; apply dstep_same; [unfold dk; rewrite Hk; reflexivity | unfold idesc; rewrite Hi; reflexivity | intro n; rewrite Ht; reflexivity] ]).
    - (* INFO *)
      unfold kerr in H. walk H. inversion H; subst b'; clear H. rewrite b_cat_with_cat.
      apply dstep_same; [unfold dk; rewrite Hk; reflexivity | | intro n; reflexivity].
      unfold idesc. simpl. match goal with Hc : c_info _ = None |- _ => rewrite Hc end. reflexivity.
    - (* Title *)
      unfold kerr in H. walk H. inversion H; subst b'; clear H. rewrite b_cat_with_cat.
      apply dstep_same; [unfold dk; rewrite Hk; reflexivity | | intro n; reflexivity].
      unfold idesc. simpl. match goal with Hc : c_info _ = Some _ |- _ => rewrite Hc end. reflexivity.
    - (* Version *)
      unfold kerr in H. walk H. inversion H; subst b'; clear H. rewrite b_cat_with_cat.
      apply dstep_same; [unfold dk; rewrite Hk; reflexivity | | intro n; reflexivity].
      unfold idesc. simpl. match goal with Hc : c_info _ = Some _ |- _ => rewrite Hc end. reflexivity.
    - (* Description *)
      unfold kerr, berr, get_http, get_rpc in H. walk H; inversion H; subst b'; clear H; rewrite b_cat_with_cat.
      all: assert (Hv : vtext body_text t = n :: b1)
        by (unfold vtext; repeat match goal with Hb : d_body _ = Some _ |- _ => rewrite Hb | Hb : description _ = _ |- _ => rewrite Hb end; reflexivity).
      + (* under INFO *)
        pose proof Heqb2 as HkI. apply kind_eqb_eq in HkI.
        constructor.
        * unfold p_info, parent_is, dk. rewrite Hk, Heqo1, Heqb2. simpl. unfold idesc. simpl. rewrite Heqo2, Heqo3, Hv. split; reflexivity.
        * intro m. unfold p_tag, dk. rewrite Hk, Heqo1, HkI. reflexivity.
      + (* under GET/POST/.. *)
        constructor.
        * unfold p_info, parent_is, dk. rewrite Hk, Heqo1, Heqb2. reflexivity.
        * intro m. unfold p_tag, dk. rewrite Hk, Heqo1. destruct (kind_eqb (d_kind d) KTAG) eqn:Et; [|reflexivity].
          apply kind_eqb_eq in Et. rewrite Et in Heqb3. discriminate Heqb3.
      + (* under Method *)
        constructor.
        * unfold p_info, parent_is, dk. rewrite Hk, Heqo1, Heqb2. reflexivity.
        * intro m. unfold p_tag, dk. rewrite Hk, Heqo1. destruct (kind_eqb (d_kind d) KTAG) eqn:Et; [|reflexivity].
          apply kind_eqb_eq in Et. rewrite Et in Heqb4. discriminate Heqb4.
      + (* under TAG *)
        constructor.
        * unfold p_info, parent_is, dk. rewrite Hk, Heqo1, Heqb2. reflexivity.
        * intro m. unfold p_tag, dk. rewrite Hk, Heqo1, Heqb5. cbn [andb].
          unfold tdesc, dget. cbn [c_tags upd_tags]. rewrite om_get_update_b.
          destruct (beq (named d (bs "TagName")) m) eqn:Em.
          -- apply beq_eq in Em. subst m. rewrite Heqo2, beq_refl, Heqo3, Hv. split; reflexivity.
          -- destruct (om_get beq (c_tags (b_cat b)) m) as [x|]; [|reflexivity].
             match goal with |- context [beq m ?k] => destruct (beq m k) eqn:Em2 end; [|reflexivity].
             apply beq_eq in Em2. subst m. simpl in Em. rewrite beq_refl in Em. discriminate Em.
    - unfold kerr, cbind in H. walk H. inversion H; subst b'; clear H. rewrite b_cat_with_cat.
      match goal with Hc : check_path _ _ _ = COk ?a |- _ => pose proof (check_path_cat _ _ _ _ Hc) as Hcat end.
      match goal with Ht : tags_for _ _ _ _ = COk ?r |- _ => destruct r as [ns tg]; pose proof (tags_for_dget _ _ _ _ _ _ Ht) as Hd end.
      apply dstep_same; [unfold dk; rewrite Hk; reflexivity | unfold idesc; simpl; rewrite Hcat; reflexivity
                        | intro m; simpl; rewrite Hd, Hcat; reflexivity].
    - unfold kerr, cbind in H. walk H. inversion H; subst b'; clear H. rewrite b_cat_with_cat.
      match goal with Hc : check_path _ _ _ = COk ?a |- _ => pose proof (check_path_cat _ _ _ _ Hc) as Hcat end.
      match goal with Ht : tags_for _ _ _ _ = COk ?r |- _ => destruct r as [ns tg]; pose proof (tags_for_dget _ _ _ _ _ _ Ht) as Hd end.
      apply dstep_same; [unfold dk; rewrite Hk; reflexivity | unfold idesc; simpl; rewrite Hcat; reflexivity
                        | intro m; simpl; rewrite Hd, Hcat; reflexivity].
    - unfold kerr, cbind in H. walk H. inversion H; subst b'; clear H. rewrite b_cat_with_cat.
      match goal with Hc : check_path _ _ _ = COk ?a |- _ => pose proof (check_path_cat _ _ _ _ Hc) as Hcat end.
      match goal with Ht : tags_for _ _ _ _ = COk ?r |- _ => destruct r as [ns tg]; pose proof (tags_for_dget _ _ _ _ _ _ Ht) as Hd end.
      apply dstep_same; [unfold dk; rewrite Hk; reflexivity | unfold idesc; simpl; rewrite Hcat; reflexivity
                        | intro m; simpl; rewrite Hd, Hcat; reflexivity].
    - unfold kerr, cbind in H. walk H. inversion H; subst b'; clear H. rewrite b_cat_with_cat.
      match goal with Hc : check_path _ _ _ = COk ?a |- _ => pose proof (check_path_cat _ _ _ _ Hc) as Hcat end.
      match goal with Ht : tags_for _ _ _ _ = COk ?r |- _ => destruct r as [ns tg]; pose proof (tags_for_dget _ _ _ _ _ _ Ht) as Hd end.
      apply dstep_same; [unfold dk; rewrite Hk; reflexivity | unfold idesc; simpl; rewrite Hcat; reflexivity
                        | intro m; simpl; rewrite Hd, Hcat; reflexivity].
    - unfold kerr, cbind in H. walk H. inversion H; subst b'; clear H. rewrite b_cat_with_cat.
      match goal with Hc : check_path _ _ _ = COk ?a |- _ => pose proof (check_path_cat _ _ _ _ Hc) as Hcat end.
      match goal with Ht : tags_for _ _ _ _ = COk ?r |- _ => destruct r as [ns tg]; pose proof (tags_for_dget _ _ _ _ _ _ Ht) as Hd end.
      apply dstep_same; [unfold dk; rewrite Hk; reflexivity | unfold idesc; simpl; rewrite Hcat; reflexivity
                        | intro m; simpl; rewrite Hd, Hcat; reflexivity].
    - (* Method *)
      unfold kerr, cbind in H. walk H. inversion H; subst b'; clear H. rewrite b_cat_with_cat.
      match goal with Ht : tags_for _ _ _ _ = COk ?r |- _ => destruct r as [ns tg]; pose proof (tags_for_dget _ _ _ _ _ _ Ht) as Hd end.
      apply dstep_same; [unfold dk; rewrite Hk; reflexivity | reflexivity | intro m; simpl; rewrite Hd; reflexivity].
  Qed.
End DescStep.

(* ---- a field that is set once, by the positions that satisfy p ---- *)
Section SetOnceOpt.
  Variable body_text : coords -> bytes.
  Variable banned : list kind.
  Variable f : catalog -> option bytes.
  Variable p : dtree -> list dtree -> bool.
  Variable v : dtree -> bytes.
  Hypothesis Hstep : forall t anc b b', add_directive body_text banned t anc b = COk b' ->
    if p t anc then f (b_cat b) = None /\ f (b_cat b') = Some (v t) else f (b_cat b') = f (b_cat b).

  Lemma run_some_stays l : forall b b' x, run body_text banned l b = COk b' -> f (b_cat b) = Some x ->
    f (b_cat b') = Some x /\ forall q, In q l -> p (fst q) (snd q) = false.
  Proof.
    induction l as [|q r IH]; intros b b' x H Hx; simpl in H.
    - inversion H; subst. split; [exact Hx | intros q []].
    - destruct (add_directive body_text banned (fst q) (snd q) b) as [b1| | |] eqn:E; simpl in H; try discriminate H.
      apply Hstep in E. destruct (p (fst q) (snd q)) eqn:Ep.
      + destruct E as [E _]. congruence.
      + destruct (IH _ _ x H) as [A B]; [congruence|]. split; [exact A|]. intros y [<-|Hy]; [exact Ep | exact (B y Hy)].
  Qed.

  Lemma run_set_once_opt l : forall b b', run body_text banned l b = COk b' -> f (b_cat b) = None ->
    ((forall q, In q l -> p (fst q) (snd q) = false) -> f (b_cat b') = None) /\
    (forall l1 q l2, l = l1 ++ q :: l2 -> p (fst q) (snd q) = true ->
       f (b_cat b') = Some (v (fst q)) /\
       (forall y, In y l1 -> p (fst y) (snd y) = false) /\ (forall y, In y l2 -> p (fst y) (snd y) = false)).
  Proof.
    induction l as [|q r IH]; intros b b' H Hn; simpl in H.
    - inversion H; subst. split; [intros _; exact Hn|]. intros l1 q l2 E. destruct l1; discriminate E.
    - destruct (add_directive body_text banned (fst q) (snd q) b) as [b1| | |] eqn:E; simpl in H; try discriminate H.
      apply Hstep in E. destruct (p (fst q) (snd q)) eqn:Ep.
      + destruct E as [_ E]. destruct (run_some_stays r _ _ _ H E) as [A B]. split.
        * intro Hno. specialize (Hno q (or_introl eq_refl)). congruence.
        * intros l1 y l2 El Hy. destruct l1 as [|z l1]; simpl in El; injection El as <- El.
          -- subst r. split; [exact A|]. split; [intros w []|exact B].
          -- subst r. exfalso. specialize (B y). rewrite B in Hy; [discriminate Hy|]. apply in_or_app; right; left; reflexivity.
      + destruct (IH _ _ H) as [A B]; [congruence|]. split.
        * intro Hno. apply A. intros y Hy. apply Hno. right; exact Hy.
        * intros l1 y l2 El Hy. destruct l1 as [|z l1]; simpl in El; injection El as <- El.
          -- congruence.
          -- destruct (B l1 y l2 El Hy) as [C [D F]]. split; [exact C|]. split; [|exact F].
             intros w [<-|Hw]; [exact Ep | exact (D w Hw)].
  Qed.
End SetOnceOpt.

Lemma dget_tag_entries ts n : dget (map tag_entry (filter tag_node ts)) n = None.
Proof.
  unfold dget, om_get. induction ts as [|t r IH]; simpl; [reflexivity|].
  destruct (tag_node t); [|exact IH]. simpl.
  match goal with |- context [beq ?k n] => destruct (beq k n) end; [reflexivity | exact IH].
Qed.

Section DescFaithful.
  Variable path_props : coords -> option (list bytes).
  Variable body_text : coords -> bytes.
  Variable banned : list kind.
  Variable post : list dtree.
  Variable c : catalog.
  Hypothesis Hbuild : build path_props body_text banned post = COk c.

  (* the description of INFO is the text of THE Description directly under INFO (exactly one may stand there) *)
  Theorem info_desc_faithful_lemma :
    ((forall q, In q (positions_all post) -> p_info (fst q) (snd q) = false) -> idesc c = None) /\
    (forall l1 q l2, positions_all post = l1 ++ q :: l2 -> p_info (fst q) (snd q) = true ->
       idesc c = Some (vtext body_text (fst q)) /\
       (forall y, In y l1 -> p_info (fst y) (snd y) = false) /\ (forall y, In y l2 -> p_info (fst y) (snd y) = false)).
  Proof.
    destruct (build_run _ _ _ _ _ Hbuild) as [en [tg [b [all [He [Ht [Hrun Hc]]]]]]].
    assert (Hi : idesc c = idesc (b_cat b)) by (subst c; reflexivity). rewrite Hi.
    apply (run_set_once_opt body_text banned idesc p_info (vtext body_text)
             (fun t anc b0 b1 H => ds_info _ _ _ _ _ (desc_step _ _ t anc b0 b1 H)) _ _ _ Hrun). reflexivity.
  Qed.

  (* the description of the tag n is the text of THE Description under the TAG directive named n *)
  Theorem tag_desc_faithful_lemma : forall n,
    ((forall q, In q (positions_all post) -> p_tag n (fst q) (snd q) = false) -> tdesc n c = None) /\
    (forall l1 q l2, positions_all post = l1 ++ q :: l2 -> p_tag n (fst q) (snd q) = true ->
       tdesc n c = Some (vtext body_text (fst q)) /\
       (forall y, In y l1 -> p_tag n (fst y) (snd y) = false) /\ (forall y, In y l2 -> p_tag n (fst y) (snd y) = false)).
  Proof.
    intro n. destruct (build_run _ _ _ _ _ Hbuild) as [en [tg [b [all [He [Ht [Hrun Hc]]]]]]].
    assert (Hi : tdesc n c = tdesc n (b_cat b)) by (subst c; reflexivity). rewrite Hi.
    apply (run_set_once_opt body_text banned (tdesc n) (p_tag n) (vtext body_text)
             (fun t anc b0 b1 H => ds_tag _ _ _ _ _ (desc_step _ _ t anc b0 b1 H) n) _ _ _ Hrun).
    apply collect_tags_exact in Ht. simpl in Ht. subst tg. unfold tdesc. simpl. apply dget_tag_entries.
  Qed.
End DescFaithful.
