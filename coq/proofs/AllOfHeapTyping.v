(* C12 — allOf inheritance for EVERY library-accepted project (part 1 of 4): a typing of the heap.

   The proof of allof_correct_skeleton (AllOfProofs.v) rests on a shape invariant (heap_ok: a node
   that is ever mutated is never the child of a node that is copied or mutated), which fails as
   soon as a BASE type has a rule below its root (its children are copied by value, the copies
   share the mutated grandchildren) or a rule stands inside an object with a rule.  Here the
   invariant is a TYPING instead of a shape:

     G : list entry      one entry per heap node (ghost state, extended when a node is allocated):
                         the mark the node carries, and the SOURCE subtree (key, tree) it stands
                         for — a copy `vv := *v` stands for the same source subtree as v;
     tg e                the target of an entry: spec_tree of its source subtree, re-marked;
     node_ok G e n       node n fits entry e: its fields are those of the source subtree, and its
                         children stand — in order — for a SUFFIX of the target's children that
                         contains at least the own properties (Unshift only ever adds in front:
                         every intermediate state of the copy loops is typable);
     full / fin          a node is full when it has ALL the target's children; fin = full, and
                         all children fin, recursively: such a node renders as its target.

   Two frame conditions replace the separation of regions:
     keeps    a full node is never written again (a write is an Unshift into an object in which
              ObjectProperty found nothing for a key of its target: it was not full) — this is
              why the shared grandchildren of by-value copies are harmless: a copy is only taken
              from a fin node;
     lframe d a visit of a node whose source subtree needs spec fuel <= d only writes nodes whose
              source subtree is defined at fuel d (children and bases need strictly less fuel
              than the node that names them: the inheritance graph is acyclic), so the object
              being filled is not touched by the visits of its children and bases. *)
From Coq Require Import List NArith Bool String Lia Arith PeanoNat.
From JV.lib Require Import Bytes.
From JV.model Require Import AllOf.
From JV.spec Require Import AllOfSpec.
From JV.proofs Require Import AllOfProofs.
Import ListNotations.
Open Scope nat_scope.

Definition ttok (t : tree) : tok := match t with Tree tk _ _ => tk end.
Definition tao (t : tree) : list bytes := match t with Tree _ ao _ => ao end.
Definition tkids (t : tree) : list (option bytes * tree) := match t with Tree _ _ kids => kids end.

Lemma tree_eta t : t = Tree (ttok t) (tao t) (tkids t).
Proof. destruct t; reflexivity. Qed.

Record entry := { en_mark : bytes; en_key : option bytes; en_tree : tree }.

(* ------------------------------------------------------------------------------------- *)
(* rtrees *)

Lemma mark_mark b c x : mark b (mark c x) = mark b x.
Proof. destruct x; reflexivity. Qed.

Lemma rkids_mark b x : rkids (mark b x) = rkids x.
Proof. destruct x; reflexivity. Qed.

Lemma rkey_mark b x : rkey (mark b x) = rkey x.
Proof. destruct x; reflexivity. Qed.

Lemma rtok_mark b x : rtok (mark b x) = rtok x.
Proof. destruct x; reflexivity. Qed.

Lemma rinh_mark b x : rinh (mark b x) = b.
Proof. destruct x; reflexivity. Qed.

Lemma rtree_ok_mark b x : rtree_ok (mark b x) = rtree_ok x.
Proof. destruct x; reflexivity. Qed.

Lemma rtree_eta x : x = RNode (rkey x) (rtok x) (rinh x) (rkids x).
Proof. destruct x; reflexivity. Qed.

Lemma mark_own x : mark (rinh x) x = x.
Proof. destruct x; reflexivity. Qed.

Fixpoint rheight (r : rtree) : nat :=
  match r with RNode _ _ _ ks => S (list_max (map rheight ks)) end.

Lemma rheight_mark b x : rheight (mark b x) = rheight x.
Proof. destruct x; reflexivity. Qed.

Lemma rheight_kid x y : In y (rkids x) -> rheight y < rheight x.
Proof.
  destruct x as [k tk i ks]. simpl. intros Hin.
  assert (Hle : list_max (map rheight ks) <= list_max (map rheight ks)) by lia.
  apply list_max_le in Hle. rewrite Forall_forall in Hle.
  specialize (Hle (rheight y) (in_map rheight ks y Hin)). lia.
Qed.

Lemma rtree_ok_kids x : rtree_ok x = true -> forallb rtree_ok (rkids x) = true.
Proof. destruct x as [k tk i ks]. simpl. intros Hok. apply andb_true_iff in Hok. tauto. Qed.

Lemma rtree_ok_kid x y : rtree_ok x = true -> In y (rkids x) -> rtree_ok y = true.
Proof. intros Hok Hin. apply rtree_ok_kids in Hok. rewrite forallb_forall in Hok. auto. Qed.

Lemma rtree_ok_object_keys x :
  rtree_ok x = true -> rtok x = TObject ->
  exists l, map rkey (rkids x) = map Some l /\ NoDup l.
Proof.
  destruct x as [k tk i ks]. simpl. intros Hok ->. apply andb_true_iff in Hok as [_ Hok].
  destruct (keys_of ks) as [l|] eqn:El; [|discriminate]. exists l. split.
  - apply keys_of_map. exact El.
  - apply nodupb_NoDup. exact Hok.
Qed.

Lemma rtree_ok_other_kids x : rtree_ok x = true -> rtok x = TOther -> rkids x = [].
Proof.
  destruct x as [k tk i ks]. simpl. intros Hok ->. apply andb_true_iff in Hok as [_ Hok].
  destruct ks; [reflexivity|discriminate].
Qed.

(* ------------------------------------------------------------------------------------- *)
(* lists *)

Definition prefix {A} (l l' : list A) : Prop := exists x, l' = l ++ x.

Lemma prefix_refl {A} (l : list A) : prefix l l.
Proof. exists []. rewrite app_nil_r. reflexivity. Qed.

Lemma prefix_trans {A} (a b c : list A) : prefix a b -> prefix b c -> prefix a c.
Proof. intros [x ->] [y ->]. exists (x ++ y). rewrite app_assoc. reflexivity. Qed.

Lemma prefix_app {A} (l x : list A) : prefix l (l ++ x).
Proof. exists x. reflexivity. Qed.

Lemma prefix_nth {A} (l l' : list A) j a : prefix l l' -> nth_error l j = Some a -> nth_error l' j = Some a.
Proof.
  intros [x ->] Hn. rewrite nth_error_app1; [exact Hn|]. apply nth_error_Some. congruence.
Qed.

Lemma prefix_nth_inv {A} (l l' : list A) j a :
  prefix l l' -> j < List.length l -> nth_error l' j = Some a -> nth_error l j = Some a.
Proof. intros [x ->] Hlt Hn. rewrite nth_error_app1 in Hn; auto. Qed.

Lemma prefix_length {A} (l l' : list A) : prefix l l' -> List.length l <= List.length l'.
Proof. intros [x ->]. rewrite app_length. lia. Qed.

Lemma Forall2_length' {A B} (R : A -> B -> Prop) l1 l2 : Forall2 R l1 l2 -> List.length l1 = List.length l2.
Proof. induction 1; simpl; auto. Qed.

Lemma Forall2_nth_l {A B} (R : A -> B -> Prop) l1 l2 i a :
  Forall2 R l1 l2 -> nth_error l1 i = Some a -> exists b, nth_error l2 i = Some b /\ R a b.
Proof.
  intros HF. revert i. induction HF as [|x y l1 l2 Hxy _ IH]; intros i Hn; [destruct i; discriminate|].
  destruct i; simpl in *.
  - injection Hn as <-. eauto.
  - apply IH. exact Hn.
Qed.

Lemma Forall2_nth_r {A B} (R : A -> B -> Prop) l1 l2 i b :
  Forall2 R l1 l2 -> nth_error l2 i = Some b -> exists a, nth_error l1 i = Some a /\ R a b.
Proof.
  intros HF. revert i. induction HF as [|x y l1 l2 Hxy _ IH]; intros i Hn; [destruct i; discriminate|].
  destruct i; simpl in *.
  - injection Hn as <-. eauto.
  - apply IH. exact Hn.
Qed.

Lemma app_eq_length_l {A} (p s x : list A) : x = p ++ s -> List.length s = List.length x -> p = [] /\ s = x.
Proof.
  intros -> Hl. rewrite app_length in Hl. destruct p; [auto|simpl in Hl; lia].
Qed.

(* ------------------------------------------------------------------------------------- *)
(* spec_tree, one level *)

Definition eff_ao (tk : tok) (ao : list bytes) : list bytes := match tk with TObject => ao | _ => [] end.

Section Typing.
  Variable tys : list (bytes * option tree).
  Variable ts : list (bytes * option id).
  Variable D : nat.

  Lemma spec_unfold d k tk ao kids x :
    spec_tree (S d) tys k (Tree tk ao kids) = Some x ->
    exists own inh,
      all_some (map (fun kc => spec_tree d tys (fst kc) (snd kc)) kids) = Some own /\
      all_some (map (spec_base (spec_tree d tys) tys) (eff_ao tk ao)) = Some inh /\
      x = RNode k tk [] (List.concat inh ++ own).
  Proof.
    intros Hs. simpl in Hs.
    destruct (all_some (map (fun kc => spec_tree d tys (fst kc) (snd kc)) kids)) as [own|]; [|discriminate].
    exists own. destruct tk; simpl.
    - destruct (all_some (map (spec_base (spec_tree d tys) tys) ao)) as [inh|]; [|discriminate].
      exists inh. injection Hs as <-. auto.
    - exists []. injection Hs as <-. auto.
    - exists []. injection Hs as <-. auto.
  Qed.

  Lemma spec_fold d k tk ao kids own inh :
    all_some (map (fun kc => spec_tree d tys (fst kc) (snd kc)) kids) = Some own ->
    all_some (map (spec_base (spec_tree d tys) tys) (eff_ao tk ao)) = Some inh ->
    spec_tree (S d) tys k (Tree tk ao kids) = Some (RNode k tk [] (List.concat inh ++ own)).
  Proof.
    intros Ho Hi. simpl. rewrite Ho. destruct tk; simpl in Hi.
    - rewrite Hi. reflexivity.
    - injection Hi as <-. reflexivity.
    - injection Hi as <-. reflexivity.
  Qed.

  Lemma spec_base_some d b l :
    spec_base (spec_tree d tys) tys b = Some l ->
    exists ao' kids' r, lookup tys b = Some (Some (Tree TObject ao' kids')) /\
                        spec_tree d tys None (Tree TObject ao' kids') = Some r /\ l = map (mark b) (rkids r).
  Proof.
    unfold spec_base. intros Hs. destruct (lookup tys b) as [[[tk ao' kids']|]|]; try discriminate.
    destruct tk; try discriminate.
    destruct (spec_tree d tys None (Tree TObject ao' kids')) as [r|] eqn:Er; [|discriminate].
    injection Hs as <-. exists ao', kids', r. repeat split; auto.
  Qed.

  Lemma spec_root d k t x : spec_tree d tys k t = Some x -> rkey x = k /\ rtok x = ttok t /\ rinh x = [].
  Proof.
    destruct d as [|d]; [discriminate|]. destruct t as [tk ao kids]. intros Hs.
    destruct (spec_unfold d k tk ao kids x Hs) as (own & inh & _ & _ & ->). simpl. auto.
  Qed.

  Lemma spec_height : forall d k t x, spec_tree d tys k t = Some x -> rheight x <= d.
  Proof.
    induction d as [|d IH]; intros k t x Hs; [discriminate|]. destruct t as [tk ao kids].
    destruct (spec_unfold d k tk ao kids x Hs) as (own & inh & Ho & Hi & ->). simpl.
    apply le_n_S. apply list_max_le. rewrite map_app. apply Forall_app. split.
    - apply Forall_forall. intros h Hh. apply in_map_iff in Hh as (y & <- & Hy).
      apply in_concat in Hy as (blk & Hblk & Hyb).
      apply all_some_map_some in Hi.
      destruct (Forall2_In_r _ _ _ _ Hi Hblk) as (b & _ & Hb).
      destruct (spec_base_some d b blk Hb) as (ao' & kids' & r & _ & Hr & ->).
      apply in_map_iff in Hyb as (z & <- & Hz). rewrite rheight_mark.
      specialize (IH _ _ _ Hr). apply rheight_kid in Hz. lia.
    - apply Forall_forall. intros h Hh. apply in_map_iff in Hh as (y & <- & Hy).
      apply all_some_map_some in Ho.
      destruct (Forall2_In_r _ _ _ _ Ho Hy) as (kc & _ & Hkc). eapply IH; eauto.
  Qed.

  (* ----------------------------------------------------------------------------------- *)
  (* entries *)

  Definition spd (d : nat) (e : entry) : option rtree := spec_tree d tys (en_key e) (en_tree e).
  Definition tg (e : entry) : option rtree := option_map (mark (en_mark e)) (spd D e).

  Lemma spd_le d d' e : d <= d' -> spd d e <> None -> spd d' e <> None.
  Proof.
    unfold spd. intros Hle Hd. destruct (spec_tree d tys (en_key e) (en_tree e)) as [x|] eqn:Ex; [|congruence].
    rewrite (spec_tree_le d d' tys _ _ x Hle Ex). discriminate.
  Qed.

  Lemma spd_none_le d d' e : d <= d' -> spd d' e = None -> spd d e = None.
  Proof.
    intros Hle Hn. destruct (spd d e) eqn:Ed; [|reflexivity].
    exfalso. apply (spd_le d d' e Hle); congruence.
  Qed.

  Lemma spd_min : forall d e, spd d e <> None -> exists d0, S d0 <= d /\ spd (S d0) e <> None /\ spd d0 e = None.
  Proof.
    induction d as [|d IH]; intros e Hd; [exfalso; apply Hd; reflexivity|].
    destruct (spd d e) eqn:Ed.
    - destruct (IH e) as (d0 & Hle & H1 & H2); [congruence|]. exists d0. repeat split; auto.
    - exists d. repeat split; auto.
  Qed.

  Lemma tg_shape e x : tg e = Some x -> rkey x = en_key e /\ rtok x = ttok (en_tree e) /\ rinh x = en_mark e.
  Proof.
    unfold tg, spd. destruct (spec_tree D tys (en_key e) (en_tree e)) as [y|] eqn:Ey; [|discriminate].
    simpl. intros Hx. injection Hx as <-. destruct (spec_root _ _ _ _ Ey) as (Hk & Ht & _).
    rewrite rkey_mark, rtok_mark, rinh_mark. auto.
  Qed.

  Lemma tg_spd e x : tg e = Some x -> exists y, spd D e = Some y /\ x = mark (en_mark e) y.
  Proof. unfold tg. destruct (spd D e) as [y|]; [|discriminate]. simpl. intros Hx. injection Hx as <-. eauto. Qed.

  (* the children of a target: blocks of the bases (in rule order), then the own properties *)
  Lemma tg_kids e x :
    tg e = Some x ->
    exists d own inh, D = S d /\
      all_some (map (fun kc => spec_tree d tys (fst kc) (snd kc)) (tkids (en_tree e))) = Some own /\
      all_some (map (spec_base (spec_tree d tys) tys) (eff_ao (ttok (en_tree e)) (tao (en_tree e)))) = Some inh /\
      rkids x = List.concat inh ++ own.
  Proof.
    intros Hx. destruct (tg_spd e x Hx) as (y & Hy & ->). unfold spd in Hy.
    destruct D as [|d]; [discriminate|]. rewrite (tree_eta (en_tree e)) in Hy.
    destruct (spec_unfold d _ _ _ _ y Hy) as (own & inh & Ho & Hi & ->).
    exists d, own, inh. rewrite rkids_mark. simpl. auto.
  Qed.

  (* ----------------------------------------------------------------------------------- *)
  (* the typing *)

  Definition child_ok (G : list entry) (c : id) (y : rtree) : Prop :=
    exists ec, nth_error G c = Some ec /\ tg ec = Some y.

  Record node_ok (G : list entry) (e : entry) (n : node) : Prop := {
    no_key : n_key n = en_key e;
    no_tok : n_tok n = ttok (en_tree e);
    no_ao : n_allof n = tao (en_tree e);
    no_inh : n_inh n = en_mark e;
    no_obj : ttok (en_tree e) <> TObject -> tao (en_tree e) = [];
    no_kids : exists x pre s, tg e = Some x /\ rtree_ok x = true /\ rkids x = pre ++ s /\
                              List.length (tkids (en_tree e)) <= List.length s /\
                              Forall2 (child_ok G) (n_children n) s;
    no_lvl : forall d c ec, spd (S d) e <> None -> In c (n_children n) -> nth_error G c = Some ec -> spd d ec <> None
  }.

  Definition type_entry (tb : tree) : entry := {| en_mark := []; en_key := None; en_tree := tb |}.

  Record WF (G : list entry) (st : state) : Prop := {
    wf_len : List.length G = List.length (heap st);
    wf_node : forall j n, get st j = Some n -> exists e, nth_error G j = Some e /\ node_ok G e n;
    wf_types : forall b rb, lookup ts b = Some (Some rb) ->
                 exists tb, lookup tys b = Some (Some tb) /\ nth_error G rb = Some (type_entry tb)
  }.

  Definition full (G : list entry) (j : id) (n : node) : Prop :=
    exists e x, nth_error G j = Some e /\ tg e = Some x /\ List.length (n_children n) = List.length (rkids x).

  Fixpoint fin (h : nat) (G : list entry) (st : state) (j : id) : Prop :=
    match h with
    | O => False
    | S h' => exists n, get st j = Some n /\ full G j n /\ Forall (fin h' G st) (n_children n)
    end.

  Definition fins (G : list entry) (st : state) (j : id) : Prop := exists h, fin h G st j.

  (* a full node is never written *)
  Definition keeps (G : list entry) (st st' : state) : Prop :=
    forall j n, get st j = Some n -> full G j n -> get st' j = Some n.

  (* a node whose source subtree is not defined at spec fuel d is not written *)
  Definition lframe (d : nat) (G : list entry) (st st' : state) : Prop :=
    forall j e n, nth_error G j = Some e -> spd d e = None -> get st j = Some n -> get st' j = Some n.

  (* processedByAllOf: a memoised type whose closure needs fuel <= d has been completed *)
  Definition memoinv (d : nat) (G : list entry) (st : state) : Prop :=
    forall b tb rb, In b (memo st) -> lookup tys b = Some (Some tb) -> lookup ts b = Some (Some rb) ->
                    spec_tree d tys None tb <> None -> fins G st rb.

  Definition memo_eff (d : nat) (st st' : state) : Prop :=
    forall b, In b (memo st') ->
              In b (memo st) \/ exists tb, lookup tys b = Some (Some tb) /\ spec_tree d tys None tb <> None.

  (* ---- monotonicity in the ghost state ---- *)

  Lemma child_ok_ext G G' c y : prefix G G' -> child_ok G c y -> child_ok G' c y.
  Proof. intros Hp (ec & Hn & Ht). exists ec. split; auto. eapply prefix_nth; eauto. Qed.

  Lemma node_ok_ext G G' e n : prefix G G' -> node_ok G e n -> node_ok G' e n.
  Proof.
    intros Hp [Hk Ht Ha Hi Ho Hkids Hl]. split; auto.
    - destruct Hkids as (x & pre & s & Hx & Hok & Hs & Hlen & HF).
      exists x, pre, s. repeat split; auto.
      eapply Forall2_impl'; [|exact HF]. intros c y. apply child_ok_ext. exact Hp.
    - intros d c ec Hd Hin Hn.
      destruct Hkids as (x & pre & s & _ & _ & _ & _ & HF).
      destruct (In_nth_error _ _ Hin) as (q & Hq).
      destruct (Forall2_nth_l _ _ _ _ _ HF Hq) as (y & _ & (ec' & Hn' & _)).
      assert (nth_error G' c = Some ec') by (eapply prefix_nth; eauto).
      assert (ec' = ec) by congruence. subst ec'. eapply Hl; eauto.
  Qed.

  Lemma full_ext G G' j n : prefix G G' -> full G j n -> full G' j n.
  Proof. intros Hp (e & x & Hn & Hx & Hl). exists e, x. split; [eapply prefix_nth; eauto|auto]. Qed.

  Lemma full_ext_inv G G' j n : prefix G G' -> j < List.length G -> full G' j n -> full G j n.
  Proof. intros Hp Hlt (e & x & Hn & Hx & Hl). exists e, x. split; [eapply prefix_nth_inv; eauto|auto]. Qed.

  Lemma fin_S h : forall G st j, fin h G st j -> fin (S h) G st j.
  Proof.
    induction h as [|h IH]; intros G st j Hf; [destruct Hf|].
    destruct Hf as (n & Hg & Hfull & Hc). exists n. repeat split; auto.
    eapply Forall_impl; [|exact Hc]. intros c. apply IH.
  Qed.

  Lemma fin_le h h' G st j : h <= h' -> fin h G st j -> fin h' G st j.
  Proof. induction 1; auto. intros. apply fin_S. auto. Qed.

  Lemma fin_step h : forall G G' st st' j,
    prefix G G' -> keeps G st st' -> fin h G st j -> fin h G' st' j.
  Proof.
    induction h as [|h IH]; intros G G' st st' j Hp Hk Hf; [destruct Hf|].
    destruct Hf as (n & Hg & Hfull & Hc). exists n. split; [apply Hk; auto|]. split; [eapply full_ext; eauto|].
    eapply Forall_impl; [|exact Hc]. intros c. apply IH; auto.
  Qed.

  Lemma fins_step G G' st st' j : prefix G G' -> keeps G st st' -> fins G st j -> fins G' st' j.
  Proof. intros Hp Hk [h Hf]. exists h. eapply fin_step; eauto. Qed.

  Lemma fins_all (G : list entry) st cs :
    Forall (fins G st) cs -> exists h, Forall (fin h G st) cs.
  Proof.
    induction 1 as [|c cs [h Hc] _ [h' IH]].
    - exists 0. constructor.
    - exists (max h h'). constructor.
      + apply (fin_le h); [lia|exact Hc].
      + eapply Forall_impl; [|exact IH]. intros a. apply fin_le. lia.
  Qed.

  Lemma keeps_refl G st : keeps G st st.
  Proof. intros j n Hg _. exact Hg. Qed.

  Lemma keeps_trans G G1 a b c : prefix G G1 -> keeps G a b -> keeps G1 b c -> keeps G a c.
  Proof.
    intros Hp K1 K2 j n Hg Hf. apply K2; [apply K1; auto|]. eapply full_ext; eauto.
  Qed.

  Lemma lframe_refl d G st : lframe d G st st.
  Proof. intros j e n _ _ Hg. exact Hg. Qed.

  Lemma lframe_trans d G G1 a b c : prefix G G1 -> lframe d G a b -> lframe d G1 b c -> lframe d G a c.
  Proof.
    intros Hp F1 F2 j e n Hn Hd Hg. eapply F2; [eapply prefix_nth; eauto|exact Hd|]. eapply F1; eauto.
  Qed.

  Lemma lframe_le d d' G a b : d <= d' -> lframe d G a b -> lframe d' G a b.
  Proof. intros Hle Hf j e n Hn Hd Hg. eapply Hf; eauto. eapply spd_none_le; eauto. Qed.

  Lemma memoinv_le d d' G st : d <= d' -> memoinv d' G st -> memoinv d G st.
  Proof.
    intros Hle Hm b tb rb Hin Hl Hl' Hd. apply (Hm b tb rb); auto.
    destruct (spec_tree d tys None tb) as [x|] eqn:Ex; [|congruence].
    rewrite (spec_tree_le d d' tys _ _ x Hle Ex). discriminate.
  Qed.

  Lemma memo_eff_le d d' a b : d <= d' -> memo_eff d a b -> memo_eff d' a b.
  Proof.
    intros Hle He x Hx. destruct (He x Hx) as [Hin|(tb & Hl & Hd)]; [auto|]. right. exists tb. split; auto.
    destruct (spec_tree d tys None tb) as [y|] eqn:Ey; [|congruence].
    rewrite (spec_tree_le d d' tys _ _ y Hle Ey). discriminate.
  Qed.

  (* ---- a transition of the run: what every step (visit, copy) guarantees ---- *)

  Record trans (dl dm : nat) (G : list entry) (st : state) (G' : list entry) (st' : state) : Prop := {
    tr_pre : prefix G G';
    tr_wf : WF G' st';
    tr_keeps : keeps G st st';
    tr_lframe : lframe dl G st st';
    tr_minv : memoinv dm G' st';
    tr_meff : memo_eff dm st st'
  }.

  Lemma trans_refl dl dm G st : WF G st -> memoinv dm G st -> trans dl dm G st G st.
  Proof.
    intros Hw Hm. split; auto using prefix_refl, keeps_refl, lframe_refl.
    intros b Hb. left. exact Hb.
  Qed.

  Lemma trans_trans dl dm G st G1 st1 G2 st2 :
    trans dl dm G st G1 st1 -> trans dl dm G1 st1 G2 st2 -> trans dl dm G st G2 st2.
  Proof.
    intros [P1 W1 K1 L1 M1 E1] [P2 W2 K2 L2 M2 E2]. split.
    - eapply prefix_trans; eauto.
    - exact W2.
    - eapply keeps_trans; eauto.
    - eapply lframe_trans; eauto.
    - exact M2.
    - intros b Hb. destruct (E2 b Hb) as [Hin|Hnew]; auto.
  Qed.

  Lemma trans_lframe_le dl dl' dm G st G' st' : dl <= dl' -> trans dl dm G st G' st' -> trans dl' dm G st G' st'.
  Proof. intros Hle [P W K L M E]. split; auto. eapply lframe_le; eauto. Qed.

  Lemma trans_fins dl dm G st G' st' j : trans dl dm G st G' st' -> fins G st j -> fins G' st' j.
  Proof. intros T Hf. eapply fins_step; [exact (tr_pre _ _ _ _ _ _ T)|exact (tr_keeps _ _ _ _ _ _ T)|exact Hf]. Qed.

  (* ---- reading the typing ---- *)

  Lemma wf_get G st j e : WF G st -> nth_error G j = Some e -> exists n, get st j = Some n /\ node_ok G e n.
  Proof.
    intros Hw Hn. assert (Hlt : j < List.length (heap st)).
    { rewrite <- (wf_len _ _ Hw). apply nth_error_Some. congruence. }
    destruct (get st j) as [n|] eqn:Eg; [|apply nth_error_None in Eg; lia].
    destruct (wf_node _ _ Hw j n Eg) as (e' & Hn' & Hok). exists n. split; auto. congruence.
  Qed.

  Lemma wf_entry G st j n : WF G st -> get st j = Some n -> exists e, nth_error G j = Some e /\ node_ok G e n.
  Proof. intros Hw Hg. exact (wf_node _ _ Hw j n Hg). Qed.

  (* the children of a full node stand for all the children of its target *)
  Lemma full_children G j e n x :
    node_ok G e n -> nth_error G j = Some e -> full G j n -> tg e = Some x ->
    Forall2 (child_ok G) (n_children n) (rkids x).
  Proof.
    intros Hok Hn (e' & x' & Hn' & Hx' & Hlen) Hx.
    assert (e' = e) by congruence. subst e'. assert (x' = x) by congruence. subst x'.
    destruct (no_kids _ _ _ Hok) as (x2 & pre & s & Hx2 & _ & Hs & _ & HF).
    assert (x2 = x) by congruence. subst x2.
    assert (Hl := Forall2_length' _ _ _ HF).
    destruct (app_eq_length_l pre s (rkids x) Hs) as [_ ->]; [congruence|]. exact HF.
  Qed.

  (* a node without rule is full from the start *)
  Lemma no_rule_full G j e n :
    node_ok G e n -> nth_error G j = Some e -> n_allof n = [] -> full G j n.
  Proof.
    intros Hok Hn Hao. destruct (no_kids _ _ _ Hok) as (x & pre & s & Hx & _ & Hs & Hlen & HF).
    exists e, x. split; [exact Hn|]. split; [exact Hx|].
    destruct (tg_kids e x Hx) as (d & own & inh & _ & Ho & Hi & Hk).
    rewrite (no_ao _ _ _ Hok) in Hao. rewrite Hao in Hi.
    assert (inh = []).
    { destruct (ttok (en_tree e)); simpl in Hi; injection Hi as <-; reflexivity. }
    subst inh. simpl in Hk.
    assert (Hlo := all_some_length _ _ _ Ho). assert (Hl := Forall2_length' _ _ _ HF).
    assert (Hls : List.length (rkids x) = List.length pre + List.length s) by (rewrite Hs, app_length; reflexivity).
    rewrite Hk in Hls |- *. lia.
  Qed.

  (* a fin node renders as its target *)
  Lemma fin_render G st : WF G st ->
    forall h j e x F, fin h G st j -> nth_error G j = Some e -> tg e = Some x -> rheight x <= F ->
    render F st j = Some x.
  Proof.
    intros Hw. induction h as [|h IH]; intros j e x F Hf Hn Hx HF; [destruct Hf|].
    destruct Hf as (n & Hg & Hfull & Hc).
    destruct (wf_entry G st j n Hw Hg) as (e' & Hn' & Hok). assert (e' = e) by congruence. subst e'.
    assert (Hch := full_children G j e n x Hok Hn Hfull Hx).
    destruct F as [|F]; [destruct x; simpl in HF; lia|].
    rewrite render_S, Hg. unfold rnode.
    assert (Hgen : forall cs ys, Forall2 (child_ok G) cs ys -> Forall (fin h G st) cs ->
                                 (forall y, In y ys -> rheight y <= F) ->
                                 all_some (map (render F st) cs) = Some ys).
    { induction 1 as [|c y cs ys Hcy _ IHc]; intros Hfc Hsub; [reflexivity|].
      inversion Hfc as [|? ? Hfc1 Hfcs]; subst. destruct Hcy as (ec & Hnc & Htc). simpl.
      rewrite (IH c ec y F Hfc1 Hnc Htc); [|apply Hsub; simpl; auto].
      rewrite IHc; auto. intros z Hz. apply Hsub. simpl. auto. }
    assert (Hks : all_some (map (render F st) (n_children n)) = Some (rkids x)).
    { apply Hgen; auto. intros y Hy. apply rheight_kid in Hy. lia. }
    rewrite Hks. destruct (tg_shape e x Hx) as (Hk & Ht & Hi).
    rewrite (no_key _ _ _ Hok), (no_tok _ _ _ Hok), (no_inh _ _ _ Hok), <- Hk, <- Ht, <- Hi.
    rewrite <- rtree_eta. reflexivity.
  Qed.
End Typing.
